/-
  Model of the encrypted peer transport (gemmill/p2p/secret_connection.go Write / Read) and of the
  message packetisation above it (gemmill/p2p/connection.go nextMsgPacket / recvMsgPacket).

  Cryptography is symbolic: a sealed frame is the triple (nonce counter it was sealed under, the
  plaintext frame, an integrity tag that any modification destroys). `open` succeeds exactly for an
  unmodified frame presented under the nonce counter it was sealed with — the ideal behaviour of
  NaCl secretbox with a shared key nobody else has (assumption recorded in the manifest).
-/
import AnnVerif.Model.Basic
namespace AnnVerif.Transport

/-- variants -/
structure Cfg where
  /-- `Read` reports how many bytes it copied out of its buffer (repaired); as found it copies them
      and reports 0, so the caller never sees them -/
  readReportsBuffered : Bool := true
  deriving Repr, DecidableEq

def dataMaxSize : Nat := 1024

/-- a sealed frame on the wire -/
structure Sealed where
  nonce : Nat          -- the sender's frame counter
  chunk : Bytes        -- the data of the frame (1..1024 bytes)
  intact : Bool        -- false once anybody has modified the ciphertext
  truncated : Bool := false   -- the connection ended inside this frame
  deriving Repr, DecidableEq

/-- `Write`: the data cut into chunks of at most 1024 bytes, one sealed frame each -/
def chunks : Nat → Bytes → List Bytes
  | 0, _ => []
  | fuel + 1, d => if d.isEmpty then [] else d.take dataMaxSize :: chunks fuel (d.drop dataMaxSize)

def sealFrames (sendNonce : Nat) (cs : List Bytes) : List Sealed :=
  cs.zipIdx.map fun (c, i) => ⟨sendNonce + i, c, true, false⟩

structure Sender where
  nonce : Nat := 0

def write (s : Sender) (data : Bytes) : Sender × List Sealed :=
  let cs := chunks (data.length + 1) data
  ({ nonce := s.nonce + cs.length }, sealFrames s.nonce cs)

structure Receiver where
  nonce : Nat := 0
  buf : Bytes := []
  deriving Repr, DecidableEq

inductive ReadRes where
  | data (reported : Nat) (delivered : Bytes)   -- n and the bytes copied into the caller's buffer
  | decryptError
  | eof
  deriving Repr, DecidableEq

/-- `Read(buf of k bytes)` with the frames still on the wire -/
def scRead (cfg : Cfg) (r : Receiver) (wire : List Sealed) (k : Nat) : Receiver × List Sealed × ReadRes :=
  if !r.buf.isEmpty then
    let out := r.buf.take k
    ({ r with buf := r.buf.drop k }, wire, .data (if cfg.readReportsBuffered then out.length else 0) out)
  else
    match wire with
    | [] => (r, wire, .eof)
    | f :: rest =>
      if f.truncated then (r, rest, .eof)
      else if !f.intact ∨ f.nonce ≠ r.nonce then (r, rest, .decryptError)
      else
        let out := f.chunk.take k
        ({ nonce := r.nonce + 1, buf := f.chunk.drop k }, rest, .data out.length out)

/-! ### message packets (connection.go) -/

def maxPayload : Nat := 1024

structure Packet where
  ch : Nat
  eof : Bool
  bytes : Bytes
  deriving Repr, DecidableEq

/-- `nextMsgPacket` until the message is sent: pieces of at most `maxPayload`, the last one marked -/
def packetize (ch : Nat) : Nat → Bytes → List Packet
  | 0, _ => []
  | fuel + 1, m =>
    if m.length ≤ maxPayload then [⟨ch, true, m⟩]
    else ⟨ch, false, m.take maxPayload⟩ :: packetize ch fuel (m.drop maxPayload)

def packets (ch : Nat) (m : Bytes) : List Packet := packetize ch (m.length + 1) m

inductive RecvRes where
  | more | complete (msg : Bytes) | tooLong
  deriving Repr, DecidableEq

/-- `recvMsgPacket` of one channel: `recving` accumulates until the EOF packet -/
def recvPacket (capacity : Nat) (recving : Bytes) (p : Packet) : Bytes × RecvRes :=
  if capacity < recving.length + p.bytes.length then (recving, .tooLong)
  else if p.eof then ([], .complete (recving ++ p.bytes))
  else (recving ++ p.bytes, .more)

end AnnVerif.Transport
