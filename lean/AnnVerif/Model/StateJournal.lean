/-
  Model of the journalled state database (eth/core/state/statedb.go, state_object.go, journal.go):
  accounts with nonce, balance, code and storage; every mutation appends an undo entry to the
  journal; `RevertToSnapshot` replays the entries behind the snapshot backwards.
-/
import AnnVerif.Model.Basic
namespace AnnVerif.StateJournal

structure Acct where
  nonce : Nat := 0
  balance : Nat := 0
  code : Bytes := []
  storage : Nat → Nat := fun _ => 0     -- key -> value; 0 is "not set"
  suicided : Bool := false

abbrev Accounts := Nat → Option Acct   -- address -> account, `none` = does not exist

def find (as : Accounts) (a : Nat) : Option Acct := as a

def put (as : Accounts) (a : Nat) (x : Acct) : Accounts := fun b => if b = a then some x else as b

def remove (as : Accounts) (a : Nat) : Accounts := fun b => if b = a then none else as b

def sget (st : Nat → Nat) (k : Nat) : Nat := st k

def sput (st : Nat → Nat) (k v : Nat) : Nat → Nat := fun j => if j = k then v else st j

/-- journal entries: what to restore -/
inductive Entry where
  | created (a : Nat)                       -- createObjectChange: delete the account again
  | reset (a : Nat) (prev : Acct)           -- resetObjectChange: put the previous object back
  | nonce (a : Nat) (prev : Nat)
  | balance (a : Nat) (prev : Nat)
  | code (a : Nat) (prev : Bytes)
  | storage (a : Nat) (k : Nat) (prev : Nat)
  | suicide (a : Nat) (prev : Bool) (prevBalance : Nat)

structure DB where
  accts : Accounts := fun _ => none
  journal : List Entry := []       -- oldest first
  snaps : List (Nat × Nat) := []   -- (snapshot id, journal length at that time)
  nextId : Nat := 0
  objDirty : List Nat := []        -- stateObjectsDirty: accounts marked by earlier Finalise calls

/-- `getOrNewStateObject`: an account that does not exist is created (journalled) -/
def touch (d : DB) (a : Nat) : DB × Acct :=
  match find d.accts a with
  | some x => (d, x)
  | none => ({ d with accts := put d.accts a {}, journal := d.journal ++ [.created a] }, {})

def setNonce (d : DB) (a n : Nat) : DB :=
  let t := touch d a
  { t.1 with accts := put t.1.accts a { t.2 with nonce := n }, journal := t.1.journal ++ [.nonce a t.2.nonce] }

def setBalance (d : DB) (a b : Nat) : DB :=
  let t := touch d a
  { t.1 with accts := put t.1.accts a { t.2 with balance := b }, journal := t.1.journal ++ [.balance a t.2.balance] }

def setCode (d : DB) (a : Nat) (c : Bytes) : DB :=
  let t := touch d a
  { t.1 with accts := put t.1.accts a { t.2 with code := c }, journal := t.1.journal ++ [.code a t.2.code] }

/-- `SetState`: nothing happens (and nothing is journalled) when the value is unchanged -/
def setState (d : DB) (a k v : Nat) : DB :=
  let t := touch d a
  if sget t.2.storage k = v then t.1
  else { t.1 with accts := put t.1.accts a { t.2 with storage := sput t.2.storage k v },
                  journal := t.1.journal ++ [.storage a k (sget t.2.storage k)] }

/-- `CreateAccount`: a new object replaces an existing one, keeping its balance -/
def createAccount (d : DB) (a : Nat) : DB :=
  match find d.accts a with
  | none => { d with accts := put d.accts a {}, journal := d.journal ++ [.created a] }
  | some prev => { d with accts := put d.accts a { balance := prev.balance }, journal := d.journal ++ [.reset a prev] }

/-- `Suicide`: marks the account and zeroes its balance; false for a missing account -/
def suicide (d : DB) (a : Nat) : DB :=
  match find d.accts a with
  | none => d
  | some x => { d with accts := put d.accts a { x with suicided := true, balance := 0 },
                       journal := d.journal ++ [.suicide a x.suicided x.balance] }

def snapshot (d : DB) : DB × Nat :=
  ({ d with snaps := d.snaps ++ [(d.nextId, d.journal.length)], nextId := d.nextId + 1 }, d.nextId)

/-- undo one journal entry -/
def undo (as : Accounts) : Entry → Accounts
  | .created a => remove as a
  | .reset a prev => put as a prev
  | .nonce a p => (match find as a with | some x => put as a { x with nonce := p } | none => as)
  | .balance a p => (match find as a with | some x => put as a { x with balance := p } | none => as)
  | .code a p => (match find as a with | some x => put as a { x with code := p } | none => as)
  | .storage a k p => (match find as a with | some x => put as a { x with storage := sput x.storage k p } | none => as)
  | .suicide a ps pb => (match find as a with | some x => put as a { x with suicided := ps, balance := pb } | none => as)

/-- `RevertToSnapshot(id)`: undo the journal back to the length recorded for `id`, newest first;
    the snapshot and all later ones are gone. An unknown id is a panic in the code: `none`. -/
def revert (d : DB) (id : Nat) : Option DB :=
  match d.snaps.find? (·.1 == id) with
  | none => none
  | some (_, len) =>
    let tail := (d.journal.drop len).reverse
    some { d with accts := tail.foldl undo d.accts, journal := d.journal.take len,
                  snaps := d.snaps.filter (·.1 < id) }

/-- which account a journal entry marks dirty (`dirtied()`); `resetObjectChange` marks none -/
def Entry.dirties : Entry → Option Nat
  | .created a => some a
  | .reset _ _ => none
  | .nonce a _ => some a
  | .balance a _ => some a
  | .code a _ => some a
  | .storage a _ _ => some a
  | .suicide a _ _ => some a

def journalDirty (d : DB) (a : Nat) : Bool := d.journal.any (fun e => e.dirties == some a)

/-- `Finalise(false)` (what `IntermediateRoot` does first): dirty suicided accounts are deleted, the
    dirty marks move to the object-dirty set, the journal and all snapshots are invalidated -/
def finalise (d : DB) : DB :=
  { d with accts := fun a =>
             if journalDirty d a then
               (match d.accts a with
                | some x => if x.suicided then none else some x
                | none => none)
             else d.accts a,
           objDirty := d.objDirty ++ ((List.range 16).filter (journalDirty d)),
           journal := [], snaps := [] }

/-- `Commit(false)` followed by reopening the state at the new root: only accounts marked dirty
    (by the journal or by an earlier Finalise) are written; every other account reads as it was
    persisted before. -/
def commit (d : DB) (persisted : Accounts) : DB :=
  let f := finalise d
  { accts := fun a => if f.objDirty.contains a then f.accts a else persisted a,
    journal := [], snaps := [], nextId := 0, objDirty := [] }

/-- `stateObject.empty()` (EIP-161): no nonce, no balance, no code -/
def Acct.isEmpty (x : Acct) : Bool := x.nonce == 0 && x.balance == 0 && x.code.isEmpty

/-- `Finalise(true)`: as `finalise`, and a journal-dirty account that is EMPTY is deleted too; an
    account nothing has touched stays, empty or not -/
def finaliseDel (d : DB) : DB :=
  { d with accts := fun a =>
             if journalDirty d a then
               (match d.accts a with
                | some x => if x.suicided || x.isEmpty then none else some x
                | none => none)
             else d.accts a,
           objDirty := d.objDirty ++ ((List.range 16).filter (journalDirty d)),
           journal := [], snaps := [] }

/-- `Commit(true)` (what the application does for every block) followed by reopening at the root:
    of the accounts marked dirty the suicided and the empty ones are deleted, the others written;
    every account that was only READ since it was persisted reads as it was persisted -/
def commitDel (d : DB) (persisted : Accounts) : DB :=
  let dirty := fun a => d.objDirty.contains a || journalDirty d a
  { accts := fun a =>
      if dirty a then
        (match d.accts a with
         | some x => if x.suicided || x.isEmpty then none else some x
         | none => none)
      else persisted a,
    journal := [], snaps := [], nextId := 0, objDirty := [] }

end AnnVerif.StateJournal
