/-
  Keccak-256 (the hash of the state trie), executable. Used only by the compiled trie driver to
  compare roots with the real implementations; no theorem is stated about it.
-/
import AnnVerif.Model.Basic
namespace AnnVerif.Keccak

def rc : Array UInt64 := #[
  0x0000000000000001, 0x0000000000008082, 0x800000000000808A, 0x8000000080008000,
  0x000000000000808B, 0x0000000080000001, 0x8000000080008081, 0x8000000000008009,
  0x000000000000008A, 0x0000000000000088, 0x0000000080008009, 0x000000008000000A,
  0x000000008000808B, 0x800000000000008B, 0x8000000000008089, 0x8000000000008003,
  0x8000000000008002, 0x8000000000000080, 0x000000000000800A, 0x800000008000000A,
  0x8000000080008081, 0x8000000000008080, 0x0000000080000001, 0x8000000080008008]

/-- rotation offsets, index x + 5*y -/
def rot : Array Nat := #[
  0, 1, 62, 28, 27,
  36, 44, 6, 55, 20,
  3, 10, 43, 25, 39,
  41, 45, 15, 21, 8,
  18, 2, 61, 56, 14]

def rotl (x : UInt64) (n : Nat) : UInt64 :=
  if n % 64 = 0 then x else (x <<< (n % 64).toUInt64) ||| (x >>> (64 - n % 64).toUInt64)

def round (a : Array UInt64) (i : Nat) : Array UInt64 :=
  let g (k : Nat) : UInt64 := a[k]!
  let c : Array UInt64 := (Array.range 5).map fun x => g x ^^^ g (x + 5) ^^^ g (x + 10) ^^^ g (x + 15) ^^^ g (x + 20)
  let d : Array UInt64 := (Array.range 5).map fun x => c[(x + 4) % 5]! ^^^ rotl c[(x + 1) % 5]! 1
  let a1 : Array UInt64 := (Array.range 25).map fun k => g k ^^^ d[k % 5]!
  -- rho and pi: B[y, 2x+3y] = rot(A[x,y])
  let b : Array UInt64 := Id.run do
    let mut b : Array UInt64 := Array.replicate 25 0
    for x in [0:5] do
      for y in [0:5] do
        b := b.set! (y + 5 * ((2 * x + 3 * y) % 5)) (rotl a1[x + 5 * y]! rot[x + 5 * y]!)
    return b
  let a2 : Array UInt64 := (Array.range 25).map fun k =>
    let x := k % 5
    let y := k / 5
    b[k]! ^^^ ((~~~ b[(x + 1) % 5 + 5 * y]!) &&& b[(x + 2) % 5 + 5 * y]!)
  a2.set! 0 (a2[0]! ^^^ rc[i]!)

def permute (a : Array UInt64) : Array UInt64 := (List.range 24).foldl round a

def laneLE (bs : List UInt8) : UInt64 :=
  (bs.zipIdx.map fun (b, i) => b.toUInt64 <<< (8 * i).toUInt64).foldl (· ||| ·) 0

def absorb (a : Array UInt64) (block : List UInt8) : Array UInt64 :=
  let lanes := (List.range 17).map fun i => laneLE ((block.drop (8 * i)).take 8)
  permute ((Array.range 25).map fun k => if k < 17 then a[k]! ^^^ lanes[k]! else a[k]!)

def pad (msg : List UInt8) : List UInt8 :=
  let r := 136
  let padLen := r - msg.length % r
  if padLen = 1 then msg ++ [0x81]
  else msg ++ [0x01] ++ List.replicate (padLen - 2) 0 ++ [0x80]

def blocksAux : Nat → List UInt8 → List (List UInt8)
  | 0, _ => []
  | f + 1, l => if l.isEmpty then [] else l.take 136 :: blocksAux f (l.drop 136)

def blocks (l : List UInt8) : List (List UInt8) := blocksAux (l.length + 1) l

def keccak256 (msg : Bytes) : Bytes :=
  let st := (blocks (pad msg)).foldl absorb (Array.replicate 25 0)
  ((List.range 4).map fun i => (List.range 8).map fun j => (st[i]! >>> (8 * j).toUInt64).toUInt8).flatten

end AnnVerif.Keccak
