/-
  Model of the Merkle Patricia trie (eth/trie/trie.go insert / delete / get, encoding.go
  keybytesToHex / hexToCompact, hasher.go hash with embedding of nodes whose RLP is shorter than
  32 bytes). Keys are nibble lists ending in the terminator 16, as `keybytesToHex` makes them.
  The hash function is a parameter; the compiled driver instantiates it with Keccak-256.
-/
import AnnVerif.Model.Rlp
namespace AnnVerif.Trie

abbrev Key := List Nat

mutual
  inductive Node where
    | empty
    | value (v : Bytes)
    | short (key : Key) (child : Node)
    | full (children : Children)      -- 17 entries: nibbles 0..15 and the value slot 16
  inductive Children where
    | nil
    | cons (n : Node) (rest : Children)
end

/-- `keybytesToHex` -/
def keybytesToHex (k : Bytes) : Key :=
  (k.map fun b => [b.toNat / 16, b.toNat % 16]).flatten ++ [16]

def hasTerm (k : Key) : Bool := k.getLast? == some 16

/-- `hexToCompact` -/
def hexToCompact (k : Key) : Bytes :=
  let (term, hex) := if hasTerm k then (1, k.dropLast) else (0, k)
  let rec pack : List Nat → Bytes
    | a :: b :: r => UInt8.ofNat (a * 16 + b) :: pack r
    | _ => []
  if hex.length % 2 = 1 then
    UInt8.ofNat ((2 * term + 1) * 16 + hex.headD 0) :: pack hex.tail
  else UInt8.ofNat (2 * term * 16) :: pack hex

/-- `compactToHex` -/
def compactToHex (c : Bytes) : Key :=
  match c with
  | [] => []
  | f :: rest =>
    let flag := f.toNat / 16
    let body := (rest.map fun b => [b.toNat / 16, b.toNat % 16]).flatten
    let hex := if flag % 2 = 1 then f.toNat % 16 :: body else body
    if flag ≥ 2 then hex ++ [16] else hex

def prefixLen : Key → Key → Nat
  | a :: r, b :: s => if a = b then 1 + prefixLen r s else 0
  | _, _ => 0

/-! ### children access -/

def Children.get : Children → Nat → Node
  | .nil, _ => .empty
  | .cons n _, 0 => n
  | .cons _ r, i + 1 => r.get i

def Children.set : Children → Nat → Node → Children
  | .nil, _, _ => .nil
  | .cons _ r, 0, x => .cons x r
  | .cons n r, i + 1, x => .cons n (r.set i x)

def Children.replicate : Nat → Children
  | 0 => .nil
  | n + 1 => .cons .empty (Children.replicate n)

def Node.isEmpty : Node → Bool
  | .empty => true
  | _ => false

/-- positions of the non-empty children -/
def Children.nonEmpty : Children → Nat → List Nat
  | .nil, _ => []
  | .cons n r, i => (if n.isEmpty then [] else [i]) ++ r.nonEmpty (i + 1)

/-! ### get / insert / delete -/

def get : Node → Key → Nat → Option Bytes
  | _, _, 0 => none
  | .empty, _, _ => none
  | .value v, _, _ => some v
  | .short key child, k, f + 1 =>
    if k.length < key.length ∨ k.take key.length ≠ key then none else get child (k.drop key.length) f
  | .full cs, k, f + 1 =>
    match k with
    | [] => none
    | i :: r => get (cs.get i) r f

/-- `insert` (the value is never empty: `TryUpdate` turns an empty value into a delete) -/
def insert : Node → Key → Bytes → Nat → Node
  | n, _, _, 0 => n
  | _, [], v, _ => .value v
  | .short key child, k, v, f + 1 =>
    let m := prefixLen k key
    if m = key.length then .short key (insert child (k.drop m) v f)
    else
      -- the existing child goes under its next nibble as it is (a value or a subtree)
      let branch := (Children.replicate 17).set (key.getD m 0)
        (if (key.drop (m + 1)).isEmpty then child else .short (key.drop (m + 1)) child)
      let branch := branch.set (k.getD m 0) (insert .empty (k.drop (m + 1)) v f)
      if m = 0 then .full branch else .short (k.take m) (.full branch)
  | .full cs, i :: r, v, f + 1 => .full (cs.set i (insert (cs.get i) r v f))
  | .empty, k, v, _ => .short k (.value v)
  | .value _, _ :: _, v, _ => .value v   -- unreachable for terminated keys

/-- `delete` -/
def delete : Node → Key → Nat → Node
  | n, _, 0 => n
  | .short key child, k, f + 1 =>
    let m := prefixLen k key
    if m < key.length then .short key child
    else if m = k.length then .empty
    else
      match delete child (k.drop key.length) f with
      | .short ck cv => .short (key ++ ck) cv
      | c => .short key c
  | .full cs, i :: r, f + 1 =>
    let cs' := cs.set i (delete (cs.get i) r f)
    match cs'.nonEmpty 0 with
    | [pos] =>
      if pos ≠ 16 then
        match cs'.get pos with
        | .short ck cv => .short (pos :: ck) cv
        | c => .short [pos] c
      else .short [pos] (cs'.get pos)
    | _ => .full cs'
  | .full cs, [], _ => .full cs
  | .value _, _, _ => .empty
  | .empty, _, _ => .empty

/-! ### hashing -/

section
variable (H : Bytes → Bytes)

mutual
  /-- the RLP item of a node with its children collapsed -/
  def enc : Node → Rlp.Item
    | .empty => .str []
    | .value v => .str v
    | .short key child => .list [.str (hexToCompact key), ref child]
    | .full cs => .list (encChildren cs)
  /-- how a parent refers to a child: embedded if its RLP is shorter than 32 bytes, else by hash -/
  def ref : Node → Rlp.Item
    | .empty => .str []
    | .value v => .str v
    | .short key child =>
      let it := Rlp.Item.list [.str (hexToCompact key), ref child]
      if (Rlp.encode it).length < 32 then it else .str (H (Rlp.encode it))
    | .full cs =>
      let it := Rlp.Item.list (encChildren cs)
      if (Rlp.encode it).length < 32 then it else .str (H (Rlp.encode it))
  def encChildren : Children → List Rlp.Item
    | .nil => []
    | .cons n r => ref n :: encChildren r
end

/-- `Trie.Hash()`: the root is always hashed -/
def rootHash (n : Node) : Bytes :=
  match n with
  | .empty => H (Rlp.encode (.str []))
  | n => H (Rlp.encode (enc H n))

end

/-- a trie as the application uses it -/
def update (t : Node) (key value : Bytes) : Node :=
  let k := keybytesToHex key
  if value.isEmpty then delete t k (k.length + 2) else insert t k value (k.length + 2)

def lookup (t : Node) (key : Bytes) : Option Bytes :=
  let k := keybytesToHex key
  get t k (k.length + 2)

end AnnVerif.Trie
