/-
  Model of the timeout ticker (consensus/pbft/ticker.go timeoutRoutine): one pending timeout; a new
  request replaces it unless it is for an older height / round / step.
-/
import AnnVerif.Model.Basic
namespace AnnVerif.Ticker

structure TI where
  height : Int
  round : Int
  step : Nat          -- RoundStepType as a number (NewHeight = 1 ... Commit = 8); 0 = none yet
  deriving Repr, DecidableEq

/-- `sameHeightOnly` = the round comparison applies only to requests of the same height (the code
    as it is); the variant without it is what a flattened filter does -/
structure Cfg where
  sameHeightOnly : Bool := true
  deriving Repr, DecidableEq

/-- does the routine take the new request (stop the timer, arm it for `nt`)? -/
def accept (cfg : Cfg) (ti nt : TI) : Bool :=
  if nt.height < ti.height then false
  else if nt.height = ti.height ∨ !cfg.sameHeightOnly then
    if nt.round < ti.round then false
    else if nt.round = ti.round ∧ (nt.height = ti.height ∨ !cfg.sameHeightOnly) then
      !(ti.step > 0 ∧ nt.step ≤ ti.step)
    else true
  else true

structure St where
  ti : TI := ⟨0, 0, 0⟩
  armed : Bool := false      -- a timer with a long duration is running for `ti`

/-- a request with a duration that elapses at once (`fires` = it comes out on the tock channel) or
    one that stays pending -/
def schedule (cfg : Cfg) (s : St) (nt : TI) (short : Bool) : St × Option TI :=
  if accept cfg s.ti nt then
    if short then ({ ti := nt, armed := false }, some nt) else ({ ti := nt, armed := true }, none)
  else (s, none)

end AnnVerif.Ticker
