/-
  Model of gemmill/types/vote_set.go (VoteSet, blockVotes), BlockID.Key (block.go) and
  ValidatorSet.VerifyCommit / VoteSet.MakeCommit.

  Signature verification is NOT computed: each offered vote carries the oracle bit `sigok`
  (= `val.PubKey.VerifyBytes(SignBytes(chainID, vote), vote.Signature)` evaluated by the harness on
  the real keys). Theorems quantify over every assignment of that bit. Signatures are compared
  only for equality (`sig`, an opaque id).
-/
import AnnVerif.Model.Basic
namespace AnnVerif.VoteSet

/-- variants: `keyLenPrefixed` = `BlockID.Key()` length-prefixes the hash (repaired);
    `idxCheck` = `addVote` returns ErrVoteInvalidValidatorIndex for an index outside
    `[0, size)` instead of panicking (repaired). -/
structure Cfg where
  keyLenPrefixed : Bool
  idxCheck : Bool
  /-- `Commit.Height()/Round()` return 0 instead of dereferencing a nil `FirstPrecommit()` -/
  nilCommit : Bool
  /-- `VerifyCommit` requires every precommit to carry the index and the address of the validator
      in whose slot it sits (repaired); as found only the signature is checked against the slot's
      key, and the sign bytes cover neither field -/
  slotCheck : Bool
  deriving Repr, DecidableEq

def repaired : Cfg := ⟨true, true, true, true⟩
def asFound : Cfg := ⟨false, false, false, false⟩

structure BlockID where
  hash : Bytes
  total : Int
  phash : Bytes
  deriving Repr, DecidableEq

/-- `WriteVarint` for any int that fits 64 bits -/
def wireVarint (i : Int) : Bytes :=
  if i < 0 then
    UInt8.ofNat (uvarintSize i.natAbs + 0xF0) :: beBytes (uvarintSize i.natAbs) i.natAbs
  else wireVarintNat i.toNat

/-- `BlockID.Key()`: as found `Hash ++ wire(PartsHeader)`; repaired `wire(Hash) ++ wire(PartsHeader)` -/
def BlockID.key (cfg : Cfg) (b : BlockID) : Bytes :=
  (if cfg.keyLenPrefixed then wireByteSlice b.hash else b.hash)
    ++ wireVarint b.total ++ wireByteSlice b.phash

structure Vote where
  idx : Int
  addr : Bytes
  height : Int
  round : Int
  type : Nat
  bid : BlockID
  sig : Nat
  deriving Repr, DecidableEq

structure Validator where
  addr : Bytes
  power : Int
  deriving Repr, DecidableEq

structure BlockVotes where
  peerMaj23 : Bool
  votes : List (Option Vote)
  sum : Int
  deriving Repr, DecidableEq

structure VoteSet where
  height : Int
  round : Int
  type : Nat
  vals : List Validator
  votes : List (Option Vote)
  sum : Int
  maj23 : Option BlockID
  byBlock : List (Bytes × BlockVotes)    -- the Go map, keyed by `BlockID.Key()`
  peerMaj : List (String × BlockID)
  deriving Repr, DecidableEq

def total (vals : List Validator) : Int := (vals.map (·.power)).sum

/-- `valSet.TotalVotingPower()*2/3 + 1` -/
def quorum (t : Int) : Int := t * 2 / 3 + 1

def new (height round : Int) (type : Nat) (vals : List Validator) : VoteSet :=
  { height, round, type, vals, votes := List.replicate vals.length none, sum := 0, maj23 := none,
    byBlock := [], peerMaj := [] }

def lookup (m : List (Bytes × BlockVotes)) (k : Bytes) : Option BlockVotes :=
  match m with
  | [] => none
  | (k', v) :: t => if k' = k then some v else lookup t k

def insert (m : List (Bytes × BlockVotes)) (k : Bytes) (v : BlockVotes) : List (Bytes × BlockVotes) :=
  match m with
  | [] => [(k, v)]
  | (k', v') :: t => if k' = k then (k, v) :: t else (k', v') :: insert t k v

inductive Out where
  | added | dup | errStep | errIndex | errAddr | errSig
  | conflict (added : Bool)
  | panic
  deriving Repr, DecidableEq

/-- `blockVotes.addVerifiedVote` -/
def BlockVotes.add (bv : BlockVotes) (i : Nat) (v : Vote) (power : Int) : BlockVotes :=
  match bv.votes[i]? with
  | some none => { bv with votes := bv.votes.set i (some v), sum := bv.sum + power }
  | _ => bv

/-- copy every vote of `src` over `dst` (the loop after a quorum is reached) -/
def overlay : List (Option Vote) → List (Option Vote) → List (Option Vote)
  | d :: ds, s :: ss => (match s with | some v => some v | none => d) :: overlay ds ss
  | ds, _ => ds

/-- first half of `VoteSet.addVerifiedVote`: the primary slot. `none` = PanicSanity (duplicate);
    otherwise the updated set and the conflicting earlier vote, if any. -/
def primary (cfg : Cfg) (vs : VoteSet) (v : Vote) (i : Nat) (key : Bytes) (power : Int) :
    Option (VoteSet × Option Vote) :=
  match (vs.votes[i]?).join with
  | some e =>
    if e.bid = v.bid then none
    else if vs.maj23.map (BlockID.key cfg) = some key then
      some ({ vs with votes := vs.votes.set i (some v) }, some e)
    else some (vs, some e)
  | none => some ({ vs with votes := vs.votes.set i (some v), sum := vs.sum + power }, none)

/-- which per-block tally the vote goes to; `none` = conflicting and not tracked -/
def selectEntry (vs : VoteSet) (key : Bytes) (conflicting : Bool) : Option BlockVotes :=
  match lookup vs.byBlock key with
  | some bv => if conflicting && !bv.peerMaj23 then none else some bv
  | none =>
    if conflicting then none
    else some { peerMaj23 := false, votes := List.replicate vs.vals.length none, sum := 0 }

/-- second half: add to the tally, detect the quorum crossing, copy the block's votes over -/
def applyTally (vs : VoteSet) (key : Bytes) (bv : BlockVotes) (i : Nat) (v : Vote) (power : Int) :
    VoteSet :=
  if bv.sum < quorum (total vs.vals) ∧ quorum (total vs.vals) ≤ (bv.add i v power).sum ∧
      vs.maj23 = none then
    { vs with byBlock := insert vs.byBlock key (bv.add i v power), maj23 := some v.bid,
              votes := overlay vs.votes (bv.add i v power).votes }
  else { vs with byBlock := insert vs.byBlock key (bv.add i v power) }

/-- `VoteSet.addVerifiedVote` (the vote has passed every check; `i` is its in-range index) -/
def addVerified (cfg : Cfg) (vs : VoteSet) (v : Vote) (i : Nat) (key : Bytes) (power : Int) :
    VoteSet × Out :=
  match primary cfg vs v i key power with
  | none => (vs, .panic)
  | some (vs1, conflicting) =>
    match selectEntry vs1 key conflicting.isSome with
    | none => (vs1, .conflict false)
    | some bv =>
      (applyTally vs1 key bv i v power, if conflicting.isSome then .conflict true else .added)

/-- `VoteSet.getVote` -/
def getVote (cfg : Cfg) (vs : VoteSet) (i : Nat) (key : Bytes) : Option Vote :=
  match (vs.votes[i]?).join with
  | some e => if e.bid.key cfg = key then some e else
      ((lookup vs.byBlock key).bind (fun bv => (bv.votes[i]?).join))
  | none => (lookup vs.byBlock key).bind (fun bv => (bv.votes[i]?).join)

/-- `VoteSet.addVote`, guard order as in the code. `sigok` is the signature oracle. -/
def addVote (cfg : Cfg) (vs : VoteSet) (v : Vote) (sigok : Bool) : VoteSet × Out :=
  let key := v.bid.key cfg
  if !cfg.idxCheck ∧ (v.idx < 0 ∨ v.addr.isEmpty) then (vs, .panic)
  else if v.idx < 0 then (vs, .errIndex)
  else if v.addr.isEmpty then (vs, .errAddr)
  else if v.height ≠ vs.height ∨ v.round ≠ vs.round ∨ v.type ≠ vs.type then (vs, .errStep)
  else
    match vs.vals[v.idx.toNat]? with
    | none => (vs, if cfg.idxCheck then .errIndex else .panic)   -- `Validators[index]` out of range
    | some val =>
      if val.addr ≠ v.addr then (vs, .errAddr)
      else
        match getVote cfg vs v.idx.toNat key with
        | some e => (vs, if e.sig = v.sig then .dup else .errSig)
        | none =>
          if !sigok then (vs, .errSig)
          else addVerified cfg vs v v.idx.toNat key val.power

/-- `VoteSet.SetPeerMaj23` -/
def setPeerMaj23 (cfg : Cfg) (vs : VoteSet) (peer : String) (b : BlockID) : VoteSet :=
  if (vs.peerMaj.find? (·.1 = peer)).isSome then vs
  else
    let vs1 := { vs with peerMaj := vs.peerMaj ++ [(peer, b)] }
    let key := b.key cfg
    match lookup vs1.byBlock key with
    | some bv => if bv.peerMaj23 then vs1 else
        let bv' : BlockVotes := { bv with peerMaj23 := true }
        { vs1 with byBlock := insert vs1.byBlock key bv' }
    | none =>
      let bv' : BlockVotes := { peerMaj23 := true, votes := List.replicate vs.vals.length none, sum := 0 }
      { vs1 with byBlock := insert vs1.byBlock key bv' }

def hasTwoThirdsAny (vs : VoteSet) : Bool := vs.sum > total vs.vals * 2 / 3
def hasAll (vs : VoteSet) : Bool := vs.sum == total vs.vals

/-! ### commits -/

structure Commit where
  bid : BlockID
  precommits : List (Option Vote)
  deriving Repr, DecidableEq

def makeCommit (vs : VoteSet) : Option Commit :=
  vs.maj23.map fun b => { bid := b, precommits := vs.votes }

def firstPrecommit : List (Option Vote) → Option Vote
  | [] => none
  | some v :: _ => some v
  | none :: t => firstPrecommit t

inductive VErr where
  | ok | size | height | pheight | pround | ptype | sig | slot | power | panic
  deriving Repr, DecidableEq

/-- the loop of `VerifyCommit`: returns the tallied power or the first error -/
def tallyCommit (slot : Bool) (sigok : Nat → Vote → Bool) (b : BlockID) (height round : Int) :
    Nat → List Validator → List (Option Vote) → Int → Except VErr Int
  | i, val :: vals, some p :: ps, acc =>
    if p.height ≠ height then .error .pheight
    else if p.round ≠ round then .error .pround
    else if p.type ≠ 2 then .error .ptype
    else if !sigok i p then .error .sig
    else if slot ∧ (p.idx ≠ (i : Int) ∨ p.addr ≠ val.addr) then .error .slot
    else if b = p.bid then tallyCommit slot sigok b height round (i + 1) vals ps (acc + val.power)
    else tallyCommit slot sigok b height round (i + 1) vals ps acc
  | i, _ :: vals, none :: ps, acc => tallyCommit slot sigok b height round (i + 1) vals ps acc
  | _, _, _, acc => .ok acc

/-- `ValidatorSet.VerifyCommit(chainID, blockID, height, commit)`. A commit whose precommits are all
    nil makes `commit.Height()` dereference a nil `FirstPrecommit()`: `.panic`.
    `sigok i v` = the signature of `v` verifies under the key of the validator at POSITION `i`. -/
def verifyCommit (cfg : Cfg) (sigok : Nat → Vote → Bool) (vals : List Validator) (b : BlockID)
    (height : Int) (c : Commit) : VErr :=
  if vals.length ≠ c.precommits.length then .size
  else
    match c.precommits, firstPrecommit c.precommits with
    | [], _ => if height ≠ 0 then .height else
        (if 0 > total vals * 2 / 3 then .ok else .power)
    | _ :: _, none =>
      if !cfg.nilCommit then .panic
      else if height ≠ 0 then .height
      else (if 0 > total vals * 2 / 3 then .ok else .power)
    | _ :: _, some f =>
      if height ≠ f.height then .height
      else match tallyCommit cfg.slotCheck sigok b height f.round 0 vals c.precommits 0 with
        | .error e => e
        | .ok t => if t > total vals * 2 / 3 then .ok else .power

end AnnVerif.VoteSet
