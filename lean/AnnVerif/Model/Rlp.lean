/-
  Model of eth/rlp (encode.go / decode.go) for the generic item tree
  (`[]byte` and `[]interface{}`), i.e. what `rlp.EncodeToBytes` / `rlp.DecodeBytes(b, &interface{})`
  compute, including every canonical-form rejection of the decoder.
-/
import AnnVerif.Model.Basic
namespace AnnVerif.Rlp

inductive Item where
  | str (b : Bytes)
  | list (l : List Item)
  deriving Repr

/-- minimal big-endian bytes of a positive number (`putint`) -/
def beMin : Nat → Nat → Bytes
  | 0, _ => []
  | fuel + 1, n => if n = 0 then [] else beMin fuel (n / 256) ++ [UInt8.ofNat (n % 256)]

def beMinBytes (n : Nat) : Bytes := beMin 9 n   -- lengths are < 2^64: at most 8 bytes

/-- header for a payload of `len` bytes: `small + len`, or `large + |be len|` then `be len` -/
def header (small large : Nat) (len : Nat) : Bytes :=
  if len < 56 then [UInt8.ofNat (small + len)]
  else let lb := beMinBytes len; UInt8.ofNat (large + lb.length) :: lb

/-- a single byte below 0x80 is its own encoding -/
def encodeStr (b : Bytes) : Bytes :=
  match b with
  | [x] => if x.toNat < 0x80 then [x] else header 0x80 0xB7 1 ++ [x]
  | _ => header 0x80 0xB7 b.length ++ b

mutual
def encode : Item → Bytes
  | .str b => encodeStr b
  | .list l => header 0xC0 0xF7 (encodeList l).length ++ encodeList l
def encodeList : List Item → Bytes
  | [] => []
  | x :: t => encode x ++ encodeList t
end

inductive Err where
  | eof          -- io.ErrUnexpectedEOF / value larger than the remaining input
  | canon        -- ErrCanonSize (non-canonical size information)
  | elemTooLarge -- element larger than its containing list
  | trailing     -- ErrMoreThanOneValue (only at top level)
  deriving Repr, DecidableEq

def beVal : Bytes → Nat
  | [] => 0
  | bs => bs.foldl (fun acc b => acc * 256 + b.toNat) 0

/-- `readUint(size)`: `size` big-endian bytes, no leading zero (for size ≥ 2) -/
def readUint (size : Nat) (inp : Bytes) (tooLarge : Err) : Except Err (Nat × Bytes) :=
  if size = 0 then .ok (0, inp)
  else if inp.length < size then .error tooLarge
  else
    let bs := inp.take size
    if size ≥ 2 ∧ bs.head? = some 0 then .error .canon
    else .ok (beVal bs, inp.drop size)

inductive Kind where | byte (b : UInt8) | str (size : Nat) | list (size : Nat)

/-- `readKind` on the remaining input: the kind, its payload size and the rest -/
def readKind (inp : Bytes) (tooLarge : Err) : Except Err (Kind × Bytes) :=
  match inp with
  | [] => .error .eof
  | b :: rest =>
    let v := b.toNat
    if v < 0x80 then .ok (.byte b, rest)
    else if v < 0xB8 then .ok (.str (v - 0x80), rest)
    else if v < 0xC0 then
      match readUint (v - 0xB7) rest tooLarge with
      | .error e => .error e
      | .ok (sz, r) => if sz < 56 then .error .canon else .ok (.str sz, r)
    else if v < 0xF8 then .ok (.list (v - 0xC0), rest)
    else
      match readUint (v - 0xF7) rest tooLarge with
      | .error e => .error e
      | .ok (sz, r) => if sz < 56 then .error .canon else .ok (.list sz, r)

mutual
/-- decode one item from `inp` (which is exactly the bytes still available in the enclosing
    list / input); `tooLarge` is the error for a payload that does not fit -/
def decodeOne : Nat → Bytes → Err → Except Err (Item × Bytes)
  | 0, _, _ => .error .eof
  | fuel + 1, inp, tooLarge =>
    match readKind inp tooLarge with
    | .error e => .error e
    | .ok (.byte b, rest) => .ok (.str [b], rest)
    | .ok (.str sz, rest) =>
      if rest.length < sz then .error tooLarge
      else
        let b := rest.take sz
        if sz == 1 && (match b.head? with | some x => decide (x.toNat < 0x80) | none => false) then .error .canon
        else .ok (.str b, rest.drop sz)
    | .ok (.list sz, rest) =>
      if rest.length < sz then .error tooLarge
      else
        match decodeItems fuel (rest.take sz) with
        | .error e => .error e
        | .ok items => .ok (.list items, rest.drop sz)
/-- decode a list payload completely -/
def decodeItems : Nat → Bytes → Except Err (List Item)
  | 0, [] => .ok []
  | 0, _ => .error .eof
  | _ + 1, [] => .ok []
  | fuel + 1, inp =>
    match decodeOne fuel inp .elemTooLarge with
    | .error e => .error e
    | .ok (x, rest) =>
      match decodeItems fuel rest with
      | .error e => .error e
      | .ok xs => .ok (x :: xs)
end

/-- `rlp.DecodeBytes(b, &v)` for `v interface{}` -/
def decode (inp : Bytes) : Except Err Item :=
  match decodeOne (2 * inp.length + 2) inp .eof with
  | .error e => .error e
  | .ok (x, []) => .ok x
  | .ok (_, _ :: _) => .error .trailing

end AnnVerif.Rlp
