/-
  Model of the write-ahead log of the consensus state (wal.go, replay.go, receiveRoutine) and of
  the marker search of the file group behind it (go-autofile/group.go Search):
  every input (peer or own message, fired timeout) is appended to the log BEFORE it is handled;
  a `#HEIGHT: h` marker starts a height's records; the group rotates its head file when it grows
  too large, so the files of the group hold the markers `marks` (file index, height);
  `catchupReplay` searches the marker of the current height and folds the handler over the records
  after it, starting from the state rebuilt from the persisted chain state; a crash keeps a
  prefix of the records plus possibly a fragment of the next one.
-/
import AnnVerif.Model.Node
namespace AnnVerif.Wal
open AnnVerif.Node

/-- a WAL record -/
inductive Rec where
  | msg (m : Msg) (peer : String)
  | timeout (h r : Int) (s : Step)

def applyRec (n : Node) : Rec → Node
  | .msg m peer => handleMsg n m peer
  | .timeout h r s => handleTimeout n h r s

/-! ### `Group.Search("#HEIGHT: ", h)` -/

/-- a `#HEIGHT: h` line: the file of the group it is in, and how many records of that height's
    log had been written before it (0 for the marker that opens the height) -/
structure Mark where
  file : Nat
  height : Int
  pos : Nat
  deriving Repr, DecidableEq

/-- the markers of the group in writing order -/
abbrev Marks := List Mark

inductive SearchRes where
  | found (m : Mark) | notFound | eof
  deriving Repr, DecidableEq

def SearchRes.isFound : SearchRes → Bool
  | .found _ => true
  | _ => false

/-- `scanNext` on a reader opened at file `i`: the first marker in file `i` or later -/
def scanNext (marks : Marks) (i : Nat) : Option Mark := marks.find? (fun p => i ≤ p.file)

/-- `scanUntil`: walk the markers until one is not below `h` -/
def scanUntil : List Mark → Int → SearchRes
  | [], _ => .eof
  | m :: t, h => if m.height < h then scanUntil t h else if m.height = h then .found m else .notFound

/-- the binary search over file indices `[mn, mx]`. `fixed` = an EOF while probing a file (no
    marker from there to the end of the group) means "look in the earlier files" (repaired);
    as found the search ends there with EOF. -/
def searchLoop (fixed : Bool) (marks : Marks) (h : Int) : Nat → Nat → Nat → SearchRes
  | 0, _, _ => .eof
  | fuel + 1, mn, mx =>
    if mn = mx then scanUntil (marks.filter (fun p => mx ≤ p.file)) h
    else
      let cur := (mn + mx + 1) / 2
      match scanNext marks cur with
      | none => if fixed then searchLoop fixed marks h fuel mn (cur - 1) else .eof
      | some m =>
        if m.height < h then searchLoop fixed marks h fuel m.file mx
        else if m.height = h then scanUntil (marks.filter (fun p => m.file ≤ p.file)) h
        else searchLoop fixed marks h fuel mn (cur - 1)

/-- `Group.Search` over a group of `nFiles` files (indices `0 .. nFiles-1`, the head last) -/
def search (fixed : Bool) (marks : Marks) (nFiles : Nat) (h : Int) : SearchRes :=
  searchLoop fixed marks h (nFiles + 1) 0 (nFiles - 1)

/-! ### the log -/

/-- the node together with what is on disk for the current height -/
structure Logged where
  keepsProposer : Bool := true   -- repaired: LoadState restores the cached proposer
  tornOk : Bool := true          -- repaired: a record cut short is terminated on the next start
  rotationOk : Bool := true      -- repaired: the marker search also looks into earlier files
  startMarkerOk : Bool := true   -- repaired: WAL.OnStart writes `#HEIGHT: 1` only into an empty GROUP
  n : Node
  snap : Node          -- the state a restart rebuilds from the persisted chain state
  log : List Rec       -- records after the marker that opened the height
  marks : Marks := [⟨0, 1, 0⟩]   -- `OnStart` of an empty WAL writes `#HEIGHT: 1`
  nFiles : Nat := 1
  headEmpty : Bool := false      -- nothing was written since the last rotation
  tornAt : Option Nat := none  -- as found: position of an unterminated fragment; the record
                               -- written next is glued to it and replay stops there for good

/-- the state at the very beginning of the height `n'` has just entered -/
def heightStart (n' : Node) : Node :=
  let s0 : Node := { n' with round := 0, step := .newHeight, proposal := none, proposalBlock := none,
                             proposalParts := none, partsComplete := false, lockedRound := 0,
                             lockedBlock := none, hvsRound := 0, catchup := [], commitRound := -1,
                             vals := n'.vals0, queue := [], out := [] }
  { s0 with rounds := [newRoundVotes s0 s0.height 0] }

/-- entering height `h` writes its marker into the head file and starts an empty log -/
def openHeight (d : Logged) (n' : Node) : Logged :=
  { d with n := n', snap := heightStart n', log := [], tornAt := none, headEmpty := false,
           marks := d.marks ++ [⟨d.nFiles - 1, n'.height, 0⟩] }

/-- one iteration of receiveRoutine: log, then handle -/
def handle (d : Logged) (r : Rec) : Logged :=
  let n' := applyRec d.n r
  if n'.height > d.n.height then openHeight d n'
  else { d with n := n', log := d.log ++ [r], headEmpty := false }

/-- killed between the WAL write of an input and its handling -/
def saveOnly (d : Logged) (r : Rec) : Logged := { d with log := d.log ++ [r], headEmpty := false }

/-- the group's ticker moves the head file away and opens a new one (only a head that has grown) -/
def rotate (d : Logged) : Logged :=
  if d.headEmpty then d else { d with nFiles := d.nFiles + 1, headEmpty := true }

/-- `catchupReplay`: fold the handler over the records, from the rebuilt state; the signer reloads
    its file, the internal queue is gone, the validator set comes back from the state DB -/
def replay (d : Logged) (records : List Rec) : Node :=
  let vs := if d.snap.height > 1 then ValSet.reloadState d.keepsProposer d.snap.vals0 else d.snap.vals0
  let base : Node := { d.snap with signer := Signer.restart d.n.signer, validTab := d.n.validTab,
                                   fresh := d.n.fresh, out := [], queue := [], vals := vs, vals0 := vs }
  records.foldl applyRec base

/-- what is on disk after the kill (`torn`: the last record was cut short) -/
def diskLog (d : Logged) (torn : Bool) : List Rec := if torn then d.log.dropLast else d.log

def nextTornAt (d : Logged) (torn : Bool) : Option Nat :=
  if torn ∧ !d.tornOk ∧ d.tornAt.isNone ∧ !d.log.isEmpty then some (diskLog d torn).length else d.tornAt

/-- start-up before the replay. `WAL.OnStart`: an empty HEAD gets `#HEIGHT: 1` (as found; repaired
    only an empty group). `ConsensusState.OnStart`: if the search does not find the marker of the
    current height, a new marker for it is written — behind every record already there. -/
def startMarkers (d : Logged) (torn : Bool) : Marks :=
  let at_ := (diskLog d torn).length
  let m1 := if d.headEmpty ∧ !d.startMarkerOk then d.marks ++ [⟨d.nFiles - 1, 1, at_⟩] else d.marks
  if (search d.rotationOk m1 d.nFiles d.snap.height).isFound then m1
  else m1 ++ [⟨d.nFiles - 1, d.snap.height, at_⟩]

/-- the records `catchupReplay` gets to see: those behind the marker the search finds (an EOF from
    the search is taken for "nothing to replay") -/
def replayed (d : Logged) (torn : Bool) : List Rec :=
  match search d.rotationOk (startMarkers d torn) d.nFiles d.snap.height with
  | .found m =>
    (match nextTornAt d torn with
     | some k => (diskLog d torn).take k
     | none => diskLog d torn).drop m.pos
  | _ => []

/-- kill + restart. A replay that completes the height opens the next one. -/
def restart (d : Logged) (torn : Bool) : Logged :=
  let n := replay d (replayed d torn)
  let marks := startMarkers d torn
  let written := marks.length ≠ d.marks.length
  let d1 : Logged := { d with log := diskLog d torn, tornAt := nextTornAt d torn, marks := marks,
                              headEmpty := d.headEmpty && !written }
  let n1 := emit n (.timeout n.height 0 .newHeight)
  if n.height > d.snap.height then openHeight d1 n1 else { d1 with n := n1 }

end AnnVerif.Wal
