/-
  Model of the write-ahead log of the consensus state (wal.go, replay.go, receiveRoutine):
  every input (peer or own message, fired timeout) is appended to the log BEFORE it is handled;
  a height marker starts a new segment; `catchupReplay` folds the handler over the records of the
  current height, starting from the state rebuilt from the persisted chain state; a crash keeps a
  prefix of the records plus possibly a fragment of the next one.
-/
import AnnVerif.Model.Node
namespace AnnVerif.Wal
open AnnVerif.Node

/-- a WAL record -/
inductive Rec where
  | msg (m : Msg) (peer : String)
  | timeout (h r : Int) (s : Step)

def applyRec (n : Node) : Rec → Node
  | .msg m peer => handleMsg n m peer
  | .timeout h r s => handleTimeout n h r s

/-- the node together with what is on disk for the current height -/
structure Logged where
  keepsProposer : Bool := true   -- repaired: LoadState restores the cached proposer
  tornOk : Bool := true          -- repaired: a record cut short is terminated on the next start
  n : Node
  snap : Node          -- the state a restart rebuilds from the persisted chain state
  log : List Rec       -- records after the height marker
  tornAt : Option Nat := none  -- as found: position of an unterminated fragment; the record
                               -- written next is glued to it and replay stops there for good

/-- the state at the very beginning of the height `n'` has just entered -/
def heightStart (n' : Node) : Node :=
  let s0 : Node := { n' with round := 0, step := .newHeight, proposal := none, proposalBlock := none,
                             proposalParts := none, partsComplete := false, lockedRound := 0,
                             lockedBlock := none, hvsRound := 0, catchup := [], commitRound := -1,
                             vals := n'.vals0, queue := [], out := [] }
  { s0 with rounds := [newRoundVotes s0 s0.height 0] }

/-- one iteration of receiveRoutine: log, then handle -/
def handle (d : Logged) (r : Rec) : Logged :=
  let n' := applyRec d.n r
  if n'.height > d.n.height then { d with n := n', snap := heightStart n', log := [], tornAt := none }
  else { d with n := n', log := d.log ++ [r] }

/-- killed between the WAL write of an input and its handling -/
def saveOnly (d : Logged) (r : Rec) : Logged := { d with log := d.log ++ [r] }

/-- `catchupReplay`: fold the handler over the records, from the rebuilt state; the signer reloads
    its file, the internal queue is gone, the validator set comes back from the state DB -/
def replay (d : Logged) (records : List Rec) : Node :=
  let vs := if d.snap.height > 1 then ValSet.reloadState d.keepsProposer d.snap.vals0 else d.snap.vals0
  let base : Node := { d.snap with signer := Signer.restart d.n.signer, validTab := d.n.validTab,
                                   fresh := d.n.fresh, out := [], queue := [], vals := vs, vals0 := vs }
  records.foldl applyRec base

/-- what is on disk after the kill (`torn`: the last record was cut short) -/
def diskLog (d : Logged) (torn : Bool) : List Rec := if torn then d.log.dropLast else d.log

def nextTornAt (d : Logged) (torn : Bool) : Option Nat :=
  if torn ∧ !d.tornOk ∧ d.tornAt.isNone ∧ !d.log.isEmpty then some (diskLog d torn).length else d.tornAt

/-- the records `catchupReplay` gets to see -/
def replayed (d : Logged) (torn : Bool) : List Rec :=
  match nextTornAt d torn with
  | some k => (diskLog d torn).take k
  | none => diskLog d torn

/-- kill + restart -/
def restart (d : Logged) (torn : Bool) : Logged :=
  let n := replay d (replayed d torn)
  { d with n := emit n (.timeout n.height 0 .newHeight), log := diskLog d torn, tornAt := nextTornAt d torn }

end AnnVerif.Wal
