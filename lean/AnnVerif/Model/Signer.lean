/-
  Model of gemmill/types/priv_validator.go (signBytesHRS, save, reload) and of
  go-common.WriteFileAtomic as far as the signer file is concerned: the file holds the OLD record
  until `os.Rename` and the NEW record after it; every failure of the three writes leaves the old
  record. `Sign(bytes)` is deterministic, so a signature is identified with the bytes it signs.
-/
import AnnVerif.Model.Basic
namespace AnnVerif.Signer

/-- `checkSaveErr` = signBytesHRS returns the error of `save()` (and restores the in-memory
    watermark) instead of releasing the signature (repaired) -/
structure Cfg where
  checkSaveErr : Bool
  deriving Repr, DecidableEq

def repaired : Cfg := ⟨true⟩
def asFound : Cfg := ⟨false⟩

/-- LastHeight / LastRound / LastStep / LastSignBytes (LastSignature = Sign(LastSignBytes)) -/
structure Rec where
  h : Int
  r : Int
  s : Int
  bytes : Option Bytes
  deriving Repr, DecidableEq

structure St where
  mem : Rec
  disk : Rec
  deriving Repr, DecidableEq

def init : St := ⟨⟨0, 0, 0, none⟩, ⟨0, 0, 0, none⟩⟩

inductive Verdict where
  | fresh            -- not signed before at this height/round/step: sign
  | cached           -- same height/round/step, same bytes: hand out LastSignature again
  | regression       -- anything else
  deriving Repr, DecidableEq

/-- the comparison chain of `signBytesHRS` -/
def verdict (m : Rec) (h r s : Int) (b : Bytes) : Verdict :=
  if m.h > h then .regression
  else if m.h = h then
    if m.r > r then .regression
    else if m.r = r then
      if m.s > s then .regression
      else if m.s = s then
        (match m.bytes with
         | some lb => if lb = b then .cached else .regression
         | none => .regression)
      else .fresh
    else .fresh
  else .fresh

/-- what the outside world gets from one signing request -/
inductive Out where
  | released (h r s : Int) (b : Bytes)   -- a signature over `b` left the signer
  | error                                -- an error was returned, nothing released
  | died                                 -- the process was killed inside the request
  deriving Repr, DecidableEq

def Out.isReleased : Out → Bool
  | .released .. => true
  | _ => false

/-- how the durable write of this request goes -/
inductive Write where
  | ok              -- all three writes succeed
  | fail            -- one of them returns an error: the file keeps the old record
  | crashBefore     -- the process dies before `rename`: old record on disk
  | crashAfter      -- the process dies after `rename`, before the signature is returned
  deriving Repr, DecidableEq

def sign (cfg : Cfg) (st : St) (h r s : Int) (b : Bytes) (w : Write) : St × Out :=
  match verdict st.mem h r s b with
  | .regression => (st, .error)
  | .cached => (st, .released h r s b)
  | .fresh =>
    let new : Rec := ⟨h, r, s, some b⟩
    match w with
    | .ok => (⟨new, new⟩, .released h r s b)
    | .fail =>
      if cfg.checkSaveErr then (st, .error)            -- memory restored, nothing released
      else (⟨new, st.disk⟩, .released h r s b)         -- as found: error dropped
    | .crashBefore => (⟨st.disk, st.disk⟩, .died)      -- restart: memory := file
    | .crashAfter => (⟨new, new⟩, .died)

/-- kill and restart between requests: `LoadPrivValidator` -/
def restart (st : St) : St := ⟨st.disk, st.disk⟩

inductive Op where
  | sign (h r s : Int) (b : Bytes) (w : Write)
  | restart
  deriving Repr, DecidableEq

def step (cfg : Cfg) (st : St) : Op → St × Option Out
  | .sign h r s b w => let (st', o) := sign cfg st h r s b w; (st', some o)
  | .restart => (restart st, none)

/-- run a request sequence, collecting everything that was released -/
def run (cfg : Cfg) : St → List Op → St × List (Int × Int × Int × Bytes)
  | st, [] => (st, [])
  | st, op :: t =>
    let (st', o) := step cfg st op
    let (stf, rel) := run cfg st' t
    (stf, (match o with | some (.released h r s b) => [(h, r, s, b)] | _ => []) ++ rel)

end AnnVerif.Signer
