/-
  Helpers shared by the line-protocol drivers (core only).
-/
import AnnVerif.Model.Basic
namespace AnnVerif.Drv

def words (s : String) : List String :=
  (s.splitOn " ").filter (fun w => !w.isEmpty)

def parseInt (s : String) : Option Int := s.toInt?
def parseNat (s : String) : Option Nat := s.toNat?

def hexList (ws : List String) : Option (List Bytes) := ws.mapM Hex.decode

def showBool (b : Bool) : String := if b then "1" else "0"

/-- `key=value` lookup in a word list -/
def kv (ws : List String) (k : String) : Option String :=
  ws.findSome? fun w =>
    match w.splitOn "=" with
    | [a, b] => if a == k then some b else none
    | _ => none

/-- run a pure line-stepper over stdin: `step : σ → String → σ × String`. Empty output = no line. -/
partial def loop {σ : Type} (h : IO.FS.Stream) (out : IO.FS.Stream) (step : σ → String → σ × String)
    (s : σ) : IO Unit := do
  let line ← h.getLine
  if line.isEmpty then
    out.flush
    return ()
  let l := (line.dropEndWhile (fun c => c == '\n' || c == '\r')).toString
  let (s', o) := step s l
  out.putStrLn o
  loop h out step s'

def run {σ : Type} (step : σ → String → σ × String) (init : σ) : IO Unit := do
  let i ← IO.getStdin
  let o ← IO.getStdout
  loop i o step init

end AnnVerif.Drv
