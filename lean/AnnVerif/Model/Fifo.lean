/-
  Model of the FIFO mempool (gemmill/mempool/mempool.go): a list of transactions in arrival order
  and a cache of transactions already seen. A transaction is an opaque id (its bytes).
  The cache is modelled without its capacity (100000 entries; eviction of the oldest entry is not
  reached by any run of the harness and is named in the manifest).
-/
import AnnVerif.Model.Basic
namespace AnnVerif.Fifo

structure Cfg where
  /-- a committed transaction stays in the cache of seen transactions (repaired); and one the node never saw is entered (repaired); as found
      `Update` removed it, so the same bytes were accepted — and offered — again -/
  cacheKeepsCommitted : Bool := true
  deriving Repr, DecidableEq

structure Mem where
  txs : List Nat := []
  cache : List Nat := []
  deriving Repr, DecidableEq

/-- `ReceiveTx` -/
def receive (m : Mem) (t : Nat) : Mem × Bool :=
  if m.cache.contains t then (m, false) else ({ txs := m.txs ++ [t], cache := m.cache ++ [t] }, true)

/-- `Reap(max)`: the first `max` transactions (all of them for a negative limit) -/
def reap (m : Mem) (max : Option Nat) : List Nat :=
  match max with
  | none => m.txs
  | some k => m.txs.take k

/-- `Update`: the block's transactions leave the list -/
def update (cfg : Cfg) (m : Mem) (block : List Nat) : Mem :=
  { txs := m.txs.filter (fun t => !block.contains t),
    cache := if cfg.cacheKeepsCommitted then m.cache ++ (block.eraseDups.filter (fun t => !m.cache.contains t))
             else m.cache.filter (fun t => !(m.txs.contains t && block.contains t)) }

def flush (_ : Mem) : Mem := {}

end AnnVerif.Fifo
