/-
  Model of eth/trie/proof.go: `Trie.Prove` (the encodings of the nodes on the key's path that are
  stored by hash, the root always) and `VerifyProof` (look the wanted hash up in the proof, decode
  the node, follow the key through the nodes embedded in it until a value, a gap or the next hash).
  The verifier works on decoded RLP items, as `decodeNode` does, not on the prover's tree.
-/
import AnnVerif.Model.Trie
namespace AnnVerif.Trie

section
variable (H : Bytes → Bytes)

/-- a short or branch node whose reference in its parent is a hash (its RLP has 32 bytes or more) -/
def hashed (n : Node) : Bool :=
  match n with
  | .short _ _ => !decide ((Rlp.encode (enc H n)).length < 32)
  | .full _ => !decide ((Rlp.encode (enc H n)).length < 32)
  | _ => false

/-- the proof element of a node on the path: its encoding, if it is stored by hash -/
def here (c : Node) : List Bytes := if hashed H c then [Rlp.encode (enc H c)] else []

/-- proof elements of the nodes strictly below `n` on the path of `k` -/
def proveBelow : Nat → Node → Key → List Bytes
  | 0, _, _ => []
  | f + 1, .short key c, k =>
    if k.length < key.length ∨ k.take key.length ≠ key then []
    else here H c ++ proveBelow f c (k.drop key.length)
  | f + 1, .full cs, i :: r => here H (cs.get i) ++ proveBelow f (cs.get i) r
  | _, _, _ => []

/-- `Trie.Prove(key, 0, db)`: the root node always, then the hashed nodes on the path -/
def prove (t : Node) (k : Key) : List Bytes :=
  match t with
  | .empty => []
  | t => Rlp.encode (enc H t) :: proveBelow H (k.length + 1) t k

mutual
  /-- the encodings of all nodes strictly below `n` that are stored by hash -/
  def allBelow : Node → List Bytes
    | .short _ c => here H c ++ allBelow c
    | .full cs => allBelowC cs
    | _ => []
  def allBelowC : Children → List Bytes
    | .nil => []
    | .cons n r => here H n ++ allBelow n ++ allBelowC r
end

/-- what `Commit` writes: the root node and every node stored by hash -/
def commitNodes (t : Node) : List Bytes :=
  match t with
  | .empty => []
  | t => Rlp.encode (enc H t) :: allBelow H t

inductive Walk where
  | absent
  | found (v : Bytes)
  | next (h : Bytes) (rest : Key)
  | bad
  deriving Repr

/-- a child reference inside a decoded node (`decodeRef`), followed with the rest of the key -/
def walkRef (walk : Rlp.Item → Key → Walk) (child : Rlp.Item) (rest : Key) : Walk :=
  match child with
  | .str [] => .absent
  | .str h => if h.length = 32 then .next h rest else .bad
  | .list _ => walk child rest

/-- `get(n, key)` of proof.go on a decoded node: 17 items are a branch node, 2 a short node -/
def walk : Nat → Rlp.Item → Key → Walk
  | 0, _, _ => .bad
  | f + 1, .list l, k =>
    if l.length = 17 then
      match k with
      | [] => .bad
      | i :: r =>
        if i = 16 then
          match l.getD 16 (.str []) with
          | .str v => if v.isEmpty then .absent else .found v
          | _ => .bad
        else walkRef (fun it r => walk f it r) (l.getD i (.str [])) r
    else
      match l with
      | [.str c, child] =>
        let key := compactToHex c
        if k.length < key.length ∨ k.take key.length ≠ key then .absent
        else if hasTerm key then
          match child with
          | .str v => .found v
          | _ => .bad
        else walkRef (fun it r => walk f it r) child (k.drop key.length)
      | _ => .bad
  | _, .str _, _ => .bad

/-- `VerifyProof(root, key, proof)`: `none` = error (missing or bad node), `some none` = the proof
    shows the key is absent, `some (some v)` = the proven value -/
def verify (proof : List Bytes) : Nat → Bytes → Key → Option (Option Bytes)
  | 0, _, _ => none
  | f + 1, want, k =>
    match proof.find? (fun e => H e == want) with
    | none => none
    | some buf =>
      match Rlp.decode buf with
      | .error _ => none
      | .ok it =>
        match walk (k.length + 1) it k with
        | .absent => some none
        | .found v => some (some v)
        | .next h rest => verify proof f h rest
        | .bad => none

end

end AnnVerif.Trie
