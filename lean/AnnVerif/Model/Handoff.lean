/-
  Model of how a block response is handed to its requester (gemmill/blockchain/pool.go AddBlock ->
  bpRequester.setBlock -> gotBlockCh, requestRoutine, sendRequest) and of the two other parties that
  need the same resources: the reactor's poolRoutine, which alternates between draining the request
  channel and looking at the pool under the pool lock, and the goroutine that receives the response,
  which holds the pool lock while it hands the block over.

  One requester is followed; `full` says that the request channel is full of the other requesters'
  requests (the reactor drains it only in its select loop, not while it executes blocks).
-/
import AnnVerif.Model.Basic
namespace AnnVerif.Handoff

structure Cfg where
  /-- setBlock signals the requester with a non-blocking send on a channel of capacity 1 (repaired);
      as found the channel is unbuffered and the send waits for the requester's select -/
  nonBlocking : Bool
  deriving Repr, DecidableEq

def repaired : Cfg := ⟨true⟩
def asFound : Cfg := ⟨false⟩

/-- the requester: peer chosen, sending its request | in its select | has taken the signal -/
inductive RPhase where | sending | waiting | holding
  deriving Repr, DecidableEq
/-- the goroutine receiving a response for this requester -/
inductive VPhase where | idle | wantLock | inAddBlock | done
  deriving Repr, DecidableEq
/-- poolRoutine: in its select loop | wants the pool lock (PeekTwoBlocks) | holds it -/
inductive SPhase where | draining | wantLock | looking
  deriving Repr, DecidableEq
inductive Lock where | free | v | s
  deriving Repr, DecidableEq

structure St where
  r : RPhase
  full : Bool        -- the request channel is full
  signal : Bool      -- a signal is buffered in gotBlockCh (repaired only)
  blockSet : Bool    -- the requester holds a block
  v : VPhase
  s : SPhase
  lock : Lock
  deriving Repr, DecidableEq

inductive Act where
  | rSend | rTakeSignal | vArrive | vLock | vHandoff | sDrain | sTick | sLock | sUnlock
  deriving Repr, DecidableEq

def allActs : List Act := [.rSend, .rTakeSignal, .vArrive, .vLock, .vHandoff, .sDrain, .sTick, .sLock, .sUnlock]

/-- `none` = the action is not enabled (the goroutine is blocked, or it is somewhere else) -/
def step (cfg : Cfg) (st : St) : Act → Option St
  | .rSend => if st.r = .sending ∧ st.full = false then some { st with r := .waiting } else none
  | .rTakeSignal =>
    if st.r = .waiting ∧ st.signal = true then some { st with r := .holding, signal := false } else none
  | .vArrive => if st.v = .idle then some { st with v := .wantLock } else none
  | .vLock => if st.v = .wantLock ∧ st.lock = .free then some { st with v := .inAddBlock, lock := .v } else none
  | .vHandoff =>
    if st.v ≠ .inAddBlock then none
    else if st.blockSet then some { st with v := .done, lock := .free }      -- setBlock refuses: a block is there
    else if cfg.nonBlocking then
      some { st with blockSet := true, signal := true, v := .done, lock := .free }
    else if st.r = .waiting then
      some { st with blockSet := true, r := .holding, v := .done, lock := .free }
    else none                                                              -- the send waits, the lock stays held
  | .sDrain => if st.s = .draining ∧ st.full = true then some { st with full := false } else none
  | .sTick => if st.s = .draining then some { st with s := .wantLock } else none
  | .sLock => if st.s = .wantLock ∧ st.lock = .free then some { st with s := .looking, lock := .s } else none
  | .sUnlock => if st.s = .looking then some { st with s := .draining, lock := .free } else none

def runActs (cfg : Cfg) : St → List Act → Option St
  | st, [] => some st
  | st, a :: t => (step cfg st a).bind (fun st' => runActs cfg st' t)

def stuck (cfg : Cfg) (st : St) : Bool := allActs.all fun a => (step cfg st a).isNone

/-- the lock is held exactly by the party that is inside its critical section -/
def WF (st : St) : Prop :=
  (st.lock = .v ↔ st.v = .inAddBlock) ∧ (st.lock = .s ↔ st.s = .looking)

/-- the situation of the engine: the requester has its peer and is blocked sending its request into
    the full channel; the reactor is in its loop; the response arrives -/
def early : St := ⟨.sending, true, false, false, .idle, .draining, .free⟩

end AnnVerif.Handoff
