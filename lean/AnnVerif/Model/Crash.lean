/-
  Model of the durable writes of one block commit and of the node's start-up reconciliation.

  The write sequence is not assumed: the engine records the labels of the durable writes the real
  node issues (failpoints at the lowest write layer) and hands them to the model, which knows what
  each class of write makes durable:
    pbft finalizeCommit -> BlockStore.SaveBlock : meta, parts, last commit, seen commit, descriptor, flush
    State.ApplyBlock -> ExecBlock               : intermediate state (stateIntermediateKey)
    -> CommitStateUpdateMempool -> EVMApp.OnCommit : state trie, application marker (lastblock), receipts
    State.Save                                  : stateKey
  followed by the next height's WAL records and signer-file updates.

  Start-up (gemmill/angine.go NewAngine, ConnectApp -> RecoverFromCrash; blockchain/reactor.go
  NewBlockchainReactor; chain/app/evm Start): heights are relative to the block h being committed
  (`false` = h-1, `true` = h).
-/
import AnnVerif.Model.Basic
namespace AnnVerif.Crash

inductive W where
  | bmeta | part | lastCommit | seenCommit | descriptor | flush
  | interm | trie | marker | receipts | stateKey
  | other          -- a write that makes nothing of the above durable (plugin databases, WAL, signer file)
  deriving Repr, DecidableEq

structure Disk where
  bmeta : Bool := false
  parts : Bool := false
  lastCommit : Bool := false
  seenCommit : Bool := false
  store : Bool := false      -- the block-store descriptor names h
  interm : Bool := false     -- the intermediate state of h is saved
  trie : Bool := false       -- the state trie of the root after h is on disk
  app : Bool := false        -- the application's marker names h
  receipts : Bool := false
  state : Bool := false      -- stateKey holds the state after h
  deriving Repr, DecidableEq

def apply (d : Disk) : W → Disk
  | .bmeta => { d with bmeta := true }
  | .part => { d with parts := true }
  | .lastCommit => { d with lastCommit := true }
  | .seenCommit => { d with seenCommit := true }
  | .descriptor => { d with store := true }
  | .flush => d
  | .interm => { d with interm := true }
  | .trie => { d with trie := true }
  | .marker => { d with app := true }
  | .receipts => { d with receipts := true }
  | .stateKey => { d with state := true }
  | .other => d

/-- what is durable when the process dies immediately before the j-th write (j counted from 1) -/
def crashDisk (ws : List W) (j : Nat) : Disk := (ws.take (j - 1)).foldl apply {}

inductive Start where
  | ok
  | okReexecuted         -- the node starts, but executes block h again on an application that has committed it
  | appCannotOpen        -- the marker names a root whose trie is not on disk: EVMApp.Start fails
  | appAhead             -- RecoverFromCrash: ErrAppBlockHeightTooHigh -> PanicSanity in ConnectApp
  | storeBehindState     -- NewBlockchainReactor: "state and store height mismatch"
  | blockNotServable     -- the store names a height whose block or seen commit is missing when needed
  | stateMismatch        -- RecoverFromCrash: Unexpected state.AppHash / LoadIntermediate mismatch
  deriving Repr, DecidableEq

/-- the node's start-up on what is durable; `first` = the block being committed is block 1. The WAL
    of height h is intact (a crash loses no acknowledged WAL record), so a node that comes up at
    height h re-decides block h from it. -/
def startup (first : Bool) (d : Disk) : Start :=
  if d.app ∧ !d.trie then .appCannotOpen
  else if d.state ∧ !d.store then .storeBehindState
  else
    -- NewBlockchainReactor: a store one ahead of the state is taken back by one IN MEMORY
    let storeSeen := if d.store ∧ !d.state then false else d.store
    -- RecoverFromCrash(app height) sees that in-memory height; height 0 = "no blocks to replay"
    if first ∧ !storeSeen then (if d.app then .okReexecuted else .ok)
    else if d.app ∧ !storeSeen then .appAhead
    else if d.state ∧ !d.app then .stateMismatch          -- store = state = h, application behind: replay of h on a state at h
    else if d.state ∧ !(d.seenCommit ∧ d.parts ∧ d.bmeta) then .blockNotServable   -- reconstructLastCommit(state at h)
    else .ok

def Start.starts : Start → Bool
  | .ok => true
  | .okReexecuted => true
  | _ => false

def partsThen : Nat → List W → List W
  | 0, rest => rest
  | n + 1, rest => .part :: partsThen n rest

/-- what follows the block parts in `SaveBlock`, `ApplyBlock` and `State.Save` -/
def afterParts : List W :=
  [.lastCommit, .seenCommit, .descriptor, .flush, .other, .interm, .trie, .marker, .receipts, .stateKey]

/-- the writes of one commit in the order the node issues them (n block parts, k trailing writes
    of the next height's consensus: WAL records, signer file) -/
def commitWrites (nParts nOther : Nat) : List W :=
  .bmeta :: partsThen nParts (afterParts ++ List.replicate nOther .other)

/-- ordering facts a recoverable commit needs -/
def Ordered (d : Disk) : Prop :=
  (d.store → d.bmeta ∧ d.parts ∧ d.lastCommit ∧ d.seenCommit) ∧   -- the descriptor is the commit point of the store
  (d.app → d.trie ∧ d.store) ∧                                   -- the marker never names a root that is not on disk
  (d.state → d.app ∧ d.interm)

/-- `Ordered`, computed (Props/C06.lean: `orderedB_iff`) -/
def orderedB (d : Disk) : Bool :=
  (!d.store || (d.bmeta && d.parts && d.lastCommit && d.seenCommit)) &&
  (!d.app || (d.trie && d.store)) &&
  (!d.state || (d.app && d.interm))

end AnnVerif.Crash
