/-
  Model of the application's transaction pool (chain/app/evm/tx_pool.go, tx_sort.go).

  A transaction is (id, sender, nonce): `id` stands for its hash (two transactions with the same
  sender and nonce but different content have different ids). The account nonces of the application
  state are an input (`nonceOf`), updated by `commit` with what the executed block left behind.
  Go iterates its maps in random order; the model iterates accounts in ascending order. The two
  agree whenever the order cannot matter (no limit binds across several accounts) — the harness
  only compares such runs with the model and checks the limit-binding runs against invariants.
-/
import AnnVerif.Model.Basic
namespace AnnVerif.Pool

/-- variants -/
structure Cfg where
  /-- the transaction displaced by `TryReplace` leaves the lookup cache too (repaired) -/
  replaceForgets : Bool := true
  /-- a transaction that `promoteExecutables` takes out of the waiting queue but cannot put into the
      pending queue (its nonce is taken) leaves the lookup cache too (repaired) -/
  promoteForgets : Bool := true
  /-- transactions a committed block contained leave the pool even if they did not advance their
      sender's nonce (repaired) -/
  commitRemoves : Bool := true
  /-- a submission for a nonce that is already pending is refused (repaired); as found it is accepted
      and silently dropped at the next promotion -/
  pendingNonceCheck : Bool := true
  /-- `demoteUnexecutables` postpones what lies behind ANY nonce gap of the pending queue (repaired);
      as found only a gap in front of the queue was looked for -/
  demotesGaps : Bool := true
  deriving Repr, DecidableEq

structure Tx where
  id : Nat
  sender : Nat
  nonce : Nat
  deriving Repr, DecidableEq

/-- one account's queue: transactions in ascending nonce order, at most one per nonce -/
abbrev Queue := List Tx

def qInsert (q : Queue) (t : Tx) : Queue :=
  match q with
  | [] => [t]
  | x :: r => if t.nonce < x.nonce then t :: x :: r else x :: qInsert r t

def qHas (q : Queue) (n : Nat) : Bool := q.any (·.nonce == n)

/-- `Forward(threshold)`: the transactions below the threshold are removed and returned -/
def qForward (q : Queue) (th : Nat) : Queue × Queue := (q.filter (·.nonce ≥ th), q.filter (·.nonce < th))

/-- `ReadyN(start, count)`: nothing unless the lowest nonce is ≤ start; then the run of consecutive
    nonces from the lowest one, at most `count` of them -/
def readyRun : Queue → Nat → Nat → Queue
  | [], _, _ => []
  | _, _, 0 => []
  | x :: r, next, c + 1 => if x.nonce = next then x :: readyRun r (next + 1) c else []

def qReadyN (q : Queue) (start count : Nat) : Queue × Queue :=
  match q with
  | [] => (q, [])
  | x :: _ =>
    if x.nonce > start ∨ count = 0 then (q, [])
    else
      let run := readyRun q x.nonce count
      (q.drop run.length, run)

/-- account -> queue (the Go maps `pending` / `waiting`; an absent key is the empty queue) -/
abbrev AccMap := Nat → Queue

abbrev mGet (m : AccMap) (a : Nat) : Queue := m a

def mSet (m : AccMap) (a : Nat) (q : Queue) : AccMap := fun b => if b = a then q else m b

/-- the accounts the pool can hold transactions of (ascending; the order Go's map iteration is
    replaced by) -/
def accounts : List Nat := [0, 1, 2, 3, 4]

def mCount (m : AccMap) : Nat := (accounts.map (fun a => (m a).length)).sum

def mKeys (m : AccMap) : List Nat := accounts.filter (fun a => !(m a).isEmpty)

structure Pool where
  pending : AccMap := fun _ => []
  waiting : AccMap := fun _ => []
  all : List Nat := []          -- ids in the lookup cache
  ext : List Nat := []          -- admin transactions, oldest first
  pendingLimit : Nat := 10
  waitingLimit : Nat := 10
  nonces : List (Nat × Nat) := []   -- the account nonces of the application state

def nonceOf (p : Pool) (a : Nat) : Nat := ((p.nonces.find? (·.1 = a)).map (·.2)).getD 0

def forget (all : List Nat) (ts : Queue) : List Nat := all.filter (fun i => !(ts.any (·.id == i)))

inductive SubmitRes where
  | ok | exist | stale | full | nonceTaken
  deriving Repr, DecidableEq

/-- `addWaiting` -/
def addWaiting (cfg : Cfg) (p : Pool) (t : Tx) : Pool × SubmitRes :=
  let q := mGet p.waiting t.sender
  if mCount p.waiting ≥ p.waitingLimit then
    -- full: replace the account's highest waiting nonce by a lower one, or give up
    match q.getLast? with
    | none => (p, .full)
    | some mx =>
      if mx.nonce ≤ t.nonce then (p, .full)
      else
        let q' := q.dropLast
        if qHas q' t.nonce then
          -- as found the highest nonce is already gone when the insertion fails (and stays in the cache)
          (if cfg.replaceForgets then p else { p with waiting := mSet p.waiting t.sender q' }, .full)
        else
          ({ p with waiting := mSet p.waiting t.sender (qInsert q' t),
                    all := if cfg.replaceForgets then forget p.all [mx] else p.all }, .ok)
  else if qHas q t.nonce then (p, .nonceTaken)
  else ({ p with waiting := mSet p.waiting t.sender (qInsert q t) }, .ok)

/-- one account's turn in `promoteExecutables` -/
def promoteOne (cfg : Cfg) (p : Pool) (a : Nat) : Pool :=
  let budget := p.pendingLimit - mCount p.pending
  if budget = 0 then p else
  let nonce := nonceOf p a
  let (w1, old) := qForward (mGet p.waiting a) nonce
  let (w2, ready) := qReadyN w1 nonce budget
  let pq := mGet p.pending a
  -- `pending[addr].Add(tx)` fails for a nonce that is already pending: the transaction is gone
  let added := ready.filter (fun t => !qHas pq t.nonce)
  let lost := ready.filter (fun t => qHas pq t.nonce)
  { p with waiting := mSet p.waiting a w2,
           pending := mSet p.pending a (added.foldl qInsert pq),
           all := forget (if cfg.promoteForgets then forget p.all lost else p.all) old }

def promote (cfg : Cfg) (p : Pool) (accts : List Nat) : Pool := accts.foldl (promoteOne cfg) p

/-- `CheckAndAdd` -/
def submit (cfg : Cfg) (p : Pool) (t : Tx) : Pool × SubmitRes :=
  if p.all.contains t.id then (p, .exist)
  else if nonceOf p t.sender > t.nonce then (p, .stale)
  else if cfg.pendingNonceCheck ∧ qHas (mGet p.pending t.sender) t.nonce then (p, .nonceTaken)
  else
    match addWaiting cfg p t with
    | (p1, .ok) =>
      let p2 := { p1 with all := p1.all ++ [t.id] }
      (if nonceOf p t.sender = t.nonce then promote cfg p2 [t.sender] else p2, .ok)
    | (p1, r) => (p1, r)

/-- the run of consecutive nonces from `n` at the head of a queue, and what is left behind it -/
def consecPrefix : Queue → Nat → Queue × Queue
  | [], _ => ([], [])
  | t :: r, n => if t.nonce = n then ((t :: (consecPrefix r (n + 1)).1), (consecPrefix r (n + 1)).2)
                 else ([], t :: r)

/-- what stays executable and what is postponed -/
def gapSplit (cfg : Cfg) (q : Queue) (nonce : Nat) : Queue × Queue :=
  if cfg.demotesGaps then consecPrefix q nonce
  else if q.isEmpty ∨ qHas q nonce then (q, []) else ([], q)

/-- one account's turn in `demoteUnexecutables` -/
def demoteOne (cfg : Cfg) (p : Pool) (a : Nat) : Pool :=
  let nonce := nonceOf p a
  let (q1, old) := qForward (mGet p.pending a) nonce
  let p1 := { p with pending := mSet p.pending a q1, all := forget p.all old }
  let (keep, rest) := gapSplit cfg q1 nonce
  if rest.isEmpty then p1
  else
    -- a gap: what lies behind it goes back to the waiting queue (or is dropped if that is full)
    let p2 := { p1 with pending := mSet p1.pending a keep }
    rest.foldl (fun acc t =>
      match addWaiting cfg acc t with
      | (acc', .ok) => acc'
      | (acc', _) => { acc' with all := forget acc'.all [t] }) p2

/-- `Update` + `OnCommit.updateToState`: the block's transactions were committed, the application
    state moved to `nonces` -/
def commit (cfg : Cfg) (p : Pool) (included : List Nat) (nonces : List (Nat × Nat)) : Pool :=
  let p0 := { p with nonces := nonces, ext := p.ext.filter (fun i => !included.contains i) }
  let p1 :=
    if cfg.commitRemoves then
      let gone := fun (t : Tx) => included.contains t.id
      { p0 with pending := fun a => (p0.pending a).filter (fun t => !gone t),
                waiting := fun a => (p0.waiting a).filter (fun t => !gone t),
                all := p0.all.filter (fun i => !included.contains i) }
    else p0
  let p2 := (mKeys p1.pending).foldl (demoteOne cfg) p1
  promote cfg p2 (mKeys p2.waiting)

/-- `Reap(-1)`: the admin transactions, then every pending transaction (accounts ascending) -/
def reapAll (p : Pool) : List Nat × List Tx := (p.ext, (accounts.map p.pending).flatten)

def submitAdmin (p : Pool) (id : Nat) : Pool × SubmitRes :=
  if p.ext.contains id then (p, .exist)
  else
    let ext := if p.ext.length ≥ p.pendingLimit then p.ext.drop 1 else p.ext
    ({ p with ext := ext ++ [id] }, .ok)

def flush (p : Pool) : Pool := { p with pending := fun _ => [], waiting := fun _ => [], all := [], ext := [] }

end AnnVerif.Pool
