/-
  Model of one validator's round state machine: gemmill/consensus/pbft/state.go
  (enterNewRound … finalizeCommit, setProposal, addProposalBlockPart, addVote, handleTimeout) with
  height_vote_set.go on top of the VoteSet, ValidatorSet and Signer models.

  Blocks are NAMES (`Bytes`): a block id is (hash = name, parts = {1, name}); `nil` is the empty
  name. What the model cannot compute is supplied as oracles: `valid name` (state.ValidateBlock),
  the signature bit of peer votes, and the fresh name of a block the node creates itself.
  The validator's own proposals/parts/votes go to an internal FIFO queue, exactly like
  `internalMsgQueue`, and are processed by later steps.
-/
import AnnVerif.Model.VoteSet
import AnnVerif.Model.ValSet
import AnnVerif.Model.Signer
namespace AnnVerif.Node

abbrev Name := Bytes

def bidOf (n : Name) : VoteSet.BlockID := if n.isEmpty then ⟨[], 0, []⟩ else ⟨n, 1, n⟩
def nameOf (b : VoteSet.BlockID) : Name := b.hash

/-- `verifyOwnParts` = block parts the node queued for itself are verified against the header of
    the part set being filled, like parts from peers (repaired); as found they are added unverified. -/
structure Cfg where
  verifyOwnParts : Bool
  /-- `addVote` ignores a straggler precommit when there is no last commit (height 1) instead of
      calling AddVote on a nil VoteSet (PanicSanity) -/
  guardNilLastCommit : Bool := true
  /-- `defaultSetProposal` keeps a part set that is already there (collected from the header in a
      +2/3 of votes while the proposal was late); as found it replaced it by an empty one, leaving
      an assembled `ProposalBlock` without its parts -/
  proposalKeepsParts : Bool := true
  deriving Repr, DecidableEq

def repaired : Cfg := ⟨true, true, true⟩
def asFound : Cfg := ⟨false, false, false⟩

inductive Step where
  | newHeight | newRound | propose | prevote | prevoteWait | precommit | precommitWait | commit
  deriving Repr, DecidableEq

def Step.toNat : Step → Nat
  | .newHeight => 1 | .newRound => 2 | .propose => 3 | .prevote => 4 | .prevoteWait => 5
  | .precommit => 6 | .precommitWait => 7 | .commit => 8

instance : LE Step := ⟨fun a b => a.toNat ≤ b.toNat⟩
instance (a b : Step) : Decidable (a ≤ b) := inferInstanceAs (Decidable (a.toNat ≤ b.toNat))
instance : LT Step := ⟨fun a b => a.toNat < b.toNat⟩
instance (a b : Step) : Decidable (a < b) := inferInstanceAs (Decidable (a.toNat < b.toNat))

structure Proposal where
  height : Int
  round : Int
  block : Name          -- BlockPartsHeader
  polRound : Int
  polBlock : Name
  deriving Repr, DecidableEq

/-- a message of the consensus channel, as the state machine sees it -/
inductive Msg where
  | proposal (p : Proposal) (signer : Nat) (sigBad : Bool)
  | parts (height : Int) (round : Int) (block : Name)     -- all parts of `block`
  | vote (v : VoteSet.Vote) (sigok : Bool)
  deriving Repr

inductive Emit where
  | timeout (h r : Int) (s : Step)
  | panic (site : String)
  | commit (h : Int) (block : Name)
  deriving Repr, DecidableEq

structure RoundVotes where
  round : Int
  prevotes : VoteSet.VoteSet
  precommits : VoteSet.VoteSet
  deriving Repr

structure Node where
  height : Int
  round : Int
  step : Step
  proposal : Option Proposal
  proposalBlock : Option Name
  proposalParts : Option Name        -- header of the part set being filled
  partsComplete : Bool
  lockedRound : Int
  lockedBlock : Option Name
  rounds : List RoundVotes           -- HeightVoteSet.roundVoteSets
  hvsRound : Int
  catchup : List (String × List Int) -- peerCatchupRounds
  commitRound : Int
  lastCommit : Option VoteSet.VoteSet
  vals : ValSet.ValSet               -- cs.Validators (accums advanced by the rounds of this height)
  vals0 : ValSet.ValSet              -- cs.state.Validators (the set this height started with)
  me : Option Nat                    -- our position in `vals`
  signer : Signer.St
  queue : List Msg                   -- internalMsgQueue
  validTab : List (Name × Int × Bool) -- oracle: state.ValidateBlock per block (a block is for ONE height)
  fresh : Nat                        -- next own block number
  ownPrefix : Bytes                  -- name prefix of self-created blocks
  skipTimeoutCommit : Bool
  cfg : Cfg
  out : List Emit
  /-- GHOST (history variable, read by no transition): every vote the node has signed, oldest first -/
  signed : List VoteSet.Vote
  /-- GHOST (read by no transition): the vote sets of every height the node has left, as they were
      when `finalizeCommit` moved on (height, HeightVoteSet.roundVoteSets) -/
  past : List (Int × List RoundVotes) := []
  deriving Repr

def vsVals (vs : ValSet.ValSet) : List VoteSet.Validator := vs.vals.map fun v => ⟨v.addr, v.power⟩

def newRoundVotes (n : Node) (height r : Int) : RoundVotes :=
  ⟨r, VoteSet.new height r 1 (vsVals n.vals), VoteSet.new height r 2 (vsVals n.vals)⟩

def getRound (n : Node) (r : Int) : Option RoundVotes := n.rounds.find? (·.round = r)

def prevotes (n : Node) (r : Int) : Option VoteSet.VoteSet := (getRound n r).map (·.prevotes)
def precommits (n : Node) (r : Int) : Option VoteSet.VoteSet := (getRound n r).map (·.precommits)

def maj23 (vs : Option VoteSet.VoteSet) : Option VoteSet.BlockID := vs.bind (·.maj23)
def twoThirdsAny (vs : Option VoteSet.VoteSet) : Bool :=
  match vs with | some v => VoteSet.hasTwoThirdsAny v | none => false
def hasAll (vs : Option VoteSet.VoteSet) : Bool :=
  match vs with | some v => VoteSet.hasAll v | none => false

/-- `HeightVoteSet.SetRound` (a panic when it does not advance is emitted, state unchanged) -/
def setRound (n : Node) (r : Int) : Node :=
  if n.hvsRound ≠ 0 ∧ r < n.hvsRound + 1 then { n with out := n.out ++ [.panic "SetRound"] }
  else
    let missing := (List.range (r - n.hvsRound).toNat).map (fun (k : Nat) => n.hvsRound + 1 + (k : Int))
    let add := missing.filter (fun q => (getRound n q).isNone)
    { n with rounds := n.rounds ++ add.map (newRoundVotes n n.height), hvsRound := r }

/-- `HeightVoteSet.POLInfo` -/
def polInfo (n : Node) : Int × Name :=
  let rec go : Nat → Int → Int × Name
    | 0, _ => (-1, [])
    | k + 1, r =>
      if r < 0 then (-1, []) else
      match maj23 (prevotes n r) with
      | some b => (r, nameOf b)
      | none => go k (r - 1)
  go (n.hvsRound.toNat + 1) n.hvsRound

def isValid (n : Node) (b : Name) : Bool :=
  match n.validTab.find? (·.1 = b) with | some (_, h, v) => v && h == n.height | none => false

def hashesTo (blk : Option Name) (h : Bytes) : Bool :=
  match blk with | some b => !h.isEmpty && b == h | none => false

def proposerAddr (n : Node) : Option Bytes := (ValSet.proposer n.vals).2

def myAddr (n : Node) : Option Bytes := n.me.bind fun i => (n.vals.vals[i]?).map (·.addr)

def emit (n : Node) (e : Emit) : Node := { n with out := n.out ++ [e] }

/-- `signAddVote`: sign through the signer (height, round = CURRENT round) and queue the vote -/
def signAddVote (n : Node) (type : Nat) (bid : VoteSet.BlockID) : Node :=
  match n.me, myAddr n with
  | some i, some a =>
    let res := Signer.sign Signer.repaired n.signer n.height n.round (type + 1)
      (UInt8.ofNat type :: bid.hash) .ok
    if res.2.isReleased then
      { n with signer := res.1,
               queue := n.queue ++ [.vote ⟨i, a, n.height, n.round, type, bid, 0⟩ true],
               signed := n.signed ++ [⟨i, a, n.height, n.round, type, bid, 0⟩] }
    else { n with signer := res.1 }
  | _, _ => n

def isProposalComplete (n : Node) : Bool :=
  match n.proposal, n.proposalBlock with
  | some p, some _ =>
    if p.polRound < 0 then true
    else (maj23 (prevotes n p.polRound)).isSome
  | _, _ => false

/-- `defaultDoPrevote` -/
def doPrevote (n : Node) : Node :=
  match n.lockedBlock with
  | some b => signAddVote n 1 (bidOf b)
  | none =>
    match n.proposalBlock with
    | none => signAddVote n 1 (bidOf [])
    | some b => if isValid n b then signAddVote n 1 (bidOf b) else signAddVote n 1 (bidOf [])

def enterPrevote (n : Node) (h r : Int) : Node :=
  if n.height ≠ h ∨ r < n.round ∨ (n.round = r ∧ Step.prevote ≤ n.step) then n
  else
    let n := doPrevote n
    { n with round := r, step := .prevote }

def enterPrevoteWait (n : Node) (h r : Int) : Node :=
  if n.height ≠ h ∨ r < n.round ∨ (n.round = r ∧ Step.prevoteWait ≤ n.step) then n
  else if !twoThirdsAny (prevotes n r) then emit n (.panic "enterPrevoteWait")
  else
    let n := emit n (.timeout h r .prevoteWait)
    { n with round := r, step := .prevoteWait }

/-- `defaultDecideProposal` -/
def decideProposal (n : Node) (h r : Int) : Node :=
  -- the block: the locked one, or a fresh own block (named only if it is actually proposed)
  let own : Name := n.ownPrefix ++ (toString n.fresh).toUTF8.toList
  let block : Name := match n.lockedBlock with | some b => b | none => own
  let pol := polInfo n
  let p : Proposal := ⟨h, r, block, pol.1, pol.2⟩
  let res := Signer.sign Signer.repaired n.signer h r 1
    (0 :: block ++ [0xFF] ++ pol.2 ++ [UInt8.ofNat (pol.1 + 1).toNat]) .ok
  match n.me with
  | some i =>
    if res.2.isReleased then
      let n := if n.lockedBlock.isNone then
                 { n with fresh := n.fresh + 1, validTab := n.validTab ++ [(own, n.height, true)] } else n
      { n with signer := res.1, queue := n.queue ++ [.proposal p i false, .parts n.height n.round block] }
    else { n with signer := res.1 }
  | none => { n with signer := res.1 }

def enterPropose (n : Node) (h r : Int) : Node :=
  if n.height ≠ h ∨ r < n.round ∨ (n.round = r ∧ Step.propose ≤ n.step) then n
  else
    let n := emit n (.timeout h r .propose)
    let n :=
      match n.me, myAddr n, proposerAddr n with
      | some _, some a, some p => if a = p then decideProposal n h r else n
      | _, _, _ => n
    let n := { n with round := r, step := .propose }
    if isProposalComplete n then enterPrevote n h n.round else n

def enterNewRound (n : Node) (h r : Int) : Node :=
  if n.height ≠ h ∨ r < n.round ∨ (n.round = r ∧ n.step ≠ .newHeight) then n
  else
    let vals := if n.round < r then ValSet.incrementAccum ValSet.repaired n.vals (r - n.round).toNat
                else n.vals
    let n := { n with round := r, step := .newRound, vals := vals }
    let n := if r = 0 then n else { n with proposal := none, proposalBlock := none, proposalParts := none, partsComplete := false }
    let n := setRound n (r + 1)
    enterPropose n h r

def unlock (n : Node) : Node := { n with lockedRound := 0, lockedBlock := none }

def enterPrecommit (n : Node) (h r : Int) : Node :=
  if n.height ≠ h ∨ r < n.round ∨ (n.round = r ∧ Step.precommit ≤ n.step) then n
  else
    let fin (n : Node) : Node := { n with round := r, step := .precommit }
    match maj23 (prevotes n r) with
    | none => fin (signAddVote n 2 (bidOf []))
    | some blockID =>
      if (polInfo n).1 < r then fin (emit n (.panic "enterPrecommit:POLRound"))
      else if blockID.hash.isEmpty then
        fin (signAddVote (if n.lockedBlock.isSome then unlock n else n) 2 (bidOf []))
      else if hashesTo n.lockedBlock blockID.hash then
        fin (signAddVote { n with lockedRound := r } 2 blockID)
      else if hashesTo n.proposalBlock blockID.hash then
        if !isValid n (nameOf blockID) then fin (emit n (.panic "enterPrecommit:invalid-block"))
        else
          fin (signAddVote { n with lockedRound := r, lockedBlock := n.proposalBlock } 2 blockID)
      else
        let n := unlock n
        let n := if n.proposalParts = some (nameOf blockID) then n
                 else { n with proposalBlock := none, proposalParts := some (nameOf blockID), partsComplete := false }
        fin (signAddVote n 2 (bidOf []))

def enterPrecommitWait (n : Node) (h r : Int) : Node :=
  if n.height ≠ h ∨ r < n.round ∨ (n.round = r ∧ Step.precommitWait ≤ n.step) then n
  else if !twoThirdsAny (precommits n r) then emit n (.panic "enterPrecommitWait")
  else
    let n := emit n (.timeout h r .precommitWait)
    { n with round := r, step := .precommitWait }

/-- `finalizeCommit` + `updateToState`: move to the next height -/
def finalizeCommit (n : Node) (h : Int) : Node :=
  if n.height ≠ h ∨ n.step ≠ .commit then n
  else
    match maj23 (precommits n n.commitRound), n.proposalBlock with
    | some blockID, some b =>
      if n.proposalParts ≠ some (nameOf blockID) then emit n (.panic "finalizeCommit:parts")
      else if b ≠ nameOf blockID then emit n (.panic "finalizeCommit:hash")
      else if !isValid n b then emit n (.panic "finalizeCommit:invalid-block")
      else if !n.partsComplete then emit n (.panic "SaveBlock:incomplete-part-set")
      else
        let n := emit n (.commit h b)
        let nextVals := ValSet.incrementAccum ValSet.repaired n.vals0 1
        let n' : Node :=
          { n with height := h + 1, round := 0, step := .newHeight, vals := nextVals, vals0 := nextVals,
                   proposal := none, proposalBlock := none, proposalParts := none, partsComplete := false,
                   lockedRound := 0, lockedBlock := none,
                   lastCommit := precommits n n.commitRound, commitRound := -1,
                   rounds := [], hvsRound := 0, catchup := [], past := n.past ++ [(h, n.rounds)] }
        let n' := { n' with rounds := [newRoundVotes n' (h + 1) 0] }
        emit n' (.timeout (h + 1) 0 .newHeight)
    | _, _ => emit n (.panic "finalizeCommit:maj23")

def tryFinalizeCommit (n : Node) (h : Int) : Node :=
  if n.height ≠ h then emit n (.panic "tryFinalizeCommit") else
  match maj23 (precommits n n.commitRound) with
  | none => n
  | some blockID =>
    if blockID.hash.isEmpty then n
    else if !hashesTo n.proposalBlock blockID.hash then n
    else finalizeCommit n h

def enterCommit (n : Node) (h cr : Int) : Node :=
  if n.height ≠ h ∨ Step.commit ≤ n.step then n
  else
    match maj23 (precommits n cr) with
    | none => emit n (.panic "enterCommit")
    | some blockID =>
      let n := if hashesTo n.lockedBlock blockID.hash then
                 { n with proposalBlock := n.lockedBlock, proposalParts := n.lockedBlock, partsComplete := true } else n
      let n := if !hashesTo n.proposalBlock blockID.hash ∧ n.proposalParts ≠ some (nameOf blockID) then
                 { n with proposalBlock := none, proposalParts := some (nameOf blockID), partsComplete := false } else n
      let n := { n with step := .commit, commitRound := cr }
      tryFinalizeCommit n h


/-- the proposal's signature verifies under the key of the round's proposer -/
def proposalSigOk (n : Node) (signer : Nat) (sigBad : Bool) : Bool :=
  !sigBad && (match proposerAddr n, n.vals.vals[signer]? with
    | some pa, some v => pa == v.addr
    | _, _ => false)

/-- `defaultSetProposal` -/
def setProposal (n : Node) (p : Proposal) (signer : Nat) (sigBad : Bool) : Node :=
  if n.proposal.isSome then n
  else if p.height ≠ n.height ∨ p.round ≠ n.round then n
  else if Step.commit ≤ n.step then n
  else if p.polRound ≠ -1 ∧ (p.polRound < 0 ∨ p.round ≤ p.polRound) then n
  else if !proposalSigOk n signer sigBad then n
  else if n.cfg.proposalKeepsParts ∧ n.proposalParts.isSome then { n with proposal := some p }
  else { n with proposal := some p, proposalParts := some p.block, partsComplete := false }

/-- all parts of `block` arrive (`addProposalBlockPart` for each; only completion matters) -/
def addParts (n : Node) (height : Int) (block : Name) (own : Bool) : Node :=
  if n.height ≠ height then n
  else if n.proposalParts.isNone then n
  else if n.partsComplete then n                     -- duplicates
  else if n.proposalParts ≠ some block ∧ (n.cfg.verifyOwnParts ∨ !own) then n   -- proof mismatch
  else
    let n := { n with proposalBlock := some block, partsComplete := true }
    if n.step = .propose ∧ isProposalComplete n then enterPrevote n height n.round
    else if n.step = .commit then tryFinalizeCommit n height
    else n

/-- `HeightVoteSet.AddVote` followed by `VoteSet.AddVote`; returns (node, added, conflict?) -/
def hvsAddVote (n : Node) (v : VoteSet.Vote) (sigok : Bool) (peer : String) : Node × VoteSet.Out :=
  if v.type ≠ 1 ∧ v.type ≠ 2 then (n, .dup)       -- invalid vote type: silently ignored
  else
    let (n, known) : Node × Bool :=
      match getRound n v.round with
      | some _ => (n, true)
      | none =>
        let mine := (n.catchup.find? (·.1 = peer)).map (·.2) |>.getD []
        if mine.length < 2 then
          ({ n with rounds := n.rounds ++ [newRoundVotes n n.height v.round],
                    catchup := (peer, mine ++ [v.round]) :: n.catchup.filter (·.1 ≠ peer) }, true)
        else (n, false)
    if !known then (n, .dup)
    else
      match getRound n v.round with
      | none => (n, .dup)
      | some rv =>
        let target := if v.type = 1 then rv.prevotes else rv.precommits
        let (vs', o) := VoteSet.addVote VoteSet.repaired target v sigok
        let rv' := if v.type = 1 then { rv with prevotes := vs' } else { rv with precommits := vs' }
        ({ n with rounds := n.rounds.map (fun x => if x.round = v.round then rv' else x) }, o)

def wasAdded : VoteSet.Out → Bool
  | .added => true
  | .conflict a => a
  | _ => false

/-- `ConsensusState.addVote` -/
def addVote (n : Node) (v : VoteSet.Vote) (sigok : Bool) (peer : String) : Node :=
  if v.height + 1 = n.height then
    if !(n.step = .newHeight ∧ v.type = 2) then n
    else
      match n.lastCommit with
      | none => if n.cfg.guardNilLastCommit then n else emit n (.panic "addVote:nil-LastCommit")
      | some lc =>
        let (lc', o) := VoteSet.addVote VoteSet.repaired lc v sigok
        let n := { n with lastCommit := some lc' }
        if wasAdded o ∧ n.skipTimeoutCommit ∧ VoteSet.hasAll lc' then enterNewRound n n.height 0 else n
  else if v.height = n.height then
    let h := n.height
    let (n, o) := hvsAddVote n v sigok peer
    if !wasAdded o then n
    else if v.type = 1 then
      let pv := prevotes n v.round
      -- unlock on a polka for something else in (lockedRound, round]
      let n :=
        if n.lockedBlock.isSome ∧ n.lockedRound < v.round ∧ v.round ≤ n.round then
          match maj23 pv with
          | some b => if !hashesTo n.lockedBlock b.hash then unlock n else n
          | none => n
        else n
      if n.round ≤ v.round ∧ twoThirdsAny pv then
        let n := enterNewRound n h v.round
        if (maj23 (prevotes n v.round)).isSome then enterPrecommit n h v.round
        else enterPrevoteWait (enterPrevote n h v.round) h v.round
      else
        match n.proposal with
        | some p => if 0 ≤ p.polRound ∧ p.polRound = v.round ∧ isProposalComplete n
                    then enterPrevote n h n.round else n
        | none => n
    else
      let pc := precommits n v.round
      match maj23 pc with
      | some b =>
        if b.hash.isEmpty then enterNewRound n h (v.round + 1)
        else
          let n := enterNewRound n h v.round
          let n := enterPrecommit n h v.round
          let n := enterCommit n h v.round
          if n.skipTimeoutCommit ∧ hasAll pc then enterNewRound n n.height 0 else n
      | none =>
        if n.round ≤ v.round ∧ twoThirdsAny pc then
          enterPrecommitWait (enterPrecommit (enterNewRound n h v.round) h v.round) h v.round
        else n
  else n

/-- `HeightVoteSet.SetPeerMaj23`, as the reactor calls it for a VoteSetMaj23 message of the node's
    height (directly on the vote sets, not through the consensus queue; not logged): a peer claims
    to have seen +2/3 for `bid`; from then on conflicting votes for that block are counted -/
def setPeerMaj23 (n : Node) (height round : Int) (type : Nat) (peer : String) (bid : VoteSet.BlockID) : Node :=
  if height ≠ n.height then n
  else if type ≠ 1 ∧ type ≠ 2 then n
  else
    match getRound n round with
    | none => n
    | some rv =>
      let rv' := if type = 1 then { rv with prevotes := VoteSet.setPeerMaj23 VoteSet.repaired rv.prevotes peer bid }
                 else { rv with precommits := VoteSet.setPeerMaj23 VoteSet.repaired rv.precommits peer bid }
      { n with rounds := n.rounds.map (fun x => if x.round = round then rv' else x) }

/-- `handleTimeout` -/
def handleTimeout (n : Node) (h r : Int) (s : Step) : Node :=
  if h ≠ n.height ∨ r < n.round ∨ (r = n.round ∧ s < n.step) then n
  else
    match s with
    | .newHeight => enterNewRound n h 0
    | .propose => enterPrevote n h r
    | .prevoteWait => enterPrecommit n h r
    | .precommitWait => enterNewRound n h (r + 1)
    | _ => emit n (.panic "handleTimeout:step")

/-- `handleMsg` -/
def handleMsg (n : Node) (m : Msg) (peer : String) : Node :=
  match m with
  | .proposal p signer bad => setProposal n p signer bad
  | .parts h _ b => addParts n h b (peer == "")
  | .vote v ok => addVote n v ok peer

/-- a fresh node at `height` (what NewConsensusState / updateToState build) -/
def init (cfg : Cfg) (height : Int) (vals : ValSet.ValSet) (me : Option Nat) (skip : Bool) : Node :=
  let n : Node :=
    { height, round := 0, step := .newHeight, proposal := none, proposalBlock := none,
      proposalParts := none, partsComplete := false, lockedRound := 0, lockedBlock := none,
      rounds := [], hvsRound := 0, catchup := [], commitRound := -1, lastCommit := none,
      vals, vals0 := vals, me, signer := Signer.init, queue := [], validTab := [], fresh := 0,
      ownPrefix := [0x6F],
      skipTimeoutCommit := skip, cfg, out := [], signed := [] }
  { n with rounds := [newRoundVotes n height 0] }

end AnnVerif.Node
