/-
  Model of the EVM's 256-bit word arithmetic (eth/core/vm/instructions.go opAdd .. opSAR) and of the
  stack discipline of straight-line programs (PUSH, DUP, SWAP, POP and the arithmetic, comparison and
  bitwise instructions of the Constantinople table). Words are natural numbers below 2^256.
-/
import AnnVerif.Model.Basic
namespace AnnVerif.Word

def M : Nat := 2 ^ 256
def H : Nat := 2 ^ 255

/-- two's complement reading -/
def toInt (a : Nat) : Int := if a < H then (a : Int) else (a : Int) - (M : Int)

/-- back to a word -/
def ofInt (i : Int) : Nat := (i % (M : Int)).toNat

def add (a b : Nat) : Nat := (a + b) % M
def mul (a b : Nat) : Nat := (a * b) % M
def sub (a b : Nat) : Nat := (a + M - b) % M
def div (a b : Nat) : Nat := if b = 0 then 0 else a / b
def mod (a b : Nat) : Nat := if b = 0 then 0 else a % b
/-- SDIV: truncated division of the signed readings (−2^255 / −1 wraps to −2^255) -/
def sdiv (a b : Nat) : Nat := if b = 0 then 0 else ofInt (Int.tdiv (toInt a) (toInt b))
/-- SMOD: the result takes the sign of the dividend -/
def smod (a b : Nat) : Nat := if b = 0 then 0 else ofInt (Int.tmod (toInt a) (toInt b))
def addmod (a b n : Nat) : Nat := if n = 0 then 0 else (a + b) % n
def mulmod (a b n : Nat) : Nat := if n = 0 then 0 else (a * b) % n

/-- square-and-multiply over the bits of the exponent (`fuel` bits) -/
def powMod : Nat → Nat → Nat → Nat
  | 0, _, _ => 1
  | fuel + 1, a, b => if b = 0 then 1 else
      let h := powMod fuel ((a * a) % M) (b / 2)
      if b % 2 = 1 then (a * h) % M else h

def exp (a b : Nat) : Nat := powMod 256 a b

/-- SIGNEXTEND k x: x taken as a (k+1)-byte signed number -/
def signextend (k x : Nat) : Nat :=
  if k ≥ 31 then x
  else
    let bits := 8 * k + 8
    let low := x % 2 ^ bits
    if low / 2 ^ (bits - 1) % 2 = 1 then low + (M - 2 ^ bits) else low

def lt (a b : Nat) : Nat := if a < b then 1 else 0
def gt (a b : Nat) : Nat := if a > b then 1 else 0
def slt (a b : Nat) : Nat := if toInt a < toInt b then 1 else 0
def sgt (a b : Nat) : Nat := if toInt a > toInt b then 1 else 0
def eq (a b : Nat) : Nat := if a = b then 1 else 0
def iszero (a : Nat) : Nat := if a = 0 then 1 else 0
def and_ (a b : Nat) : Nat := a &&& b
def or_ (a b : Nat) : Nat := a ||| b
def xor_ (a b : Nat) : Nat := a ^^^ b
def not_ (a : Nat) : Nat := M - 1 - a
/-- BYTE i x: the i-th byte counted from the most significant -/
def byte (i x : Nat) : Nat := if i ≥ 32 then 0 else x / 2 ^ (8 * (31 - i)) % 256
def shl (s v : Nat) : Nat := if s ≥ 256 then 0 else (v * 2 ^ s) % M
def shr (s v : Nat) : Nat := if s ≥ 256 then 0 else v / 2 ^ s
/-- SAR: arithmetic shift of the signed reading (floor division) -/
def sar (s v : Nat) : Nat :=
  if s ≥ 256 then (if v < H then 0 else M - 1)
  else ofInt (toInt v / ((2 ^ s : Nat) : Int))

inductive Tok where
  | push (v : Nat)
  | bin (f : Nat → Nat → Nat)      -- pops a (top), b; pushes f a b
  | tern (f : Nat → Nat → Nat → Nat)
  | un (f : Nat → Nat)
  | pop
  | dup (n : Nat)                  -- DUPn, n ≥ 1
  | swap (n : Nat)                 -- SWAPn, n ≥ 1

/-- one instruction on the stack (head = top); `none` = stack underflow -/
def stepTok (st : List Nat) : Tok → Option (List Nat)
  | .push v => some (v % M :: st)
  | .bin f => match st with
    | a :: b :: r => some (f a b :: r)
    | _ => none
  | .tern f => match st with
    | a :: b :: c :: r => some (f a b c :: r)
    | _ => none
  | .un f => match st with
    | a :: r => some (f a :: r)
    | _ => none
  | .pop => match st with
    | _ :: r => some r
    | _ => none
  | .dup n => match st[n - 1]? with
    | some v => if n = 0 then none else some (v :: st)
    | none => none
  | .swap n => match st, st[n]? with
    | a :: _, some v => if n = 0 then none else some (v :: (st.set n a).tail)
    | _, _ => none

def runToks : List Tok → List Nat → Option (List Nat)
  | [], st => some st
  | t :: ts, st => (stepTok st t).bind (runToks ts)

end AnnVerif.Word
