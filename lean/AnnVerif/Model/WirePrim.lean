/-
  Model of the go-wire primitives the consensus codecs are built from
  (go-wire/int.go: ReadVarint/WriteVarint, ReadInt64; byteslice.go: ReadByteSlice; time.go).
-/
import AnnVerif.Model.Basic
namespace AnnVerif.WirePrim

/-- `timeErr` = ReadTime sets an error for a sub-millisecond value instead of panicking (repaired) -/
structure Cfg where
  timeErr : Bool
  deriving Repr, DecidableEq

def repaired : Cfg := ⟨true⟩
def asFound : Cfg := ⟨false⟩

inductive RErr where
  | eof | overflow | negZero | invalidLength | readOverflow | subMs
  deriving Repr, DecidableEq

inductive R (α : Type) where
  | ok (a : α) (rest : Bytes)
  | err (e : RErr)
  | panic
  deriving Repr, DecidableEq

/-- two's complement reading of a 64-bit pattern -/
def toInt64 (u : Nat) : Int :=
  let v : Nat := u % 2 ^ 64
  if v ≥ 2 ^ 63 then (v : Int) - ((2 ^ 64 : Nat) : Int) else (v : Int)

def beVal (bs : Bytes) : Nat := bs.foldl (fun acc b => acc * 256 + b.toNat) 0

/-- `WriteVarint(i int)` for any int64 -/
def writeVarint (i : Int) : Bytes :=
  if i < 0 then
    let m : Nat := (-i).toNat   -- `-MinInt64` wraps to MinInt64, which is 2^63 as uint64: the same number
    UInt8.ofNat (uvarintSize m + 0xF0) :: beBytes (uvarintSize m) m
  else
    UInt8.ofNat (uvarintSize i.toNat) :: beBytes (uvarintSize i.toNat) i.toNat

/-- `ReadVarint` -/
def readVarint (inp : Bytes) : R Int :=
  match inp with
  | [] => .err .eof
  | sb :: rest =>
    let negate := sb.toNat / 16 = 0xF
    let size := if negate then sb.toNat % 16 else sb.toNat
    if size > 8 then .err .overflow
    else if size = 0 then (if negate then .err .negZero else .ok 0 rest)
    else if rest.length < size then .err .eof
    else
      let i := toInt64 (beVal (rest.take size))
      .ok (if negate then toInt64 ((-i) % ((2 ^ 64 : Nat) : Int)).toNat else i) (rest.drop size)

/-- `ReadByteSlice(r, lmt, n, err)`; `n0` = bytes already read by the caller (`*n`).
    Also returns the allocation the call makes. -/
def readByteSlice (lmt n0 : Nat) (inp : Bytes) : R Bytes × Nat :=
  match readVarint inp with
  | .err e => (.err e, 0)
  | .panic => (.panic, 0)
  | .ok len rest =>
    let consumed := inp.length - rest.length
    if len < 0 then (.err .invalidLength, 0)
    else if lmt ≠ 0 ∧ (lmt : Int) < max len ((n0 + consumed : Nat) + len) then (.err .readOverflow, 0)
    else if rest.length < len.toNat then (.err .eof, len.toNat)
    else (.ok (rest.take len.toNat) (rest.drop len.toNat), len.toNat)

/-- `WriteTime`: nanoseconds truncated (toward zero) to a millisecond -/
def writeTime (nanos : Int) : Bytes :=
  let ms := Int.tdiv nanos 1000000
  beBytes 8 ((ms * 1000000) % ((2 ^ 64 : Nat) : Int)).toNat

/-- `ReadTime` -/
def readTime (cfg : Cfg) (inp : Bytes) : R Int :=
  if inp.length < 8 then .err .eof
  else
    let t := toInt64 (beVal (inp.take 8))
    if Int.tmod t 1000000 ≠ 0 then (if cfg.timeErr then .err .subMs else .panic)
    else .ok t (inp.drop 8)

end AnnVerif.WirePrim
