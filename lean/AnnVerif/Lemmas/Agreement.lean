/-
  The abstract agreement theorem of the locking protocol: for ANY number of validators, ANY voting
  powers, ANY Byzantine set holding less than one third, and ANY vote history whose honest part
  obeys (A1) no equivocation, (A2) precommit only on a polka, (A3) prevote the locked block unless
  a polka for something else was seen in an intermediate round — two blocks can never both gather
  more than two thirds of the precommits, in the same or in different rounds.
-/
import AnnVerif.Lemmas.Fairness
namespace AnnVerif.Agreement
open AnnVerif.Fairness
open Classical

variable {Block : Type}

/-- voting power of the validators (positions < N) satisfying `P` -/
noncomputable def pow (N : Nat) (w : Nat → Int) (P : Nat → Prop) : Int :=
  S N (fun j => if P j then w j else 0)

theorem pow_nonneg (N : Nat) (w : Nat → Int) (hw : ∀ j, j < N → 0 ≤ w j) (P : Nat → Prop) :
    0 ≤ pow N w P :=
  S_nonneg N _ (fun j hj => by by_cases h : P j <;> simp [h, hw j hj])

theorem pow_le_total (N : Nat) (w : Nat → Int) (hw : ∀ j, j < N → 0 ≤ w j) (P : Nat → Prop) :
    pow N w P ≤ S N w := by
  have h : S N (fun j => w j - (if P j then w j else 0)) = S N w - pow N w P := by
    have := S_lin N w (fun j => if P j then w j else 0) 1 1
    simp only [Int.one_mul] at this; exact this
  have h2 := S_nonneg N (fun j => w j - (if P j then w j else 0))
    (fun j hj => by by_cases hp : P j <;> simp [hp, hw j hj])
  omega

theorem pow_mono (N : Nat) (w : Nat → Int) (hw : ∀ j, j < N → 0 ≤ w j) (P Q : Nat → Prop)
    (h : ∀ j, P j → Q j) : pow N w P ≤ pow N w Q := by
  have e : S N (fun j => (if Q j then w j else 0) - (if P j then w j else 0)) =
      pow N w Q - pow N w P := by
    have := S_lin N (fun j => if Q j then w j else 0) (fun j => if P j then w j else 0) 1 1
    simp only [Int.one_mul] at this; exact this
  have h2 := S_nonneg N (fun j => (if Q j then w j else 0) - (if P j then w j else 0))
    (fun j hj => by
      by_cases hp : P j
      · simp [hp, h j hp]
      · by_cases hq : Q j <;> simp [hp, hq, hw j hj])
  omega

/-- inclusion–exclusion: two sets that are large together must overlap -/
theorem pow_inter (N : Nat) (w : Nat → Int) (hw : ∀ j, j < N → 0 ≤ w j) (P Q : Nat → Prop) :
    pow N w P + pow N w Q ≤ pow N w (fun j => P j ∧ Q j) + S N w := by
  have h1 : pow N w P + pow N w Q = pow N w (fun j => P j ∧ Q j) + pow N w (fun j => P j ∨ Q j) := by
    unfold pow
    rw [← S_add, ← S_add]
    apply S_congr
    intro j _
    by_cases hp : P j <;> by_cases hq : Q j <;> simp [hp, hq]
  have h2 := pow_le_total N w hw (fun j => P j ∨ Q j)
  omega

theorem pow_diff (N : Nat) (w : Nat → Int) (hw : ∀ j, j < N → 0 ≤ w j) (P F : Nat → Prop) :
    pow N w P ≤ pow N w (fun j => P j ∧ ¬ F j) + pow N w F := by
  have h1 : pow N w P = pow N w (fun j => P j ∧ ¬ F j) + pow N w (fun j => P j ∧ F j) := by
    unfold pow
    rw [← S_add]
    apply S_congr
    intro j _
    by_cases hp : P j <;> by_cases hf : F j <;> simp [hp, hf]
  have h2 : pow N w (fun j => P j ∧ F j) ≤ pow N w F := pow_mono N w hw _ _ (fun j h => h.2)
  omega

theorem exists_of_pow_pos (N : Nat) (w : Nat → Int) (P : Nat → Prop) (h : 0 < pow N w P) :
    ∃ j, j < N ∧ P j := by
  apply Classical.byContradiction
  intro hne
  have : pow N w P ≤ 0 := by
    unfold pow
    apply S_nonpos
    intro j hj
    by_cases hp : P j
    · exact absurd ⟨j, hj, hp⟩ hne
    · simp [hp]
  omega

/-- QUORUM INTERSECTION: two sets each holding more than 2/3 share an HONEST validator when the
    Byzantine set holds less than 1/3. -/
theorem quorum_intersection (N : Nat) (w : Nat → Int) (hw : ∀ j, j < N → 0 ≤ w j)
    (F P Q : Nat → Prop) (hF : 3 * pow N w F < S N w)
    (hP : 3 * pow N w P > 2 * S N w) (hQ : 3 * pow N w Q > 2 * S N w) :
    ∃ j, j < N ∧ P j ∧ Q j ∧ ¬ F j := by
  have h1 := pow_inter N w hw P Q
  have h2 := pow_diff N w hw (fun j => P j ∧ Q j) F
  have h3 : 0 < pow N w (fun j => (P j ∧ Q j) ∧ ¬ F j) := by omega
  obtain ⟨j, hj, ⟨hp, hq⟩, hf⟩ := exists_of_pow_pos N w _ h3
  exact ⟨j, hj, hp, hq, hf⟩

/-- a vote history of one height; `none` is the nil block -/
structure History (Block : Type) where
  prevote : Nat → Nat → Option Block → Prop      -- validator, round, block
  precommit : Nat → Nat → Option Block → Prop

section
variable (N : Nat) (w : Nat → Int) (F : Nat → Prop) (H : History Block)

/-- more than two thirds of the voting power prevoted `x` in round `r` -/
def Polka (r : Nat) (x : Option Block) : Prop :=
  3 * pow N w (fun j => H.prevote j r x) > 2 * S N w

/-- more than two thirds precommitted block `b` in round `r` (what a commit needs) -/
def CommitQuorum (r : Nat) (b : Block) : Prop :=
  3 * pow N w (fun j => H.precommit j r (some b)) > 2 * S N w

/-- the behaviour of honest validators the theorem relies on -/
structure HonestRules : Prop where
  /-- A1 (C03): at most one prevote and one precommit per round -/
  prevote_unique : ∀ j r x y, ¬ F j → H.prevote j r x → H.prevote j r y → x = y
  precommit_unique : ∀ j r x y, ¬ F j → H.precommit j r x → H.precommit j r y → x = y
  /-- A2 (C04 L1): a block is precommitted only in a round that has a polka for it -/
  precommit_polka : ∀ j r b, ¬ F j → H.precommit j r (some b) → Polka N w H r (some b)
  /-- A3 (C04 L2): after precommitting `b` in round `r`, a later prevote for something else needs
      a polka for something else in a round strictly between -/
  lock : ∀ j r b r' x, ¬ F j → H.precommit j r (some b) → r < r' → H.prevote j r' x → x ≠ some b →
    ∃ r'' y, r < r'' ∧ r'' < r' ∧ y ≠ some b ∧ Polka N w H r'' y

/-- once `b` has a commit quorum in round `r`, no later round has a polka for anything else -/
theorem no_later_polka (hw : ∀ j, j < N → 0 ≤ w j) (hF : 3 * pow N w F < S N w)
    (rules : HonestRules N w F H) (r : Nat) (b : Block) (hq : CommitQuorum N w H r b) :
    ∀ r' : Nat, r < r' → ∀ y, y ≠ some b → ¬ Polka N w H r' y := by
  intro r'
  induction r' using Nat.strongRecOn with
  | _ r' ih =>
    intro hlt y hy hpolka
    obtain ⟨j, _, hpc, hpv, hf⟩ :=
      quorum_intersection N w hw F _ _ hF hq hpolka
    obtain ⟨r'', z, h1, h2, hz, hp⟩ := rules.lock j r b r' y hf hpc hlt hpv hy
    exact ih r'' h2 h1 z hz hp

/-- AGREEMENT (one height): two commit quorums, in the same or in different rounds, are for the
    same block. -/
theorem agreement (hw : ∀ j, j < N → 0 ≤ w j) (hF : 3 * pow N w F < S N w)
    (rules : HonestRules N w F H) (r r' : Nat) (b b' : Block)
    (hq : CommitQuorum N w H r b) (hq' : CommitQuorum N w H r' b') : b = b' := by
  -- an honest member of each quorum
  have hTpos : 0 < S N w := by
    have := pow_nonneg N w hw F; omega
  rcases Nat.lt_trichotomy r r' with hlt | heq | hgt
  · -- r < r': the honest precommitters of b' at r' saw a polka for b' at r'
    obtain ⟨j, _, hpc', _, hf⟩ := quorum_intersection N w hw F _ _ hF hq' hq'
    have hp := rules.precommit_polka j r' b' hf hpc'
    by_cases hbb : (some b' : Option Block) = some b
    · injection hbb with h; exact h.symm
    · exact absurd hp (no_later_polka N w F H hw hF rules r b hq r' hlt (some b') hbb)
  · subst heq
    obtain ⟨j, _, hpc, hpc', hf⟩ := quorum_intersection N w hw F _ _ hF hq hq'
    have := rules.precommit_unique j r _ _ hf hpc hpc'
    injection this
  · obtain ⟨j, _, hpc, _, hf⟩ := quorum_intersection N w hw F _ _ hF hq hq
    have hp := rules.precommit_polka j r b hf hpc
    by_cases hbb : (some b : Option Block) = some b'
    · injection hbb
    · exact absurd hp (no_later_polka N w F H hw hF rules r' b' hq' r hgt (some b) hbb)

end
end AnnVerif.Agreement
