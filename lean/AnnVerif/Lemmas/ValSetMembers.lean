import AnnVerif.Model.ValSet
namespace AnnVerif.ValSet

/-! ### `bytes.Compare` is a strict total order -/

theorem bytesLt_irrefl : ∀ a : Bytes, bytesLt a a = false := by
  intro a; induction a with
  | nil => rfl
  | cons x t ih => simp [bytesLt, ih]

theorem bytesLt_trans : ∀ a b c : Bytes, bytesLt a b = true → bytesLt b c = true → bytesLt a c = true := by
  intro a
  induction a with
  | nil =>
    intro b c hab hbc
    cases b with
    | nil => simp [bytesLt] at hab
    | cons y bs => cases c with
      | nil => simp [bytesLt] at hbc
      | cons z cs => rfl
  | cons x as ih =>
    intro b c hab hbc
    cases b with
    | nil => simp [bytesLt] at hab
    | cons y bs =>
      cases c with
      | nil => simp [bytesLt] at hbc
      | cons z cs =>
        simp only [bytesLt] at hab hbc ⊢
        by_cases hxy : x < y
        · by_cases hyz : y < z
          · have : x < z := UInt8.lt_trans hxy hyz
            simp [this]
          · simp only [hyz, if_false] at hbc
            by_cases hzy : z < y
            · simp [hzy] at hbc
            · have : y = z := UInt8.le_antisymm (UInt8.not_lt.mp hzy) (UInt8.not_lt.mp hyz)
              subst this; simp [hxy]
        · simp only [hxy, if_false] at hab
          by_cases hyx : y < x
          · simp [hyx] at hab
          · have hxy' : x = y := UInt8.le_antisymm (UInt8.not_lt.mp hyx) (UInt8.not_lt.mp hxy)
            subst hxy'
            simp only [hyx, if_false] at hab
            by_cases hxz : x < z
            · simp [hxz]
            · simp only [hxz, if_false] at hbc ⊢
              by_cases hzx : z < x
              · simp [hzx] at hbc
              · simp only [hzx, if_false] at hbc ⊢
                exact ih bs cs hab hbc

theorem bytesLt_trichotomy : ∀ a b : Bytes, bytesLt a b = false → a ≠ b → bytesLt b a = true := by
  intro a
  induction a with
  | nil => intro b h hne; cases b with
    | nil => exact absurd rfl hne
    | cons _ _ => simp [bytesLt] at h
  | cons x as ih =>
    intro b h hne
    cases b with
    | nil => rfl
    | cons y bs =>
      simp only [bytesLt] at h ⊢
      by_cases hxy : x < y
      · simp [hxy] at h
      · simp only [hxy, if_false] at h
        by_cases hyx : y < x
        · simp [hyx]
        · simp only [hyx, if_false] at h ⊢
          have hxy' : x = y := UInt8.le_antisymm (UInt8.not_lt.mp hyx) (UInt8.not_lt.mp hxy)
          subst hxy'
          simp only [hyx, if_false]
          exact ih bs h (fun e => hne (by rw [e]))

theorem bytesLt_asymm (a b : Bytes) (h : bytesLt a b = true) : bytesLt b a = false := by
  cases hb : bytesLt b a with
  | false => rfl
  | true => have := bytesLt_trans a b a h hb; rw [bytesLt_irrefl] at this; exact absurd this (by simp)

/-! ### sortedness -/

/-- strictly increasing addresses: sorted AND duplicate-free -/
def Sorted : List Val → Prop
  | [] => True
  | [_] => True
  | a :: b :: t => bytesLt a.addr b.addr = true ∧ Sorted (b :: t)

theorem Sorted.tail {a : Val} {t : List Val} (h : Sorted (a :: t)) : Sorted t := by
  cases t with
  | nil => trivial
  | cons b t' => exact h.2

/-- in a sorted list the head is below everything after it -/
theorem Sorted.head_lt {a : Val} {t : List Val} (h : Sorted (a :: t)) :
    ∀ b ∈ t, bytesLt a.addr b.addr = true := by
  induction t generalizing a with
  | nil => intro b hb; simp at hb
  | cons c t' ih =>
    intro b hb
    simp at hb
    rcases hb with rfl | hb
    · exact h.1
    · exact bytesLt_trans _ _ _ h.1 (ih h.2 b hb)

theorem sorted_cons {a : Val} {t : List Val} (ht : Sorted t)
    (h : ∀ b ∈ t, bytesLt a.addr b.addr = true) : Sorted (a :: t) := by
  cases t with
  | nil => trivial
  | cons b t' => exact ⟨h b (by simp), ht⟩

/-- `insertAt`: what `Add` builds — the prefix below `v`, then `v`, then the rest -/
def insertAddr (v : Val) : List Val → List Val
  | [] => [v]
  | w :: t => if bytesLt w.addr v.addr then w :: insertAddr v t else v :: w :: t

theorem insertAddr_eq (v : Val) (l : List Val) :
    insertAddr v l = l.take (searchIdx l v.addr) ++ [v] ++ l.drop (searchIdx l v.addr) := by
  induction l with
  | nil => simp [insertAddr, searchIdx]
  | cons w t ih =>
    unfold insertAddr searchIdx
    by_cases h : bytesLt w.addr v.addr = true
    · simp only [h, if_true, List.takeWhile_cons, List.length_cons, List.take_succ_cons,
        List.drop_succ_cons, List.cons_append]
      rw [ih]; simp [searchIdx]
    · simp [h, List.takeWhile_cons]

theorem insertAddr_mem (v : Val) (l : List Val) : ∀ b ∈ insertAddr v l, b = v ∨ b ∈ l := by
  induction l with
  | nil => intro b hb; simp [insertAddr] at hb; exact Or.inl hb
  | cons w t ih =>
    intro b hb
    unfold insertAddr at hb
    split at hb
    · simp at hb
      rcases hb with rfl | hb
      · exact Or.inr (by simp)
      · rcases ih b hb with h | h
        · exact Or.inl h
        · exact Or.inr (by simp [h])
    · simp at hb
      rcases hb with rfl | rfl | hb
      · exact Or.inl rfl
      · exact Or.inr (by simp)
      · exact Or.inr (by simp [hb])

theorem insertAddr_sorted (v : Val) (l : List Val) (hs : Sorted l)
    (hnew : ∀ b ∈ l, b.addr ≠ v.addr) : Sorted (insertAddr v l) := by
  induction l with
  | nil => trivial
  | cons w t ih =>
    unfold insertAddr
    by_cases h : bytesLt w.addr v.addr = true
    · simp only [h, if_true]
      apply sorted_cons (ih hs.tail (fun b hb => hnew b (by simp [hb])))
      intro b hb
      rcases insertAddr_mem v t b hb with rfl | hb'
      · exact h
      · exact hs.head_lt b hb'
    · simp only [h, if_false]
      have hvw : bytesLt v.addr w.addr = true :=
        bytesLt_trichotomy w.addr v.addr (by simpa using h) (hnew w (by simp))
      exact ⟨hvw, hs⟩

theorem searchIdx_cons (x : Val) (t : List Val) (a : Bytes) :
    searchIdx (x :: t) a = if bytesLt x.addr a then searchIdx t a + 1 else 0 := by
  unfold searchIdx
  by_cases h : bytesLt x.addr a = true <;> simp [List.takeWhile_cons, h]

/-- `sort.Search` ran off the end: every address is below `a` -/
theorem search_none (l : List Val) (a : Bytes) (h : l[searchIdx l a]? = none) :
    ∀ b ∈ l, bytesLt b.addr a = true := by
  induction l with
  | nil => intro b hb; simp at hb
  | cons x t ih =>
    rw [searchIdx_cons] at h
    by_cases hx : bytesLt x.addr a = true
    · simp only [hx, if_true, List.getElem?_cons_succ] at h
      intro b hb; simp at hb
      rcases hb with rfl | hb
      · exact hx
      · exact ih h b hb
    · simp [hx] at h

/-- `sort.Search` stopped at `w` whose address is not `a`: nobody in the sorted list has address `a` -/
theorem search_some_ne (l : List Val) (hs : Sorted l) (a : Bytes) (w : Val)
    (h : l[searchIdx l a]? = some w) (hne : w.addr ≠ a) : ∀ b ∈ l, b.addr ≠ a := by
  induction l with
  | nil => intro b hb; simp at hb
  | cons x t ih =>
    rw [searchIdx_cons] at h
    by_cases hx : bytesLt x.addr a = true
    · simp only [hx, if_true, List.getElem?_cons_succ] at h
      intro b hb; simp at hb
      rcases hb with rfl | hb
      · intro e; rw [e, bytesLt_irrefl] at hx; exact absurd hx (by simp)
      · exact ih hs.tail h b hb
    · have hx' : bytesLt x.addr a = false := by simpa using hx
      simp only [hx', Bool.false_eq_true, if_false, List.getElem?_cons_zero, Option.some.injEq] at h
      subst h
      have hax : bytesLt a x.addr = true := bytesLt_trichotomy x.addr a (by simpa using hx) hne
      intro b hb; simp at hb
      rcases hb with rfl | hb
      · exact hne
      · intro e
        have := bytesLt_trans _ _ _ hax (hs.head_lt b hb)
        rw [e, bytesLt_irrefl] at this; exact absurd this (by simp)

/-- `sort.Search` stopped at `w`: it is a member -/
theorem search_some_mem (l : List Val) (a : Bytes) (w : Val) (h : l[searchIdx l a]? = some w) :
    w ∈ l := List.mem_of_getElem? h

theorem sorted_eraseIdx (l : List Val) (i : Nat) (hs : Sorted l) : Sorted (l.eraseIdx i) := by
  induction l generalizing i with
  | nil => simp [List.eraseIdx]; trivial
  | cons w t ih =>
    cases i with
    | zero => simpa [List.eraseIdx] using hs.tail
    | succ j =>
      simp only [List.eraseIdx]
      apply sorted_cons (ih j hs.tail)
      intro b hb
      exact hs.head_lt b (List.mem_of_mem_eraseIdx hb)

theorem sorted_set_same_addr (l : List Val) (i : Nat) (v w : Val) (hs : Sorted l)
    (hw : l[i]? = some w) (ha : w.addr = v.addr) : Sorted (l.set i v) := by
  induction l generalizing i with
  | nil => simp at hw
  | cons x t ih =>
    cases i with
    | zero =>
      simp at hw; subst hw
      simp only [List.set_cons_zero]
      apply sorted_cons hs.tail
      intro b hb; rw [← ha]; exact hs.head_lt b hb
    | succ j =>
      simp at hw
      simp only [List.set_cons_succ]
      apply sorted_cons (ih j hs.tail hw)
      intro b hb
      rcases List.mem_or_eq_of_mem_set hb with h | h
      · exact hs.head_lt b h
      · subst h; rw [← ha]; exact hs.head_lt w (List.mem_of_getElem? hw)

/-- C16: `Add`, `Update`, `Remove` keep the set strictly sorted by address (hence duplicate-free),
    and reset both caches whenever they change the set. -/
theorem add_sorted (vs : ValSet) (v : Val) (hs : Sorted vs.vals) : Sorted (add vs v).1.vals := by
  unfold add
  simp only
  split
  · -- appended at the end
    rename_i hnone
    have hall := search_none vs.vals v.addr hnone
    have hlen : vs.vals.length ≤ searchIdx vs.vals v.addr := by
      simpa [List.getElem?_eq_none_iff] using hnone
    have : vs.vals ++ [v] = insertAddr v vs.vals := by
      rw [insertAddr_eq, List.take_of_length_le hlen, List.drop_eq_nil_of_le hlen]; simp
    simp only [this]
    apply insertAddr_sorted v vs.vals hs
    intro b hb heq'
    have := hall b hb
    rw [heq', bytesLt_irrefl] at this; exact absurd this (by simp)
  · rename_i w hw
    split
    · exact hs
    · rename_i hne
      simp only
      rw [← insertAddr_eq]
      exact insertAddr_sorted v vs.vals hs (search_some_ne vs.vals hs v.addr w hw hne)

theorem update_sorted (vs : ValSet) (v : Val) (hs : Sorted vs.vals) : Sorted (update vs v).1.vals := by
  unfold update
  simp only
  split
  · rename_i w hw
    split
    · rename_i ha; exact sorted_set_same_addr _ _ v w hs hw ha
    · exact hs
  · exact hs

theorem remove_sorted (vs : ValSet) (a : Bytes) (hs : Sorted vs.vals) : Sorted (remove vs a).1.vals := by
  unfold remove
  simp only
  split
  · split
    · exact sorted_eraseIdx _ _ hs
    · exact hs
  · exact hs

/-- the cached total is either unset (0) or the true sum -/
def CacheOK (vs : ValSet) : Prop := vs.total = 0 ∨ vs.total = sumPower vs.vals

theorem add_cacheOK (vs : ValSet) (v : Val) (h : CacheOK vs) : CacheOK (add vs v).1 := by
  unfold add; simp only
  split
  · exact Or.inl rfl
  · split
    · exact h
    · exact Or.inl rfl

theorem update_cacheOK (vs : ValSet) (v : Val) (h : CacheOK vs) : CacheOK (update vs v).1 := by
  unfold update; simp only
  split
  · split
    · exact Or.inl rfl
    · exact h
  · exact h

theorem remove_cacheOK (vs : ValSet) (a : Bytes) (h : CacheOK vs) : CacheOK (remove vs a).1 := by
  unfold remove; simp only
  split
  · split
    · exact Or.inl rfl
    · exact h
  · exact h

/-- `TotalVotingPower()` always returns the true sum when the cache is consistent (and a zero
    total is simply recomputed every time) -/
theorem totalVotingPower_correct (vs : ValSet) (h : CacheOK vs) :
    (totalVotingPower vs).2 = sumPower vs.vals ∧ CacheOK (totalVotingPower vs).1 := by
  unfold totalVotingPower
  rcases h with h | h
  · simp [h, CacheOK]
  · by_cases h0 : vs.total = 0
    · simp [h0, CacheOK]
    · have h0' : ¬ sumPower vs.vals = 0 := h ▸ h0
      simp [h, h0', CacheOK]

end AnnVerif.ValSet
