/-
  Proof of lock, over every run: whenever the node holds a lock, its own prevote set of the round
  the lock was taken (or last renewed) in reports +2/3 for the locked block. A lock is only ever
  taken or renewed by `enterPrecommit` on exactly that majority, a reported majority is never
  withdrawn (Lemmas/NodeJust.lean: `Ext.stable`), and the lock is dropped when the height moves on.
-/
import AnnVerif.Lemmas.NodeJust

namespace AnnVerif.Node

def LJ (n : Node) : Prop :=
  ∀ b, n.lockedBlock = some b → ∃ bid, maj23 (prevotes n n.lockedRound) = some bid ∧ bid.hash = b

/-- `n'` is at `n`'s height and holds `n`'s lock -/
structure Kept (n n' : Node) : Prop where
  h : n'.height = n.height
  lb : n'.lockedBlock = n.lockedBlock
  lr : n'.lockedRound = n.lockedRound

theorem Kept.rfl' (n : Node) : Kept n n := ⟨rfl, rfl, rfl⟩
theorem Kept.trans {a b c : Node} (x : Kept a b) (y : Kept b c) : Kept a c :=
  ⟨y.h.trans x.h, y.lb.trans x.lb, y.lr.trans x.lr⟩

theorem LJ.keep {n n' : Node} (l : LJ n) (e : Ext n n') (k : Kept n n') : LJ n' := by
  intro b hb
  rw [k.lb] at hb
  obtain ⟨bid, hm, hh⟩ := l b hb
  exact ⟨bid, by rw [k.lr]; exact e.stable k.h _ _ hm, hh⟩

theorem LJ.of_none {n : Node} (h : n.lockedBlock = none) : LJ n := by
  intro b hb; rw [h] at hb; cases hb

theorem kept_emit (n : Node) (e : Emit) : Kept n (emit n e) := ⟨rfl, rfl, rfl⟩

theorem kept_signAddVote (n : Node) (t : Nat) (bid : VoteSet.BlockID) : Kept n (signAddVote n t bid) := by
  unfold signAddVote
  split
  · dsimp only
    split <;> exact ⟨rfl, rfl, rfl⟩
  · exact Kept.rfl' n

theorem kept_doPrevote (n : Node) : Kept n (doPrevote n) := by
  unfold doPrevote
  split
  · exact kept_signAddVote _ _ _
  · split
    · exact kept_signAddVote _ _ _
    · split <;> exact kept_signAddVote _ _ _

theorem kept_enterPrevote (n : Node) (h r : Int) : Kept n (enterPrevote n h r) := by
  unfold enterPrevote
  split
  · exact Kept.rfl' n
  · exact (kept_doPrevote n).trans ⟨rfl, rfl, rfl⟩

theorem kept_enterPrevoteWait (n : Node) (h r : Int) : Kept n (enterPrevoteWait n h r) := by
  unfold enterPrevoteWait
  split
  · exact Kept.rfl' n
  · split <;> exact ⟨rfl, rfl, rfl⟩

theorem kept_enterPrecommitWait (n : Node) (h r : Int) : Kept n (enterPrecommitWait n h r) := by
  unfold enterPrecommitWait
  split
  · exact Kept.rfl' n
  · split <;> exact ⟨rfl, rfl, rfl⟩

theorem kept_decideProposal (n : Node) (h r : Int) : Kept n (decideProposal n h r) := by
  unfold decideProposal
  extract_lets own block pol p res m
  have hm : Kept n m := by
    unfold m
    split <;> exact ⟨rfl, rfl, rfl⟩
  split
  · split
    · exact hm.trans ⟨rfl, rfl, rfl⟩
    · exact ⟨rfl, rfl, rfl⟩
  · exact ⟨rfl, rfl, rfl⟩

theorem kept_setRound (n : Node) (r : Int) : Kept n (setRound n r) := by
  unfold setRound
  split <;> exact ⟨rfl, rfl, rfl⟩

theorem kept_enterPropose (n : Node) (h r : Int) : Kept n (enterPropose n h r) := by
  unfold enterPropose
  split
  · exact Kept.rfl' n
  · extract_lets n1 n2 n3
    have s1 : Kept n n1 := kept_emit _ _
    have s2 : Kept n n2 := by
      unfold n2
      split
      · split
        · exact s1.trans (kept_decideProposal _ _ _)
        · exact s1
      · exact s1
    have s3 : Kept n n3 := s2.trans ⟨rfl, rfl, rfl⟩
    split
    · exact s3.trans (kept_enterPrevote _ _ _)
    · exact s3

theorem kept_enterNewRound (n : Node) (h r : Int) : Kept n (enterNewRound n h r) := by
  unfold enterNewRound
  split
  · exact Kept.rfl' n
  · extract_lets vals n1 n2 n3
    have s1 : Kept n n1 := ⟨rfl, rfl, rfl⟩
    have s2 : Kept n1 n2 := by
      unfold n2
      split <;> exact ⟨rfl, rfl, rfl⟩
    exact ((s1.trans s2).trans (kept_setRound _ _)).trans (kept_enterPropose _ _ _)

theorem lj_enterNewRound (n : Node) (h r : Int) (l : LJ n) : LJ (enterNewRound n h r) :=
  l.keep (ext_enterNewRound n h r) (kept_enterNewRound n h r)

theorem lj_enterPrevote (n : Node) (h r : Int) (l : LJ n) : LJ (enterPrevote n h r) :=
  l.keep (ext_enterPrevote n h r) (kept_enterPrevote n h r)

theorem hashesTo_eq {blk : Option Name} {h : Bytes} (hh : hashesTo blk h = true) : blk = some h := by
  unfold hashesTo at hh
  split at hh
  · rename_i b
    simp at hh
    rw [hh.2]
  · simp at hh

/-- the one place where a lock is taken, renewed or released on a polka -/
theorem lj_enterPrecommit (n : Node) (h r : Int) (l : LJ n) : LJ (enterPrecommit n h r) := by
  unfold enterPrecommit
  split
  · exact l
  · extract_lets fin
    -- `fin` and `signAddVote` keep lock, height and vote sets
    have keep : ∀ (m : Node) (t : Nat) (bid : VoteSet.BlockID), LJ m → LJ (fin (signAddVote m t bid)) := by
      intro m t bid lm
      intro b hb
      have k := kept_signAddVote m t bid
      have hb' : m.lockedBlock = some b := by rw [← k.lb]; exact hb
      obtain ⟨bid', hm, hh⟩ := lm b hb'
      refine ⟨bid', ?_, hh⟩
      show maj23 (prevotes (signAddVote m t bid) (signAddVote m t bid).lockedRound) = some bid'
      rw [k.lr]
      have hr : (signAddVote m t bid).rounds = m.rounds := by
        unfold signAddVote
        split
        · dsimp only
          split <;> rfl
        · rfl
      rw [prevotes_congr hr]; exact hm
    split
    · exact keep _ _ _ l
    · rename_i blockID hm
      split
      · exact l.keep (Ext.frame rfl rfl rfl) ⟨rfl, rfl, rfl⟩
      · split
        · apply keep
          split
          · exact LJ.of_none rfl
          · exact l
        · split
          · -- relock: the locked block has the majority of round r
            rename_i hlk
            apply keep
            intro b hb
            have : n.lockedBlock = some blockID.hash := hashesTo_eq hlk
            have hb' : n.lockedBlock = some b := hb
            rw [this] at hb'
            cases hb'
            exact ⟨blockID, hm, rfl⟩
          · split
            · rename_i hpb
              split
              · exact l.keep (Ext.frame rfl rfl rfl) ⟨rfl, rfl, rfl⟩
              · -- lock the proposal block, which has the majority of round r
                apply keep
                intro b hb
                have : n.proposalBlock = some blockID.hash := hashesTo_eq hpb
                have hb' : n.proposalBlock = some b := hb
                rw [this] at hb'
                cases hb'
                exact ⟨blockID, hm, rfl⟩
            · apply keep
              split
              · exact LJ.of_none rfl
              · exact LJ.of_none rfl

theorem lj_finalizeCommit (n : Node) (h : Int) (l : LJ n) : LJ (finalizeCommit n h) := by
  unfold finalizeCommit
  split
  · exact l
  · split
    · split
      · exact l.keep (ext_emit _ _) (kept_emit _ _)
      · split
        · exact l.keep (ext_emit _ _) (kept_emit _ _)
        · split
          · exact l.keep (ext_emit _ _) (kept_emit _ _)
          · split
            · exact l.keep (ext_emit _ _) (kept_emit _ _)
            · exact LJ.of_none rfl
    · exact l.keep (ext_emit _ _) (kept_emit _ _)

theorem lj_tryFinalizeCommit (n : Node) (h : Int) (l : LJ n) : LJ (tryFinalizeCommit n h) := by
  unfold tryFinalizeCommit
  split
  · exact l.keep (ext_emit _ _) (kept_emit _ _)
  · split
    · exact l
    · split
      · exact l
      · split
        · exact l
        · exact lj_finalizeCommit _ _ l

theorem lj_enterCommit (n : Node) (h cr : Int) (l : LJ n) : LJ (enterCommit n h cr) := by
  unfold enterCommit
  split
  · exact l
  · split
    · exact l.keep (ext_emit _ _) (kept_emit _ _)
    · extract_lets n1 n2 n3
      have l1 : LJ n1 := by
        unfold n1
        split
        · exact l.keep (Ext.frame rfl rfl rfl) ⟨rfl, rfl, rfl⟩
        · exact l
      have l2 : LJ n2 := by
        unfold n2
        split
        · exact l1.keep (Ext.frame rfl rfl rfl) ⟨rfl, rfl, rfl⟩
        · exact l1
      have l3 : LJ n3 := l2.keep (Ext.frame rfl rfl rfl) ⟨rfl, rfl, rfl⟩
      exact lj_tryFinalizeCommit _ _ l3

theorem lj_setProposal (n : Node) (p : Proposal) (signer : Nat) (bad : Bool) (l : LJ n) :
    LJ (setProposal n p signer bad) := by
  unfold setProposal
  split
  · exact l
  · split
    · exact l
    · split
      · exact l
      · split
        · exact l
        · split
          · exact l
          · split <;> exact l.keep (Ext.frame rfl rfl rfl) ⟨rfl, rfl, rfl⟩

theorem lj_addParts (n : Node) (height : Int) (block : Name) (own : Bool) (l : LJ n) :
    LJ (addParts n height block own) := by
  unfold addParts
  split
  · exact l
  · split
    · exact l
    · split
      · exact l
      · split
        · exact l
        · extract_lets m
          have lm : LJ m := l.keep (Ext.frame rfl rfl rfl) ⟨rfl, rfl, rfl⟩
          split
          · exact lj_enterPrevote _ _ _ lm
          · split
            · exact lj_tryFinalizeCommit _ _ lm
            · exact lm

theorem kept_hvsAddVote (n : Node) (v : VoteSet.Vote) (sigok : Bool) (peer : String) :
    Kept n (hvsAddVote n v sigok peer).1 := by
  unfold hvsAddVote
  split
  · exact Kept.rfl' n
  · split
    rename_i n' known heq
    have s : Kept n n' := by
      split at heq
      · cases heq; exact Kept.rfl' n
      · dsimp only at heq
        split at heq
        · cases heq; exact ⟨rfl, rfl, rfl⟩
        · cases heq; exact Kept.rfl' n
    split
    · exact s
    · split
      · exact s
      · exact s.trans ⟨rfl, rfl, rfl⟩

theorem lj_addVote (n : Node) (v : VoteSet.Vote) (sigok : Bool) (peer : String) (l : LJ n) :
    LJ (addVote n v sigok peer) := by
  unfold addVote
  split
  · split
    · exact l
    · split
      · split
        · exact l
        · exact l.keep (ext_emit _ _) (kept_emit _ _)
      · split
        dsimp only
        split
        · apply lj_enterNewRound
          exact l.keep (Ext.frame rfl rfl rfl) ⟨rfl, rfl, rfl⟩
        · exact l.keep (Ext.frame rfl rfl rfl) ⟨rfl, rfl, rfl⟩
  · split
    · have l0 : LJ (hvsAddVote n v sigok peer).1 := l.keep (ext_hvsAddVote _ _ _ _) (kept_hvsAddVote _ _ _ _)
      generalize hvsAddVote n v sigok peer = res at l0 ⊢
      obtain ⟨m, o⟩ := res
      dsimp only at l0 ⊢
      split
      · exact l0
      · split
        · have l1 : LJ (if m.lockedBlock.isSome = true ∧ m.lockedRound < v.round ∧ v.round ≤ m.round then
              match maj23 (prevotes m v.round) with
              | some b => if (!hashesTo m.lockedBlock b.hash) = true then unlock m else m
              | none => m
            else m) := by
            split
            · split
              · split
                · exact LJ.of_none rfl
                · exact l0
              · exact l0
            · exact l0
          generalize (if m.lockedBlock.isSome = true ∧ m.lockedRound < v.round ∧ v.round ≤ m.round then
              match maj23 (prevotes m v.round) with
              | some b => if (!hashesTo m.lockedBlock b.hash) = true then unlock m else m
              | none => m
            else m) = m1 at l1 ⊢
          split
          · split
            · exact lj_enterPrecommit _ _ _ (lj_enterNewRound _ _ _ l1)
            · exact ((lj_enterPrevote _ _ _ (lj_enterNewRound _ _ _ l1))).keep (ext_enterPrevoteWait _ _ _) (kept_enterPrevoteWait _ _ _)
          · split
            · split
              · exact lj_enterPrevote _ _ _ l1
              · exact l1
            · exact l1
        · split
          · split
            · exact lj_enterNewRound _ _ _ l0
            · have lc := lj_enterCommit _ n.height v.round
                (lj_enterPrecommit _ n.height v.round (lj_enterNewRound m n.height v.round l0))
              split
              · exact lj_enterNewRound _ _ _ lc
              · exact lc
          · split
            · exact (lj_enterPrecommit _ _ _ (lj_enterNewRound _ _ _ l0)).keep (ext_enterPrecommitWait _ _ _) (kept_enterPrecommitWait _ _ _)
            · exact l0
    · exact l

theorem lj_handleTimeout (n : Node) (h r : Int) (s : Step) (l : LJ n) : LJ (handleTimeout n h r s) := by
  unfold handleTimeout
  split
  · exact l
  · split
    · exact lj_enterNewRound _ _ _ l
    · exact lj_enterPrevote _ _ _ l
    · exact lj_enterPrecommit _ _ _ l
    · exact lj_enterNewRound _ _ _ l
    · exact l.keep (ext_emit _ _) (kept_emit _ _)

theorem lj_handleMsg (n : Node) (m : Msg) (peer : String) (l : LJ n) : LJ (handleMsg n m peer) := by
  unfold handleMsg
  split
  · exact lj_setProposal _ _ _ _ l
  · exact lj_addParts _ _ _ _ l
  · exact lj_addVote _ _ _ _ l

theorem kept_setPeerMaj23 (n : Node) (height round : Int) (type : Nat) (peer : String) (bid : VoteSet.BlockID) :
    Kept n (setPeerMaj23 n height round type peer bid) := by
  unfold setPeerMaj23
  split
  · exact Kept.rfl' n
  · split
    · exact Kept.rfl' n
    · split <;> exact ⟨rfl, rfl, rfl⟩

theorem lj_stepIn (n : Node) (i : In) (l : LJ n) : LJ (stepIn n i) := by
  cases i with
  | msg m peer => exact lj_handleMsg _ _ _ l
  | own =>
    show LJ (match n.queue with | [] => n | m :: rest => handleMsg { n with queue := rest } m "")
    split
    · exact l
    · apply lj_handleMsg
      intro b hb
      exact l b hb
  | timeout h r s => exact lj_handleTimeout _ _ _ _ l
  | maj23 h r t peer bid => exact l.keep (ext_setPeerMaj23 _ _ _ _ _ _) (kept_setPeerMaj23 _ _ _ _ _ _)

theorem lj_run (ins : List In) : ∀ n : Node, LJ n → LJ (ins.foldl stepIn n) := by
  induction ins with
  | nil => intro n l; exact l
  | cons i rest ih => intro n l; exact ih _ (lj_stepIn n i l)

theorem init_lj (cfg : Cfg) (height : Int) (vals : ValSet.ValSet) (me : Option Nat) (skip : Bool) :
    LJ (init cfg height vals me skip) := LJ.of_none rfl

end AnnVerif.Node
