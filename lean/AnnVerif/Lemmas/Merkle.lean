import AnnVerif.Model.Merkle
namespace AnnVerif.Merkle

variable (N : Bytes → Bytes → Bytes)

/-- an explicit collision of the two-hash combiner -/
def CollisionN : Prop := ∃ a b c d : Bytes, (a, b) ≠ (c, d) ∧ N a b = N c d

theorem root_cons2 (a b : Bytes) (t : List Bytes) :
    root N (a :: b :: t) =
      combine N (root N ((a :: b :: t).take (((a :: b :: t).length + 1) / 2)))
             (root N ((a :: b :: t).drop (((a :: b :: t).length + 1) / 2))) := by
  rw [root]

theorem aunts_cons2 (a b : Bytes) (t : List Bytes) (i : Nat) :
    aunts N (a :: b :: t) i =
      (if i < ((a :: b :: t).length + 1) / 2 then
        aunts N ((a :: b :: t).take (((a :: b :: t).length + 1) / 2)) i ++
          (root N ((a :: b :: t).drop (((a :: b :: t).length + 1) / 2))).toList
      else
        aunts N ((a :: b :: t).drop (((a :: b :: t).length + 1) / 2))
            (i - ((a :: b :: t).length + 1) / 2) ++
          (root N ((a :: b :: t).take (((a :: b :: t).length + 1) / 2))).toList) := by
  rw [aunts]

/-- the root of a non-empty list exists -/
theorem root_isSome : ∀ (n : Nat) (hs : List Bytes), hs.length = n → hs ≠ [] →
    ∃ r, root N hs = some r := by
  intro n
  induction n using Nat.strongRecOn with
  | _ n ih =>
    intro hs hlen hne
    match hs, hne with
    | [h], _ => exact ⟨h, by simp [root]⟩
    | a :: b :: t, _ =>
      rw [root_cons2]
      have hk1 : ((a :: b :: t).take (((a :: b :: t).length + 1) / 2)).length < n := by
        simp only [List.length_take, List.length_cons] at *; omega
      have hk2 : ((a :: b :: t).drop (((a :: b :: t).length + 1) / 2)).length < n := by
        simp only [List.length_drop, List.length_cons] at *; omega
      have hne1 : (a :: b :: t).take (((a :: b :: t).length + 1) / 2) ≠ [] := by
        intro h; have := congrArg List.length h
        simp only [List.length_take, List.length_cons, List.length_nil] at this; omega
      have hne2 : (a :: b :: t).drop (((a :: b :: t).length + 1) / 2) ≠ [] := by
        intro h; have := congrArg List.length h
        simp only [List.length_drop, List.length_cons, List.length_nil] at this; omega
      obtain ⟨l, hl⟩ := ih _ hk1 _ rfl hne1
      obtain ⟨r, hr⟩ := ih _ hk2 _ rfl hne2
      exact ⟨N l r, by rw [hl, hr]; rfl⟩


theorem root_split (hs : List Bytes) (h : 2 ≤ hs.length) :
    root N hs = combine N (root N (hs.take ((hs.length + 1) / 2)))
                          (root N (hs.drop ((hs.length + 1) / 2))) := by
  match hs, h with
  | a :: b :: t, _ => exact root_cons2 N a b t

theorem aunts_split (hs : List Bytes) (i : Nat) (h : 2 ≤ hs.length) :
    aunts N hs i =
      (if i < (hs.length + 1) / 2 then
        aunts N (hs.take ((hs.length + 1) / 2)) i ++ (root N (hs.drop ((hs.length + 1) / 2))).toList
      else
        aunts N (hs.drop ((hs.length + 1) / 2)) (i - (hs.length + 1) / 2) ++
          (root N (hs.take ((hs.length + 1) / 2))).toList) := by
  match hs, h with
  | a :: b :: t, _ => exact aunts_cons2 N a b t i

theorem tdiv_half (n : Nat) : Int.tdiv ((n : Int) + 1) 2 = (((n + 1) / 2 : Nat) : Int) := by
  rw [Int.tdiv_eq_ediv_of_nonneg (by omega)]; omega

/-- unfolding of `computeRev` for `total ≥ 2`, in-range index, aunt list `a :: rest` -/
theorem computeRev_step (cfg : Cfg) (i n : Nat) (leaf a : Bytes) (rest : List Bytes)
    (hn : 2 ≤ n) (hi : i < n) :
    computeRev N cfg (i : Int) (n : Int) leaf (a :: rest) =
      (if i < (n + 1) / 2 then
        liftL N a (computeRev N cfg (i : Int) (((n + 1) / 2 : Nat) : Int) leaf rest)
      else
        liftR N a (computeRev N cfg ((i - (n + 1) / 2 : Nat) : Int) ((n - (n + 1) / 2 : Nat) : Int) leaf rest)) := by
  rw [computeRev]
  have h1 : ¬ ((cfg.checkNeg && decide ((i : Int) < 0)) || decide ((i : Int) ≥ (n : Int))) = true := by
    simp; omega
  have h2 : ¬ ((n : Int) = 0) := by omega
  have h3 : ¬ ((n : Int) = 1) := by omega
  simp only [h1, h2, h3, if_false, tdiv_half]
  by_cases hk : i < (n + 1) / 2
  · have : (i : Int) < (((n + 1) / 2 : Nat) : Int) := by omega
    simp only [hk, this, if_true, Bool.false_eq_true, if_false]
  · have : ¬ (i : Int) < (((n + 1) / 2 : Nat) : Int) := by omega
    simp only [hk, this, if_false, Bool.false_eq_true]
    have e1 : (i : Int) - (((n + 1) / 2 : Nat) : Int) = ((i - (n + 1) / 2 : Nat) : Int) := by omega
    have e2 : (n : Int) - (((n + 1) / 2 : Nat) : Int) = ((n - (n + 1) / 2 : Nat) : Int) := by omega
    rw [e1, e2]

/-- T1 (completeness): every generated proof verifies — for every item count ≥ 1 and both variants -/
theorem computeRev_complete (cfg : Cfg) : ∀ (n : Nat) (hs : List Bytes), hs.length = n →
    ∀ (i : Nat) (hi : i < hs.length), ∃ r, root N hs = some r ∧
      computeRev N cfg (i : Int) (n : Int) hs[i] (aunts N hs i).reverse = .ok (some r) := by
  intro n
  induction n using Nat.strongRecOn with
  | _ n ih =>
    intro hs hlen i hi
    by_cases h1 : n = 1
    · subst h1
      match hs, hlen with
      | [h], _ =>
        have : i = 0 := by simp at hi; omega
        subst this
        refine ⟨h, by simp [root], ?_⟩
        simp [aunts, computeRev]
    · have hn : 2 ≤ n := by omega
      have hn' : 2 ≤ hs.length := by omega
      obtain ⟨k, hk⟩ : ∃ k, k = (hs.length + 1) / 2 := ⟨_, rfl⟩
      have hkl : (hs.take k).length = k := by simp [List.length_take]; omega
      have hkr : (hs.drop k).length = n - k := by simp [List.length_drop]; omega
      rw [root_split N hs hn', aunts_split N hs i hn', ← hk]
      by_cases hik : i < k
      · obtain ⟨rl, hrl, hcl⟩ := ih k (by omega) (hs.take k) hkl i (by rw [hkl]; omega)
        obtain ⟨rr, hrr⟩ := root_isSome N (n - k) (hs.drop k) hkr (by
          intro h; rw [h] at hkr; simp at hkr; omega)
        refine ⟨N rl rr, by rw [hrl, hrr]; rfl, ?_⟩
        simp only [hik, if_true, hrr, Option.toList_some, List.reverse_append, List.reverse_cons,
          List.reverse_nil, List.nil_append, List.cons_append]
        rw [computeRev_step N cfg i n _ rr _ hn (by omega)]
        have hik' : i < (n + 1) / 2 := by omega
        simp only [hik', if_true]
        have hget : (hs.take k)[i]'(by rw [hkl]; omega) = hs[i] := by simp [List.getElem_take]
        rw [hget] at hcl
        have hk2 : (n + 1) / 2 = k := by omega
        rw [hk2, hcl]; rfl
      · obtain ⟨rr, hrr, hcr⟩ := ih (n - k) (by omega) (hs.drop k) hkr (i - k) (by rw [hkr]; omega)
        obtain ⟨rl, hrl⟩ := root_isSome N k (hs.take k) hkl (by
          intro h; rw [h] at hkl; simp at hkl; omega)
        refine ⟨N rl rr, by rw [hrl, hrr]; rfl, ?_⟩
        simp only [hik, if_false, hrl, Option.toList_some, List.reverse_append, List.reverse_cons,
          List.reverse_nil, List.nil_append, List.cons_append]
        rw [computeRev_step N cfg i n _ rl _ hn (by omega)]
        have hik' : ¬ i < (n + 1) / 2 := by omega
        simp only [hik', if_false]
        have hget : (hs.drop k)[i - k]'(by rw [hkr]; omega) = hs[i] := by
          simp [List.getElem_drop]; congr 1; omega
        rw [hget] at hcr
        have hk2 : (n + 1) / 2 = k := by omega
        rw [hk2, hcr]; rfl


theorem liftL_ok {a : Bytes} {x : Res (Option Bytes)} {r : Bytes}
    (h : liftL N a x = .ok (some r)) : ∃ l, x = .ok (some l) ∧ r = N l a := by
  unfold liftL at h
  split at h
  · rename_i l; exact ⟨l, rfl, by injection h with h; injection h with h; exact h.symm⟩
  · rename_i hne; exact absurd h (by intro h'; exact hne _ h')

theorem liftR_ok {a : Bytes} {x : Res (Option Bytes)} {r : Bytes}
    (h : liftR N a x = .ok (some r)) : ∃ l, x = .ok (some l) ∧ r = N a l := by
  unfold liftR at h
  split at h
  · rename_i l; exact ⟨l, rfl, by injection h with h; injection h with h; exact h.symm⟩
  · rename_i hne; exact absurd h (by intro h'; exact hne _ h')

theorem combine_some {x y : Option Bytes} {r : Bytes} (h : combine N x y = some r) :
    ∃ l rr, x = some l ∧ y = some rr ∧ r = N l rr := by
  match x, y, h with
  | some l, some rr, h => exact ⟨l, rr, rfl, rfl, by simp [combine] at h; exact h.symm⟩

/-- T2 (soundness with extraction): a proof that verifies against the genuine root at the genuine
    total and an in-range index proves the genuine leaf — or exhibits a collision of the combiner. -/
theorem computeRev_sound (cfg : Cfg) : ∀ (n : Nat) (hs : List Bytes), hs.length = n →
    ∀ (i : Nat) (hi : i < hs.length) (l : Bytes) (rev : List Bytes) (r : Bytes),
      root N hs = some r → computeRev N cfg (i : Int) (n : Int) l rev = .ok (some r) →
      l = hs[i] ∨ CollisionN N := by
  intro n
  induction n using Nat.strongRecOn with
  | _ n ih =>
    intro hs hlen i hi l rev r hroot hc
    by_cases h1 : n = 1
    · subst h1
      match hs, hlen with
      | [h], _ =>
        have : i = 0 := by simp at hi; omega
        subst this
        left
        simp [root] at hroot
        subst hroot
        rw [computeRev.eq_def] at hc
        simp at hc
        split at hc
        · simpa using hc
        · simp at hc
    · have hn : 2 ≤ n := by omega
      have hn' : 2 ≤ hs.length := by omega
      obtain ⟨k, hk⟩ : ∃ k, k = (hs.length + 1) / 2 := ⟨_, rfl⟩
      have hkl : (hs.take k).length = k := by simp [List.length_take]; omega
      have hkr : (hs.drop k).length = n - k := by simp [List.length_drop]; omega
      rw [root_split N hs hn', ← hk] at hroot
      obtain ⟨rl, rr, hrl, hrr, hr⟩ := combine_some N hroot
      match rev with
      | [] =>
        rw [computeRev.eq_def] at hc
        have h2 : ¬ ((n : Int) = 0) := by omega
        have h3 : ¬ ((n : Int) = 1) := by omega
        simp only [h2, h3, if_false] at hc
        split at hc <;> simp at hc
      | a :: rest =>
        rw [computeRev_step N cfg i n _ a _ hn (by omega)] at hc
        have hk2 : (n + 1) / 2 = k := by omega
        rw [hk2] at hc
        by_cases hik : i < k
        · simp only [hik, if_true] at hc
          obtain ⟨x, hx, hrx⟩ := liftL_ok N hc
          by_cases heq : (x, a) = (rl, rr)
          · have hxl : x = rl := by injection heq
            subst hxl
            have := ih k (by omega) (hs.take k) hkl i (by rw [hkl]; omega) l rest x hrl hx
            rcases this with h | h
            · left; rw [h]; simp [List.getElem_take]
            · right; exact h
          · right; exact ⟨x, a, rl, rr, heq, by rw [← hrx, ← hr]⟩
        · simp only [hik, if_false] at hc
          obtain ⟨x, hx, hrx⟩ := liftR_ok N hc
          by_cases heq : (a, x) = (rl, rr)
          · have hxl : x = rr := by injection heq
            subst hxl
            have := ih (n - k) (by omega) (hs.drop k) hkr (i - k) (by rw [hkr]; omega) l rest x hrr hx
            rcases this with h | h
            · left; rw [h]; simp [List.getElem_drop]; congr 1; omega
            · right; exact h
          · right; exact ⟨a, x, rl, rr, heq, by rw [← hrx, ← hr]⟩

/-- repaired: a negative index never verifies -/
theorem computeRev_neg_repaired (idx total : Int) (l : Bytes) (rev : List Bytes) (h : idx < 0) :
    computeRev N repaired idx total l rev = .ok none := by
  rw [computeRev.eq_def]; simp [repaired, h]

/-- as found: index −1 is accepted with the proof of index 0 (two leaves) -/
theorem computeRev_neg_asFound (h0 h1 : Bytes) :
    computeRev N asFound (-1) 2 h0 [h1] = .ok (some (N h0 h1)) := by
  simp [computeRev, asFound, liftL, Int.tdiv]

/-- inherent to the tree format (both variants): the proof of leaf 0 of THREE leaves also
    verifies for total FOUR. -/
theorem computeRev_other_total (cfg : Cfg) (h0 h1 h2 : Bytes) :
    root N [h0, h1, h2] = some (N (N h0 h1) h2) ∧
    computeRev N cfg 0 4 h0 [h2, h1] = .ok (some (N (N h0 h1) h2)) := by
  constructor
  · simp [root, combine]
  · simp [computeRev, liftL, Int.tdiv]


theorem liftL_ok_of_ok {a : Bytes} {x : Res (Option Bytes)} (h : ∃ o, x = .ok o) :
    ∃ o, liftL N a x = .ok o := by
  obtain ⟨o, rfl⟩ := h
  cases o <;> simp [liftL]

theorem liftR_ok_of_ok {a : Bytes} {x : Res (Option Bytes)} (h : ∃ o, x = .ok o) :
    ∃ o, liftR N a x = .ok o := by
  obtain ⟨o, rfl⟩ := h
  cases o <;> simp [liftR]

/-- repaired: `computeHashFromAunts` returns (a hash or nil) for EVERY index, total, leaf and
    aunt list — it never reaches the `total = 0` panic. -/
theorem computeRev_total_of_checkNeg (cfg : Cfg) (hcfg : cfg.checkNeg = true) (l : Bytes) :
    ∀ (rev : List Bytes) (idx total : Int), ∃ o, computeRev N cfg idx total l rev = .ok o := by
  intro rev
  induction rev with
  | nil =>
    intro idx total
    rw [computeRev.eq_def]
    by_cases h : (cfg.checkNeg && decide (idx < 0) || decide (idx ≥ total)) = true
    · rw [if_pos h]; exact ⟨_, rfl⟩
    · rw [if_neg h]
      simp [hcfg] at h
      have h0 : ¬ total = 0 := by omega
      rw [if_neg h0]
      by_cases h1 : total = 1
      · rw [if_pos h1]; simp
      · rw [if_neg h1]; exact ⟨_, rfl⟩
  | cons a rest ih =>
    intro idx total
    rw [computeRev.eq_def]
    by_cases h : (cfg.checkNeg && decide (idx < 0) || decide (idx ≥ total)) = true
    · rw [if_pos h]; exact ⟨_, rfl⟩
    · rw [if_neg h]
      simp [hcfg] at h
      have h0 : ¬ total = 0 := by omega
      rw [if_neg h0]
      by_cases h1 : total = 1
      · rw [if_pos h1]; simp
      · rw [if_neg h1]
        dsimp only
        by_cases h2 : idx < (total + 1).tdiv 2
        · rw [if_pos h2]; exact liftL_ok_of_ok N (ih _ _)
        · rw [if_neg h2]; exact liftR_ok_of_ok N (ih _ _)

theorem computeRev_repaired_total (l : Bytes) (rev : List Bytes) (idx total : Int) :
    ∃ o, computeRev N repaired idx total l rev = .ok o :=
  computeRev_total_of_checkNeg N repaired rfl l rev idx total

end AnnVerif.Merkle
