import AnnVerif.Model.Admin
import AnnVerif.Lemmas.ValSetMembers
namespace AnnVerif.Admin
open AnnVerif.ValSet
open Classical

/-- the power of the validators that satisfy `P` on their address, each validator once -/
noncomputable def specP (vals : List Val) (P : Bytes → Prop) : Int :=
  (vals.map fun v => if v.power > 0 ∧ P v.addr then v.power else 0).sum

theorem specP_congr (vals : List Val) (P Q : Bytes → Prop)
    (h : ∀ v ∈ vals, v.power > 0 → (P v.addr ↔ Q v.addr)) : specP vals P = specP vals Q := by
  unfold specP
  congr 1
  apply List.map_congr_left
  intro v hv
  by_cases hp : v.power > 0
  · have := h v hv hp
    by_cases hP : P v.addr
    · simp [hp, hP, this.mp hP]
    · have : ¬ Q v.addr := fun hq => hP (this.mpr hq)
      simp [hp, hP, this]
  · simp [hp]

/-- addresses are pairwise distinct -/
def NodupAddr : List Val → Prop
  | [] => True
  | v :: t => (∀ w ∈ t, w.addr ≠ v.addr) ∧ NodupAddr t

theorem powerOf_none {vals : List Val} {a : Bytes} (h : powerOf vals a = none) :
    ∀ v ∈ vals, v.addr ≠ a := by
  unfold powerOf at h
  simp at h
  intro v hv; exact h v hv

theorem powerOf_some_mem {vals : List Val} {a : Bytes} {p : Int} (h : powerOf vals a = some p) :
    ∃ v ∈ vals, v.addr = a ∧ v.power = p := by
  unfold powerOf at h
  simp at h
  obtain ⟨v, hv, hp⟩ := h
  have := List.find?_some hv
  exact ⟨v, List.mem_of_find?_eq_some hv, by simpa using this, hp⟩

theorem powerOf_unique {vals : List Val} (hn : NodupAddr vals) {a : Bytes} {p : Int}
    (h : powerOf vals a = some p) : ∀ v ∈ vals, v.addr = a → v.power = p := by
  induction vals with
  | nil => intro v hv; simp at hv
  | cons x t ih =>
    intro v hv hva
    unfold powerOf at h
    simp only [List.find?_cons] at h
    by_cases hx : x.addr = a
    · simp [hx] at h
      simp at hv
      rcases hv with rfl | hv
      · exact h
      · exact absurd (hva.trans hx.symm) (hn.1 v hv)
    · simp [hx] at h
      simp at hv
      rcases hv with rfl | hv
      · exact absurd hva hx
      · exact ih hn.2 (by unfold powerOf; simpa using h) v hv hva

theorem specP_cons (x : Val) (t : List Val) (P : Bytes → Prop) :
    specP (x :: t) P = (if x.power > 0 ∧ P x.addr then x.power else 0) + specP t P := by
  simp [specP]

/-- crediting one more address adds exactly that validator's power -/
theorem specP_insert (vals : List Val) (hn : NodupAddr vals) (P : Bytes → Prop) (a : Bytes) (p : Int)
    (hp : powerOf vals a = some p) (hpos : p > 0) (hnew : ¬ P a) :
    specP vals (fun b => b = a ∨ P b) = specP vals P + p := by
  induction vals with
  | nil => simp [powerOf] at hp
  | cons x t ih =>
    rw [specP_cons, specP_cons]
    by_cases hx : x.addr = a
    · have hxp : x.power = p := powerOf_unique hn hp x (by simp) hx
      have htail : ∀ w ∈ t, w.addr ≠ a := fun w hw => by rw [← hx]; exact hn.1 w hw
      have : specP t (fun b => b = a ∨ P b) = specP t P :=
        specP_congr _ _ _ (fun w hw _ => by simp [htail w hw])
      rw [this]
      have hPx : ¬ P x.addr := by rw [hx]; exact hnew
      have hpx : x.power > 0 := by omega
      simp only [hx, true_or, and_true, hpx, if_true, hnew, and_false, if_false]
      omega
    · have hp' : powerOf t a = some p := by
        unfold powerOf at hp ⊢; simpa [List.find?_cons, hx] using hp
      rw [ih hn.2 hp']
      simp only [hx, false_or]
      omega

/-- the loop of `CheckMajor23` (repaired) computes the power of the DISTINCT current validators
    with positive power that have a valid signature entry — each validator once, whatever the
    order, multiplicity or content of the entry list. -/
theorem major23Loop_spec (cfg : Cfg) (hcfg : cfg.dedupSigners = true) (vals : List Val)
    (hn : NodupAddr vals) :
    ∀ (es : List SigEntry) (seen : List Bytes) (acc : Int),
      acc = specP vals (fun a => a ∈ seen) →
      major23Loop cfg vals es seen acc =
        specP vals (fun a => a ∈ seen ∨ ∃ e ∈ es, e.ok = true ∧ e.addr = a) := by
  intro es
  induction es with
  | nil =>
    intro seen acc hacc
    simp only [major23Loop, hacc]
    exact specP_congr _ _ _ (fun v _ _ => by simp)
  | cons e t ih =>
    intro seen acc hacc
    simp only [major23Loop]
    cases hpo : powerOf vals e.addr with
    | none =>
      simp only
      rw [ih seen acc hacc]
      apply specP_congr
      intro v hv _
      have := powerOf_none hpo v hv
      constructor
      · rintro (h | ⟨e', he', hok, ha⟩)
        · exact Or.inl h
        · exact Or.inr ⟨e', by simp [he'], hok, ha⟩
      · rintro (h | ⟨e', he', hok, ha⟩)
        · exact Or.inl h
        · simp at he'
          rcases he' with rfl | he'
          · exact absurd ha.symm this
          · exact Or.inr ⟨e', he', hok, ha⟩
    | some p =>
      simp only
      by_cases hpos : p > 0
      · simp only [hpos, if_true, hcfg, Bool.true_and]
        by_cases hseen : seen.contains e.addr = true
        · simp only [hseen, if_true]
          rw [ih seen acc hacc]
          apply specP_congr
          intro v _ _
          have hm : e.addr ∈ seen := by simpa using hseen
          constructor
          · rintro (h | ⟨e', he', hok, ha⟩)
            · exact Or.inl h
            · exact Or.inr ⟨e', by simp [he'], hok, ha⟩
          · rintro (h | ⟨e', he', hok, ha⟩)
            · exact Or.inl h
            · simp at he'
              rcases he' with rfl | he'
              · exact Or.inl (ha ▸ hm)
              · exact Or.inr ⟨e', he', hok, ha⟩
        · simp only [hseen, Bool.false_eq_true, if_false]
          have hnm : ¬ e.addr ∈ seen := by simpa using hseen
          by_cases hok : e.ok = true
          · simp only [hok, if_true]
            rw [ih (e.addr :: seen) (acc + p) (by
              rw [hacc, ← specP_insert vals hn _ e.addr p hpo hpos hnm]
              exact specP_congr _ _ _ (fun v _ _ => by simp))]
            apply specP_congr
            intro v _ _
            constructor
            · rintro (h | ⟨e', he', hok', ha⟩)
              · simp at h
                rcases h with h | h
                · exact Or.inr ⟨e, by simp, hok, h.symm⟩
                · exact Or.inl h
              · exact Or.inr ⟨e', by simp [he'], hok', ha⟩
            · rintro (h | ⟨e', he', hok', ha⟩)
              · exact Or.inl (by simp [h])
              · simp at he'
                rcases he' with rfl | he'
                · exact Or.inl (by simp [ha])
                · exact Or.inr ⟨e', he', hok', ha⟩
          · simp only [hok, Bool.false_eq_true, if_false]
            rw [ih seen acc hacc]
            apply specP_congr
            intro v _ _
            constructor
            · rintro (h | ⟨e', he', hok', ha⟩)
              · exact Or.inl h
              · exact Or.inr ⟨e', by simp [he'], hok', ha⟩
            · rintro (h | ⟨e', he', hok', ha⟩)
              · exact Or.inl h
              · simp at he'
                rcases he' with rfl | he'
                · exact absurd hok' hok
                · exact Or.inr ⟨e', he', hok', ha⟩
      · simp only [hpos, if_false]
        rw [ih seen acc hacc]
        apply specP_congr
        intro v hv hvp
        constructor
        · rintro (h | ⟨e', he', hok, ha⟩)
          · exact Or.inl h
          · exact Or.inr ⟨e', by simp [he'], hok, ha⟩
        · rintro (h | ⟨e', he', hok, ha⟩)
          · exact Or.inl h
          · simp at he'
            rcases he' with rfl | he'
            · have := powerOf_unique hn hpo v hv ha.symm
              omega
            · exact Or.inr ⟨e', he', hok, ha⟩

theorem specP_nil (vals : List Val) : specP vals (fun a => a ∈ ([] : List Bytes)) = 0 := by
  unfold specP
  induction vals with
  | nil => rfl
  | cons x t ih => simp at ih ⊢; exact ih

theorem applyChange_sorted (vs v1 : ValSet) (c : Change) (hs : Sorted vs.vals)
    (h : applyChange vs c = some v1) : Sorted v1.vals := by
  unfold applyChange at h
  cases hc : c.cmd <;> rw [hc] at h <;> simp only at h
  · -- add
    cases hp : powerOf vs.vals c.target with
    | none =>
      rw [hp] at h; simp only at h
      split at h
      · simp at h; subst h; exact add_sorted vs _ hs
      · simp at h
    | some p =>
      rw [hp] at h; simp only at h
      split at h
      · split at h
        · split at h
          · simp at h; subst h; exact update_sorted vs _ hs
          · simp at h
        · simp at h
      · simp at h; subst h; exact hs
  · -- update
    cases hp : powerOf vs.vals c.target with
    | none =>
      rw [hp] at h; simp only at h
      split at h
      · simp at h; subst h; exact add_sorted vs _ hs
      · simp at h
    | some p =>
      rw [hp] at h; simp only at h
      split at h
      · split at h
        · split at h
          · simp at h; subst h; exact update_sorted vs _ hs
          · simp at h
        · simp at h
      · simp at h; subst h; exact hs
  · -- remove
    split at h
    · simp at h; subst h; exact remove_sorted vs _ hs
    · simp at h
  · simp at h; subst h; exact hs

/-! ### nonces -/

theorem nonceOf_bump_self (m : List (Bytes × Nat)) (a : Bytes) :
    nonceOf (bump m a) a = nonceOf m a + 1 := by
  simp [bump, nonceOf]

theorem find?_filter_of_imp {α : Type} (p q : α → Bool) (h : ∀ x, p x = true → q x = true) :
    ∀ l : List α, (l.filter q).find? p = l.find? p := by
  intro l
  induction l with
  | nil => rfl
  | cons x t ih =>
    by_cases hq : q x = true
    · simp only [List.filter_cons, hq, if_true, List.find?_cons, ih]
    · have hp : p x = false := by
        cases hpx : p x with
        | false => rfl
        | true => exact absurd (h x hpx) hq
      simp only [List.filter_cons, hq, Bool.false_eq_true, if_false, List.find?_cons, hp, ih]

theorem nonceOf_bump_ne (m : List (Bytes × Nat)) (a b : Bytes) (h : b ≠ a) :
    nonceOf (bump m a) b = nonceOf m b := by
  have h' : ¬ a = b := fun e => h e.symm
  unfold bump nonceOf
  simp only [List.find?_cons, h', decide_false]
  rw [find?_filter_of_imp]
  intro x hx
  simp only [decide_eq_true_eq] at hx
  simp only [decide_eq_true_eq, ne_eq]
  intro e; exact h (hx ▸ e)

end AnnVerif.Admin
