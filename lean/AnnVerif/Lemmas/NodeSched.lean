/-
  The timeouts a node schedules are never for a round ahead of it: over every run, every
  `Emit.timeout h r s` in the node's output is for an earlier height, or for the node's height and a
  round it has entered. So a ticker that relays only what was scheduled (ticker.go drops everything
  else) never fires a timeout for a round the node has not entered - the hypothesis `RunOK` of
  Lemmas/NodeJust.lean holds for every such run (`runOK_of_scheduled`).
-/
import AnnVerif.Lemmas.NodeJust

namespace AnnVerif.Node

/-- (h, r) is not ahead of where `n` stands -/
def NotAhead (n : Node) (h r : Int) : Prop := h < n.height ∨ (h = n.height ∧ r ≤ n.round)

def EmitOK (n : Node) : Emit → Prop
  | .timeout h r _ => NotAhead n h r
  | _ => True

def Sched (n : Node) : Prop := ∀ e ∈ n.out, EmitOK n e

theorem NotAhead.mono {a b : Node} (l : Le a b) {h r : Int} (x : NotAhead a h r) : NotAhead b h r := by
  unfold NotAhead Le at *
  rcases l with l | ⟨lh, l | ⟨lr, _⟩⟩ <;> rcases x with x | ⟨xh, xr⟩
  all_goals first
    | (left; omega)
    | (right; exact ⟨by omega, by omega⟩)

theorem EmitOK.mono {a b : Node} (l : Le a b) {e : Emit} (x : EmitOK a e) : EmitOK b e := by
  cases e with
  | timeout h r s => exact NotAhead.mono l x
  | panic s => trivial
  | commit h b => trivial

/-- `b` is `a` later: not behind it, and what it emitted meanwhile is not ahead of where it stands -/
structure SE (a b : Node) : Prop where
  le : Le a b
  out : ∀ e ∈ b.out, e ∈ a.out ∨ EmitOK b e

theorem SE.rfl' (n : Node) : SE n n := ⟨Le.rfl' n, fun _ h => Or.inl h⟩

theorem SE.trans {a b c : Node} (x : SE a b) (y : SE b c) : SE a c :=
  ⟨x.le.trans y.le, fun e he => by
    rcases y.out e he with h | h
    · rcases x.out e h with h' | h'
      · exact Or.inl h'
      · exact Or.inr (h'.mono y.le)
    · exact Or.inr h⟩

theorem Sched.ext {a b : Node} (s : Sched a) (x : SE a b) : Sched b := by
  intro e he
  rcases x.out e he with h | h
  · exact (s e h).mono x.le
  · exact h

/-- nothing emitted -/
theorem SE.quiet {a b : Node} (l : Le a b) (ho : b.out = a.out) : SE a b :=
  ⟨l, fun e he => Or.inl (ho ▸ he)⟩

theorem se_emit_panic (n : Node) (s : String) : SE n (emit n (.panic s)) :=
  ⟨Le.of_same (hrs_emit _ _), fun e he => by
    simp only [emit, List.mem_append, List.mem_singleton] at he
    rcases he with he | he
    · exact Or.inl he
    · subst he; exact Or.inr trivial⟩

theorem out_signAddVote (n : Node) (t : Nat) (bid : VoteSet.BlockID) : (signAddVote n t bid).out = n.out := by
  unfold signAddVote
  split
  · dsimp only
    split <;> rfl
  · rfl

theorem out_doPrevote (n : Node) : (doPrevote n).out = n.out := by
  unfold doPrevote
  split
  · exact out_signAddVote _ _ _
  · split
    · exact out_signAddVote _ _ _
    · split <;> exact out_signAddVote _ _ _

theorem se_enterPrevote (n : Node) (h r : Int) : SE n (enterPrevote n h r) := by
  refine SE.quiet (le_enterPrevote n h r) ?_
  unfold enterPrevote
  split
  · rfl
  · exact out_doPrevote n

/-- a step that emits one timeout for the round it enters -/
theorem se_wait (n n' : Node) (h r : Int) (s : Step) (l : Le n n') (hh : n'.height = h) (hr : n'.round = r)
    (ho : n'.out = n.out ++ [.timeout h r s]) : SE n n' :=
  ⟨l, fun e he => by
    rw [ho] at he
    simp only [List.mem_append, List.mem_singleton] at he
    rcases he with he | he
    · exact Or.inl he
    · subst he
      exact Or.inr (Or.inr ⟨hh.symm, by rw [hr]; exact Int.le_refl _⟩)⟩

theorem se_enterPrevoteWait (n : Node) (h r : Int) : SE n (enterPrevoteWait n h r) := by
  have l := le_enterPrevoteWait n h r
  unfold enterPrevoteWait at l ⊢
  split
  · exact SE.rfl' n
  · rename_i hg
    split
    · exact se_emit_panic _ _
    · rename_i h2
      simp only [hg, h2, if_false] at l
      have hh : n.height = h := Classical.not_not.mp (fun x => hg (Or.inl x))
      exact se_wait n _ h r .prevoteWait l hh rfl rfl

theorem se_enterPrecommitWait (n : Node) (h r : Int) : SE n (enterPrecommitWait n h r) := by
  have l := le_enterPrecommitWait n h r
  unfold enterPrecommitWait at l ⊢
  split
  · exact SE.rfl' n
  · rename_i hg
    split
    · exact se_emit_panic _ _
    · rename_i h2
      simp only [hg, h2, if_false] at l
      have hh : n.height = h := Classical.not_not.mp (fun x => hg (Or.inl x))
      exact se_wait n _ h r .precommitWait l hh rfl rfl

theorem out_decideProposal (n : Node) (h r : Int) : (decideProposal n h r).out = n.out := by
  unfold decideProposal
  extract_lets own block pol p res m
  have hm : m.out = n.out := by
    unfold m
    split <;> rfl
  split
  · split
    · exact hm
    · rfl
  · rfl

theorem se_enterPropose (n : Node) (h r : Int) : SE n (enterPropose n h r) := by
  refine ⟨le_enterPropose n h r, ?_⟩
  unfold enterPropose
  split
  · intro e he; exact Or.inl he
  · rename_i hg
    have hh : n.height = h := Classical.not_not.mp (fun x => hg (Or.inl x))
    extract_lets n1 n2 n3
    have o2 : n2.out = n.out ++ [.timeout h r .propose] := by
      unfold n2
      split
      · split
        · exact out_decideProposal _ _ _
        · rfl
      · rfl
    have h2 : n2.height = n.height := by
      unfold n2
      split
      · split
        · exact (hrs_decideProposal _ _ _).h
        · rfl
      · rfl
    have key : ∀ m : Node, m.out = n3.out → m.height = n3.height → m.round = r →
        ∀ e ∈ m.out, e ∈ n.out ∨ EmitOK m e := by
      intro m mo mh mr e he
      rw [mo] at he
      have : n3.out = n.out ++ [.timeout h r .propose] := o2
      rw [this] at he
      simp only [List.mem_append, List.mem_singleton] at he
      rcases he with he | he
      · exact Or.inl he
      · subst he
        refine Or.inr (Or.inr ⟨?_, by rw [mr]; exact Int.le_refl _⟩)
        rw [mh]; show h = n2.height; rw [h2, hh]
    split
    · refine key _ ?_ ?_ ?_
      · unfold enterPrevote
        split
        · rfl
        · exact out_doPrevote _
      · exact (hrs_enterPrevote_height n3 h n3.round)
      · exact enterPrevote_round n3 h n3.round rfl
    · exact key n3 rfl rfl rfl
where
  hrs_enterPrevote_height (m : Node) (h r : Int) : (enterPrevote m h r).height = m.height := by
    unfold enterPrevote
    split
    · rfl
    · exact (hrs_doPrevote m).h

theorem out_setRound_se (n : Node) (r : Int) : SE n (setRound n r) := by
  refine ⟨Le.of_same (hrs_setRound n r), ?_⟩
  unfold setRound
  split
  · intro e he
    simp only [List.mem_append, List.mem_singleton] at he
    rcases he with he | he
    · exact Or.inl he
    · subst he; exact Or.inr trivial
  · intro e he; exact Or.inl he

theorem se_enterNewRound (n : Node) (h r : Int) : SE n (enterNewRound n h r) := by
  unfold enterNewRound
  split
  · exact SE.rfl' n
  · rename_i hg
    extract_lets vals n1 n2 n3
    have l1 : Le n n1 := by
      apply Le.enter
      · rfl
      · show n.round ≤ r; omega
      · intro e
        show n.step.toNat ≤ Step.newRound.toNat
        have : n.step = .newHeight := Classical.not_not.mp (fun hh => hg (Or.inr (Or.inr ⟨e, hh⟩)))
        rw [this]; decide
    have s1 : SE n n1 := SE.quiet l1 rfl
    have s2 : SE n1 n2 := by
      unfold n2
      split
      · exact SE.rfl' _
      · exact SE.quiet (Le.of_same ⟨rfl, rfl, rfl⟩) rfl
    exact ((s1.trans s2).trans (out_setRound_se _ _)).trans (se_enterPropose _ _ _)

theorem se_enterPrecommit (n : Node) (h r : Int) : SE n (enterPrecommit n h r) := by
  refine ⟨le_enterPrecommit n h r, ?_⟩
  unfold enterPrecommit
  split
  · intro e he; exact Or.inl he
  · extract_lets fin
    have hfin : ∀ m : Node, (fin m).out = m.out := fun _ => rfl
    have quiet : ∀ m : Node, m.out = n.out → ∀ e ∈ (fin m).out, e ∈ n.out ∨ EmitOK (fin m) e := by
      intro m hm e he; rw [hfin, hm] at he; exact Or.inl he
    have loud : ∀ s : String, ∀ e ∈ (fin (emit n (.panic s))).out, e ∈ n.out ∨ EmitOK (fin (emit n (.panic s))) e := by
      intro s e he
      rw [hfin] at he
      simp only [emit, List.mem_append, List.mem_singleton] at he
      rcases he with he | he
      · exact Or.inl he
      · subst he; exact Or.inr trivial
    split
    · exact quiet _ (out_signAddVote _ _ _)
    · split
      · exact loud _
      · split
        · apply quiet
          rw [out_signAddVote]
          split <;> rfl
        · split
          · exact quiet _ (out_signAddVote _ _ _)
          · split
            · split
              · exact loud _
              · exact quiet _ (out_signAddVote _ _ _)
            · apply quiet
              rw [out_signAddVote]
              split <;> rfl

theorem se_finalizeCommit (n : Node) (h : Int) : SE n (finalizeCommit n h) := by
  refine ⟨le_finalizeCommit n h, ?_⟩
  unfold finalizeCommit
  split
  · intro e he; exact Or.inl he
  · have loud : ∀ s : String, ∀ e ∈ (emit n (.panic s)).out, e ∈ n.out ∨ EmitOK (emit n (.panic s)) e :=
      fun s => (se_emit_panic n s).out
    split
    · split
      · exact loud _
      · split
        · exact loud _
        · split
          · exact loud _
          · split
            · exact loud _
            · intro e he
              simp only [emit, List.mem_append, List.mem_singleton] at he
              rcases he with (he | he) | he
              · exact Or.inl he
              · subst he; exact Or.inr trivial
              · subst he
                exact Or.inr (Or.inr ⟨rfl, Int.le_refl _⟩)
    · exact loud _

theorem se_tryFinalizeCommit (n : Node) (h : Int) : SE n (tryFinalizeCommit n h) := by
  unfold tryFinalizeCommit
  split
  · exact se_emit_panic _ _
  · split
    · exact SE.rfl' n
    · split
      · exact SE.rfl' n
      · split
        · exact SE.rfl' n
        · exact se_finalizeCommit _ _

theorem se_enterCommit (n : Node) (h cr : Int) : SE n (enterCommit n h cr) := by
  unfold enterCommit
  split
  · exact SE.rfl' n
  · rename_i hg
    split
    · exact se_emit_panic _ _
    · extract_lets n1 n2 n3
      have s1 : SameHRS n n1 := by
        unfold n1
        split <;> exact ⟨rfl, rfl, rfl⟩
      have o1 : n1.out = n.out := by
        unfold n1
        split <;> rfl
      have s2 : SameHRS n1 n2 := by
        unfold n2
        split <;> exact ⟨rfl, rfl, rfl⟩
      have o2 : n2.out = n1.out := by
        unfold n2
        split <;> rfl
      have l3 : Le n n3 := by
        have s := s1.trans s2
        apply Le.enter
        · exact s.h
        · show n.round ≤ n2.round; rw [s.r]; exact Int.le_refl _
        · intro _
          show n.step.toNat ≤ Step.commit.toNat
          have : ¬ Step.commit ≤ n.step := fun hh => hg (Or.inr hh)
          exact Nat.le_of_lt (step_lt_of_not_le this)
      have s3 : SE n n3 := SE.quiet l3 (by show n2.out = n.out; rw [o2, o1])
      exact s3.trans (se_tryFinalizeCommit _ _)

theorem se_setProposal (n : Node) (p : Proposal) (signer : Nat) (bad : Bool) : SE n (setProposal n p signer bad) := by
  refine SE.quiet (le_setProposal n p signer bad) ?_
  unfold setProposal
  split
  · rfl
  · split
    · rfl
    · split
      · rfl
      · split
        · rfl
        · split
          · rfl
          · split <;> rfl

theorem se_addParts (n : Node) (height : Int) (block : Name) (own : Bool) : SE n (addParts n height block own) := by
  unfold addParts
  split
  · exact SE.rfl' n
  · split
    · exact SE.rfl' n
    · split
      · exact SE.rfl' n
      · split
        · exact SE.rfl' n
        · extract_lets m
          have sm : SE n m := SE.quiet (Le.of_same ⟨rfl, rfl, rfl⟩) rfl
          split
          · exact sm.trans (se_enterPrevote _ _ _)
          · split
            · exact sm.trans (se_tryFinalizeCommit _ _)
            · exact sm

theorem out_hvsAddVote (n : Node) (v : VoteSet.Vote) (sigok : Bool) (peer : String) :
    (hvsAddVote n v sigok peer).1.out = n.out := by
  unfold hvsAddVote
  split
  · rfl
  · split
    rename_i n' known heq
    have s : n'.out = n.out := by
      split at heq
      · cases heq; rfl
      · dsimp only at heq
        split at heq
        · cases heq; rfl
        · cases heq; rfl
    split
    · exact s
    · split
      · exact s
      · exact s

theorem se_addVote (n : Node) (v : VoteSet.Vote) (sigok : Bool) (peer : String) : SE n (addVote n v sigok peer) := by
  unfold addVote
  split
  · split
    · exact SE.rfl' n
    · split
      · split
        · exact SE.rfl' n
        · exact se_emit_panic _ _
      · split
        dsimp only
        split
        · refine SE.trans ?_ (se_enterNewRound _ _ _)
          exact SE.quiet (Le.of_same ⟨rfl, rfl, rfl⟩) rfl
        · exact SE.quiet (Le.of_same ⟨rfl, rfl, rfl⟩) rfl
  · split
    · have s0 : SE n (hvsAddVote n v sigok peer).1 :=
        SE.quiet (Le.of_same (hrs_hvsAddVote _ _ _ _)) (out_hvsAddVote _ _ _ _)
      generalize hvsAddVote n v sigok peer = res at s0 ⊢
      obtain ⟨m, o⟩ := res
      dsimp only at s0 ⊢
      split
      · exact s0
      · split
        · have s1 : SE m (if m.lockedBlock.isSome = true ∧ m.lockedRound < v.round ∧ v.round ≤ m.round then
              match maj23 (prevotes m v.round) with
              | some b => if (!hashesTo m.lockedBlock b.hash) = true then unlock m else m
              | none => m
            else m) := by
            split
            · split
              · split
                · exact SE.quiet (Le.of_same (hrs_unlock m)) rfl
                · exact SE.rfl' m
              · exact SE.rfl' m
            · exact SE.rfl' m
          generalize (if m.lockedBlock.isSome = true ∧ m.lockedRound < v.round ∧ v.round ≤ m.round then
              match maj23 (prevotes m v.round) with
              | some b => if (!hashesTo m.lockedBlock b.hash) = true then unlock m else m
              | none => m
            else m) = m1 at s1 ⊢
          have l1 : SE n m1 := s0.trans s1
          split
          · split
            · exact l1.trans ((se_enterNewRound _ _ _).trans (se_enterPrecommit _ _ _))
            · exact l1.trans ((se_enterNewRound _ _ _).trans ((se_enterPrevote _ _ _).trans (se_enterPrevoteWait _ _ _)))
          · split
            · split
              · exact l1.trans (se_enterPrevote _ _ _)
              · exact l1
            · exact l1
        · split
          · split
            · exact s0.trans (se_enterNewRound _ _ _)
            · have lc := s0.trans ((se_enterNewRound m n.height v.round).trans
                ((se_enterPrecommit _ n.height v.round).trans (se_enterCommit _ n.height v.round)))
              split
              · exact lc.trans (se_enterNewRound _ _ _)
              · exact lc
          · split
            · exact s0.trans ((se_enterNewRound _ _ _).trans ((se_enterPrecommit _ _ _).trans (se_enterPrecommitWait _ _ _)))
            · exact s0
    · exact SE.rfl' n

theorem se_handleTimeout (n : Node) (h r : Int) (s : Step) : SE n (handleTimeout n h r s) := by
  unfold handleTimeout
  split
  · exact SE.rfl' n
  · split
    · exact se_enterNewRound _ _ _
    · exact se_enterPrevote _ _ _
    · exact se_enterPrecommit _ _ _
    · exact se_enterNewRound _ _ _
    · exact se_emit_panic _ _

theorem se_handleMsg (n : Node) (m : Msg) (peer : String) : SE n (handleMsg n m peer) := by
  unfold handleMsg
  split
  · exact se_setProposal _ _ _ _
  · exact se_addParts _ _ _ _
  · exact se_addVote _ _ _ _

theorem out_setPeerMaj23 (n : Node) (height round : Int) (type : Nat) (peer : String) (bid : VoteSet.BlockID) :
    (setPeerMaj23 n height round type peer bid).out = n.out := by
  unfold setPeerMaj23
  split
  · rfl
  · split
    · rfl
    · split <;> rfl

theorem se_stepIn (n : Node) (i : In) : SE n (stepIn n i) := by
  cases i with
  | msg m peer => exact se_handleMsg _ _ _
  | own =>
    show SE n (match n.queue with | [] => n | m :: rest => handleMsg { n with queue := rest } m "")
    split
    · exact SE.rfl' n
    · refine SE.trans ?_ (se_handleMsg _ _ _)
      exact SE.quiet (Le.of_same ⟨rfl, rfl, rfl⟩) rfl
  | timeout h r s => exact se_handleTimeout _ _ _ _
  | maj23 h r t peer bid =>
    exact SE.quiet (Le.of_same (hrs_setPeerMaj23 _ _ _ _ _ _)) (out_setPeerMaj23 _ _ _ _ _ _)

theorem sched_run (ins : List In) : ∀ n : Node, Sched n → Sched (ins.foldl stepIn n) := by
  induction ins with
  | nil => intro n s; exact s
  | cons i rest ih => intro n s; exact ih _ (s.ext (se_stepIn n i))

/-- the timeouts of the run are ones the node had scheduled -/
def Scheduled : Node → List In → Prop
  | _, [] => True
  | n, i :: rest =>
    (match i with | .timeout h r s => Emit.timeout h r s ∈ n.out | _ => True) ∧ Scheduled (stepIn n i) rest

/-- a run whose timeouts were all scheduled by the node never fires one for a round the node has
    not entered: it is `RunOK` -/
theorem runOK_of_scheduled (ins : List In) : ∀ n : Node, Sched n → Scheduled n ins → RunOK n ins := by
  induction ins with
  | nil => intro _ _ _; trivial
  | cons i rest ih =>
    intro n s hs
    refine ⟨?_, ih _ (s.ext (se_stepIn n i)) hs.2⟩
    cases i with
    | timeout h r st =>
      have := s _ hs.1
      intro e
      rcases this with x | ⟨_, x⟩
      · omega
      · exact x
    | msg m peer => trivial
    | own => trivial
    | maj23 h r t peer bid => trivial

theorem init_sched (cfg : Cfg) (height : Int) (vals : ValSet.ValSet) (me : Option Nat) (skip : Bool) :
    Sched (init cfg height vals me skip) := by
  intro e he; simp [init] at he

end AnnVerif.Node
