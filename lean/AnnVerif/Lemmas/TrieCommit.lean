/-
  The root commits to the content: two well-formed tries (values non-empty, encodings within the
  decoder's sizes) with the same root hash are the same tree - or the hash function collides.
  Together with M5 (same content => same tree): equal roots <=> equal content, up to collisions.
-/
import AnnVerif.Lemmas.TrieBound
set_option linter.unusedSimpArgs false
namespace AnnVerif.Trie
open AnnVerif.Rlp

theorem encode_inj {x y : Item} (hx : smallOne x) (hy : smallOne y) (h : encode x = encode y) : x = y := by
  have h1 := decode_encode x hx
  have h2 := decode_encode y hy
  rw [h, h2] at h1
  injection h1 with h1
  exact h1.symm

mutual
  /-- no value node is empty (an empty value is a delete) -/
  def NVs : Node → Prop
    | .empty => True
    | .value v => v ≠ []
    | .short _ c => NVs c
    | .full cs => NVsC cs
  def NVsC : Children → Prop
    | .nil => True
    | .cons n r => NVs n ∧ NVsC r
end

theorem nvsc_get : ∀ (cs : Children) (i : Nat), NVsC cs → NVs (cs.get i)
  | .nil, _, _ => by simp [Children.get, NVs]
  | .cons _ _, 0, h => by simp only [NVsC] at h; exact h.1
  | .cons _ r, i + 1, h => by simp only [NVsC] at h; exact nvsc_get r i h.2

theorem wfc_length' (cs : Children) (h : WF (.full cs)) : cs.length = 17 := by
  have := wfc_length cs 0 (by simpa only [WF] using h); omega

section
variable (H : Bytes → Bytes)

theorem encChildren_get_eq : ∀ (a b : Children), a.length = b.length → encChildren H a = encChildren H b →
    ∀ i, ref H (a.get i) = ref H (b.get i)
  | .nil, .nil, _, _, _ => rfl
  | .nil, .cons _ _, h, _, _ => by simp [Children.length] at h
  | .cons _ _, .nil, h, _, _ => by simp [Children.length] at h
  | .cons n r, .cons n' r', h, he, i => by
    rw [encChildren, encChildren] at he
    injection he with h1 h2
    cases i with
    | zero => exact h1
    | succ i =>
      simp only [Children.get]
      exact encChildren_get_eq r r' (by simp [Children.length] at h; exact h) h2 i

/-- the statement proved by induction on the size: nodes with equal encodings are equal -/
theorem enc_inj_sized (Hlen : ∀ x, (H x).length = 32) : ∀ (n : Nat) (t1 t2 : Node), t1.size ≤ n →
    WF t1 → WF t2 → t1.isEmpty = false → t2.isEmpty = false → NVs t1 → NVs t2 → SmallT H t1 → SmallT H t2 →
    enc H t1 = enc H t2 → t1 = t2 ∨ Coll H := by
  intro n
  induction n with
  | zero =>
    intro t1 t2 hs h1 _ hne
    cases t1 <;> simp [Node.size, Node.isEmpty, WF] at hs hne h1
  | succ n ih =>
    -- references of two nodes that may sit in the same slot below the current node
    have refs : ∀ (c1 c2 : Node), c1.size ≤ n → WF c1 → WF c2 → NVs c1 → NVs c2 → SmallT H c1 → SmallT H c2 →
        ref H c1 = ref H c2 → c1 = c2 ∨ Coll H := by
      intro c1 c2 hsz w1 w2 v1 v2 s1 s2 he
      have refNode : ∀ c : Node, WF c → c.isEmpty = false →
          (ref H c = enc H c ∧ (encode (enc H c)).length < 32 ∧ ∃ l, enc H c = .list l) ∨
          (ref H c = .str (H (encode (enc H c))) ∧ ∃ l, enc H c = .list l) := by
        intro c wc nec
        cases c with
        | empty => simp [Node.isEmpty] at nec
        | value _ => simp [WF] at wc
        | short key c' =>
          rw [ref_short]
          split
          · rename_i hh; exact Or.inl ⟨rfl, hh, _, enc_short H key c'⟩
          · exact Or.inr ⟨rfl, _, enc_short H key c'⟩
        | full cs =>
          rw [ref_full]
          split
          · rename_i hh; exact Or.inl ⟨rfl, hh, _, enc_full H cs⟩
          · exact Or.inr ⟨rfl, _, enc_full H cs⟩
      cases hn1 : c1.isEmpty with
      | true =>
        have e1 := isEmpty_eq hn1; subst e1
        cases hn2 : c2.isEmpty with
        | true => exact Or.inl (isEmpty_eq hn2).symm
        | false =>
          rw [ref_empty] at he
          rcases refNode c2 w2 hn2 with ⟨r, _, l, hl⟩ | ⟨r, _⟩
          · rw [r, hl] at he; cases he
          · rw [r] at he
            injection he with he
            have := Hlen (encode (enc H c2)); rw [← he] at this; simp at this
      | false =>
        cases hn2 : c2.isEmpty with
        | true =>
          have e2 := isEmpty_eq hn2; subst e2
          rw [ref_empty] at he
          rcases refNode c1 w1 hn1 with ⟨r, _, l, hl⟩ | ⟨r, _⟩
          · rw [r, hl] at he; cases he
          · rw [r] at he
            injection he with he
            have := Hlen (encode (enc H c1)); rw [he] at this; simp at this
        | false =>
          rcases refNode c1 w1 hn1 with ⟨r1, _, l1, hl1⟩ | ⟨r1, l1, hl1⟩ <;>
          rcases refNode c2 w2 hn2 with ⟨r2, _, l2, hl2⟩ | ⟨r2, l2, hl2⟩
          · rw [r1, r2] at he
            exact ih c1 c2 hsz w1 w2 hn1 hn2 v1 v2 s1 s2 he
          · rw [r1, r2, hl1] at he; cases he
          · rw [r1, r2, hl2] at he; cases he
          · rw [r1, r2] at he
            injection he with he
            by_cases hee : encode (enc H c1) = encode (enc H c2)
            · have := encode_inj (small_enc H w1 hn1 s1) (small_enc H w2 hn2 s2) hee
              exact ih c1 c2 hsz w1 w2 hn1 hn2 v1 v2 s1 s2 this
            · exact Or.inr ⟨_, _, hee, he⟩
    intro t1 t2 hs h1 h2 ne1 ne2 v1 v2 s1 s2 he
    cases t1 with
    | empty => simp [Node.isEmpty] at ne1
    | value _ => simp [WF] at h1
    | short k1 c1 =>
      cases t2 with
      | empty => simp [Node.isEmpty] at ne2
      | value _ => simp [WF] at h2
      | full cs2 =>
        rw [enc_short, enc_full] at he
        injection he with he
        have := congrArg List.length he
        rw [encChildren_length, wfc_length' cs2 h2] at this
        simp at this
      | short k2 c2 =>
        rw [enc_short, enc_short] at he
        injection he with he
        injection he with hk hr
        injection hk with hk
        injection hr with hr _
        have hkk : k1 = k2 := by
          apply hexToCompact_injective k1 k2 _ _ hk
          · rcases wf_short h1 with ⟨h, _⟩ | ⟨h, _⟩
            · exact Or.inl h
            · exact Or.inr h
          · rcases wf_short h2 with ⟨h, _⟩ | ⟨h, _⟩
            · exact Or.inl h
            · exact Or.inr h
        subst hkk
        simp only [Node.size] at hs
        simp only [NVs] at v1 v2
        simp only [SmallT] at s1 s2
        rcases wf_short h1 with ⟨hk1, w1, rfl⟩ | ⟨hk1, cs1, rfl, hc1⟩
        · rcases wf_short h2 with ⟨_, w2, rfl⟩ | ⟨hk2, _, _, _⟩
          · rw [ref_value, ref_value] at hr
            injection hr with hr
            left; rw [hr]
          · exact absurd hk1 (nk_not_tk hk2.2)
        · rcases wf_short h2 with ⟨hk2, _, _⟩ | ⟨_, cs2, rfl, hc2⟩
          · exact absurd hk2 (nk_not_tk hk1.2)
          · rcases refs (.full cs1) (.full cs2) (by omega) (by simpa only [WF] using hc1) (by simpa only [WF] using hc2)
              v1 v2 s1.2 s2.2 hr with h | h
            · left; rw [h]
            · exact Or.inr h
    | full cs1 =>
      cases t2 with
      | empty => simp [Node.isEmpty] at ne2
      | value _ => simp [WF] at h2
      | short k2 c2 =>
        rw [enc_short, enc_full] at he
        injection he with he
        have := congrArg List.length he
        rw [encChildren_length, wfc_length' cs1 h1] at this
        simp at this
      | full cs2 =>
        rw [enc_full, enc_full] at he
        injection he with he
        have l1 := wfc_length' cs1 h1
        have l2 := wfc_length' cs2 h2
        have hrefs := encChildren_get_eq H cs1 cs2 (by omega) he
        by_cases hcoll : Coll H
        · exact Or.inr hcoll
        · left
          have : cs1 = cs2 := by
            apply Children.ext' cs1 cs2 (by omega)
            intro i
            simp only [Node.size] at hs
            simp only [NVs] at v1 v2
            simp only [SmallT] at s1 s2
            have hwc1 : WFC cs1 0 := by simpa only [WF] using h1
            have hwc2 : WFC cs2 0 := by simpa only [WF] using h2
            by_cases hi : i < 17
            · have sl1 := wfc_get cs1 0 i hwc1 (by omega)
              have sl2 := wfc_get cs2 0 i hwc2 (by omega)
              simp only [Nat.zero_add] at sl1 sl2
              by_cases h16 : i = 16
              · subst h16
                simp only [slotOK, if_true] at sl1 sl2
                have hr := hrefs 16
                have n1 := nvsc_get cs1 16 v1
                have n2 := nvsc_get cs2 16 v2
                cases e1 : cs1.get 16 with
                | short _ _ => rw [e1] at sl1; simp [SlotVal] at sl1
                | full _ => rw [e1] at sl1; simp [SlotVal] at sl1
                | empty =>
                  cases e2 : cs2.get 16 with
                  | short _ _ => rw [e2] at sl2; simp [SlotVal] at sl2
                  | full _ => rw [e2] at sl2; simp [SlotVal] at sl2
                  | empty => rfl
                  | value w2 =>
                    rw [e1, e2, ref_empty, ref_value] at hr
                    injection hr with hr
                    rw [e2] at n2; simp only [NVs] at n2
                    exact absurd hr.symm n2
                | value w1 =>
                  cases e2 : cs2.get 16 with
                  | short _ _ => rw [e2] at sl2; simp [SlotVal] at sl2
                  | full _ => rw [e2] at sl2; simp [SlotVal] at sl2
                  | empty =>
                    rw [e1, e2, ref_empty, ref_value] at hr
                    injection hr with hr
                    rw [e1] at n1; simp only [NVs] at n1
                    exact absurd hr n1
                  | value w2 =>
                    rw [e1, e2, ref_value, ref_value] at hr
                    injection hr with hr
                    rw [hr]
              · simp only [slotOK, if_neg h16] at sl1 sl2
                rcases refs (cs1.get i) (cs2.get i) (by have := size_get cs1 i; omega) sl1 sl2
                  (nvsc_get cs1 i v1) (nvsc_get cs2 i v2) (smallc_get H cs1 i s1.2) (smallc_get H cs2 i s2.2) (hrefs i) with h | h
                · exact h
                · exact absurd h hcoll
            · rw [Children.get_of_ge cs1 i (by omega), Children.get_of_ge cs2 i (by omega)]
          rw [this]

/-- the root commits to the tree -/
theorem root_commits (Hlen : ∀ x, (H x).length = 32) (t1 t2 : Node) (h1 : WF t1) (h2 : WF t2)
    (v1 : NVs t1) (v2 : NVs t2) (s1 : SmallT H t1) (s2 : SmallT H t2)
    (he : rootHash H t1 = rootHash H t2) : t1 = t2 ∨ Coll H := by
  have hroot : ∀ t : Node, WF t → t.isEmpty = false → rootHash H t = H (encode (enc H t)) ∧ ∃ l, enc H t = .list l := by
    intro t w ne
    cases t with
    | empty => simp [Node.isEmpty] at ne
    | value _ => simp [WF] at w
    | short k c => exact ⟨rfl, _, enc_short H k c⟩
    | full cs => exact ⟨rfl, _, enc_full H cs⟩
  cases ne1 : t1.isEmpty with
  | true =>
    have e1 := isEmpty_eq ne1; subst e1
    cases ne2 : t2.isEmpty with
    | true => exact Or.inl (isEmpty_eq ne2).symm
    | false =>
      obtain ⟨r2, l2, hl2⟩ := hroot t2 h2 ne2
      have r1 : rootHash H .empty = H (encode (.str [])) := rfl
      rw [r1, r2] at he
      by_cases hee : encode (.str []) = encode (enc H t2)
      · have := encode_inj (by rw [smallOne]; simp) (small_enc H h2 ne2 s2) hee
        rw [hl2] at this; cases this
      · exact Or.inr ⟨_, _, hee, he⟩
  | false =>
    cases ne2 : t2.isEmpty with
    | true =>
      have e2 := isEmpty_eq ne2; subst e2
      obtain ⟨r1, l1, hl1⟩ := hroot t1 h1 ne1
      have r2 : rootHash H .empty = H (encode (.str [])) := rfl
      rw [r1, r2] at he
      by_cases hee : encode (enc H t1) = encode (.str [])
      · have := encode_inj (small_enc H h1 ne1 s1) (by rw [smallOne]; simp) hee
        rw [hl1] at this; cases this
      · exact Or.inr ⟨_, _, hee, he⟩
    | false =>
      obtain ⟨r1, _⟩ := hroot t1 h1 ne1
      obtain ⟨r2, _⟩ := hroot t2 h2 ne2
      rw [r1, r2] at he
      by_cases hee : encode (enc H t1) = encode (enc H t2)
      · have := encode_inj (small_enc H h1 ne1 s1) (small_enc H h2 ne2 s2) hee
        exact enc_inj_sized H Hlen t1.size t1 t2 (Nat.le_refl _) h1 h2 ne1 ne2 v1 v2 s1 s2 this
      · exact Or.inr ⟨_, _, hee, he⟩

end

/-! ### no empty value: from the content -/

def NVp (p : Key) (t : Node) : Prop := ∀ r v, TermKey (p ++ r) → getN t r = some v → v ≠ []

theorem nvsc_of_get : ∀ (cs : Children), (∀ i, NVs (cs.get i)) → NVsC cs
  | .nil, _ => by simp [NVsC]
  | .cons n r, h => by
    simp only [NVsC]
    exact ⟨by simpa [Children.get] using h 0, nvsc_of_get r (fun i => by simpa [Children.get] using h (i + 1))⟩

theorem nvs_sized : ∀ (n : Nat) (t : Node) (p : Key), t.size ≤ n →
    ((NK p ∧ WF t) ∨ (TermKey p ∧ ∃ w, t = .value w)) → NVp p t → NVs t := by
  intro n
  induction n with
  | zero =>
    intro t p hs hw hc
    cases t with
    | empty => simp [NVs]
    | value w => simp [Node.size] at hs
    | short _ _ => simp [Node.size] at hs
    | full _ => simp [Node.size] at hs
  | succ n ih =>
    intro t p hs hw hc
    rcases hw with ⟨hp, hw⟩ | ⟨hp, w, rfl⟩
    · cases t with
      | empty => simp [NVs]
      | value _ => simp [WF] at hw
      | short key c =>
        simp only [Node.size] at hs
        simp only [NVs]
        rcases wf_short hw with ⟨hk, w, rfl⟩ | ⟨hk, cs, rfl, hcs⟩
        · simp only [NVs]
          exact hc key w ((tk_append (tk_ne_nil hk)).mpr ⟨hp, hk⟩) (getN_short_value_self hk w)
        · have hwf : WF (.full cs) := by simpa only [WF] using hcs
          apply ih (.full cs) (p ++ key) (by omega) (Or.inl ⟨nk_append.mpr ⟨hp, hk.2⟩, hwf⟩)
          intro r v hr hg
          exact hc (key ++ r) v (by rw [← List.append_assoc]; exact hr) (by rw [getN_short_append hw]; exact hg)
      | full cs =>
        simp only [Node.size] at hs
        have hwc : WFC cs 0 := by simpa only [WF] using hw
        have hlen := wfc_length cs 0 hwc
        simp only [NVs]
        apply nvsc_of_get
        intro i
        by_cases hi : i < 17
        · have hsl := wfc_get cs 0 i hwc (by omega)
          simp only [Nat.zero_add] at hsl
          have hcb : NVp (p ++ [i]) (cs.get i) := by
            intro r v hr hg
            exact hc (i :: r) v (by simpa using hr) (by rw [getN_full_cons]; exact hg)
          have hsz : (cs.get i).size ≤ n := by have := size_get cs i; omega
          by_cases h16 : i = 16
          · subst h16
            simp only [slotOK, if_true] at hsl
            cases hn : cs.get 16 with
            | empty => simp [NVs]
            | short _ _ => rw [hn] at hsl; simp [SlotVal] at hsl
            | full _ => rw [hn] at hsl; simp [SlotVal] at hsl
            | value w =>
              rw [hn] at hcb hsz
              exact ih (.value w) (p ++ [16]) hsz (Or.inr ⟨⟨p, rfl, hp⟩, w, rfl⟩) hcb
          · simp only [slotOK, if_neg h16] at hsl
            exact ih (cs.get i) (p ++ [i]) hsz
              (Or.inl ⟨nk_append.mpr ⟨hp, nk_cons.mpr ⟨by omega, nk_nil⟩⟩, hsl⟩) hcb
        · rw [Children.get_of_ge cs i (by omega)]; simp [NVs]
    · simp only [NVs]
      exact hc [] w (by simpa using hp) rfl

theorem nvs_of_content {t : Node} (hw : WF t) (hc : NVp [] t) : NVs t :=
  nvs_sized t.size t [] (Nat.le_refl _) (Or.inl ⟨nk_nil, hw⟩) hc

end AnnVerif.Trie
