/-
  The trie is a function of its content: two tries that satisfy the invariant (`WF`, `Br`) and read
  the same for every terminated key are the same tree - node for node - hence have the same root
  hash whatever the order of the writes and deletes that built them.
-/
import AnnVerif.Lemmas.TrieDelete
set_option linter.unusedSimpArgs false
namespace AnnVerif.Trie

mutual
  def Node.size : Node → Nat
    | .empty => 0
    | .value _ => 1
    | .short _ c => c.size + 1
    | .full cs => cs.size + 1
  def Children.size : Children → Nat
    | .nil => 0
    | .cons n r => n.size + r.size + 1
end

theorem size_get : ∀ (cs : Children) (i : Nat), (cs.get i).size ≤ cs.size
  | .nil, _ => by simp [Children.get, Node.size, Children.size]
  | .cons n r, 0 => by simp only [Children.get, Children.size]; omega
  | .cons n r, i + 1 => by
    simp only [Children.get, Children.size]
    have := size_get r i
    omega

theorem Children.ext' : ∀ (a b : Children), a.length = b.length → (∀ i, a.get i = b.get i) → a = b
  | .nil, .nil, _, _ => rfl
  | .nil, .cons _ _, h, _ => by simp [Children.length] at h
  | .cons _ _, .nil, h, _ => by simp [Children.length] at h
  | .cons n r, .cons n' r', h, hg => by
    have h0 := hg 0
    simp only [Children.get] at h0
    have := Children.ext' r r' (by simp [Children.length] at h; exact h) (fun i => by
      have := hg (i + 1); simpa only [Children.get] using this)
    rw [h0, this]

/-! ### every non-empty well-formed trie holds a key -/

theorem child_witness {cs : Children} {i : Nat} (hw : WFC cs 0) (hb : BrC cs)
    (ih : WF (cs.get i) → Br (cs.get i) → (cs.get i).isEmpty = false →
      ∃ k v, TermKey k ∧ getN (cs.get i) k = some v)
    (hne : (cs.get i).isEmpty = false) :
    ∃ r v, TermKey (i :: r) ∧ getN (cs.get i) r = some v := by
  have hlen := wfc_length cs 0 hw
  have hl := get_nonempty_lt hne
  have hs := wfc_get cs 0 i hw hl
  simp only [Nat.zero_add] at hs
  by_cases h16 : i = 16
  · subst h16
    simp only [slotOK, if_true] at hs
    cases hn : cs.get 16 with
    | empty => rw [hn] at hne; simp [Node.isEmpty] at hne
    | short _ _ => rw [hn] at hs; simp [SlotVal] at hs
    | full _ => rw [hn] at hs; simp [SlotVal] at hs
    | value w => exact ⟨[], w, ⟨[], rfl, nk_nil⟩, rfl⟩
  · simp only [slotOK, if_neg h16] at hs
    obtain ⟨k, v, hk, hg⟩ := ih hs (brc_get cs i hb) hne
    exact ⟨k, v, tk_cons.mpr (Or.inr ⟨by omega, hk⟩), hg⟩

theorem witness_sized : ∀ (n : Nat) (t : Node), t.size ≤ n → WF t → Br t → t.isEmpty = false →
    ∃ k v, TermKey k ∧ getN t k = some v := by
  intro n
  induction n with
  | zero =>
    intro t hs _ _ hne
    cases t <;> simp [Node.size, Node.isEmpty] at hs hne
  | succ n ih =>
    intro t hs ht hb hne
    cases t with
    | empty => simp [Node.isEmpty] at hne
    | value _ => simp [WF] at ht
    | short key c =>
      simp only [Node.size] at hs
      rcases wf_short ht with ⟨hk, w, rfl⟩ | ⟨hk, cs, rfl, hc⟩
      · exact ⟨key, w, hk, getN_short_value_self hk w⟩
      · simp only [Br] at hb
        obtain ⟨k0, v, hk0, hg⟩ := ih (.full cs) (by omega) (by simpa only [WF] using hc)
          (by simpa only [Br] using hb) rfl
        exact ⟨key ++ k0, v, (tk_append (tk_ne_nil hk0)).mpr ⟨hk.2, hk0⟩, by rw [getN_short_append ht]; exact hg⟩
    | full cs =>
      simp only [Node.size] at hs
      simp only [WF] at ht
      simp only [Br] at hb
      obtain ⟨i, _, _, hi, _⟩ := hb.1
      obtain ⟨r, v, hk, hg⟩ := child_witness ht hb.2
        (fun h1 h2 h3 => ih (cs.get i) (by have := size_get cs i; omega) h1 h2 h3) hi
      exact ⟨i :: r, v, hk, by rw [getN_full_cons]; exact hg⟩

theorem witness {t : Node} (ht : WF t) (hb : Br t) (hne : t.isEmpty = false) :
    ∃ k v, TermKey k ∧ getN t k = some v := witness_sized t.size t (Nat.le_refl _) ht hb hne

/-- a branch node holds keys with two different first nibbles -/
theorem two_first {cs : Children} (ht : WF (.full cs)) (hb : Br (.full cs)) :
    ∃ i j r s v w, i ≠ j ∧ TermKey (i :: r) ∧ TermKey (j :: s) ∧
      getN (.full cs) (i :: r) = some v ∧ getN (.full cs) (j :: s) = some w := by
  simp only [WF] at ht
  simp only [Br] at hb
  obtain ⟨i, j, hij, hi, hj⟩ := hb.1
  obtain ⟨r, v, hk, hg⟩ := child_witness ht hb.2 (fun h1 h2 h3 => witness h1 h2 h3) hi
  obtain ⟨s, w, hk', hg'⟩ := child_witness ht hb.2 (fun h1 h2 h3 => witness h1 h2 h3) hj
  exact ⟨i, j, r, s, v, w, hij, hk, hk', by rw [getN_full_cons]; exact hg, by rw [getN_full_cons]; exact hg'⟩

/-- every key below a short node starts with the node's key -/
theorem short_prefix {key : Key} {c : Node} (ht : WF (.short key c)) {k : Key} {v : Bytes}
    (h : getN (.short key c) k = some v) : key <+: k := by
  rw [getN_short ht] at h
  by_cases hp : key <+: k
  · exact hp
  · rw [if_neg hp] at h; cases h

/-! ### same content, same tree -/

/-- the key of a short node cannot be strictly longer than the key of a short node with the same content -/
theorem short_key_not_longer {key1 key2 : Key} {c1 c2 : Node} {x : Nat} {rest : Key}
    (h1 : WF (.short key1 c1)) (h2 : WF (.short key2 c2)) (hb2 : Br (.short key2 c2))
    (he : ∀ k, TermKey k → getN (.short key1 c1) k = getN (.short key2 c2) k)
    (hk : key1 = key2 ++ x :: rest) : False := by
  subst hk
  rcases wf_short h2 with ⟨hk2, w, rfl⟩ | ⟨hk2, cs2, rfl, hc2⟩
  · -- key2 itself is a key of the second trie
    have hg := getN_short_value_self hk2 w
    rw [← he key2 hk2] at hg
    have := (short_prefix h1 hg).length_le
    simp at this
    omega
  · simp only [Br] at hb2
    obtain ⟨i, j, r, s, v, w, hij, hki, hkj, hgi, hgj⟩ :=
      two_first (by simpa only [WF] using hc2) (by simpa only [Br] using hb2)
    have e1 : getN (.short key2 (.full cs2)) (key2 ++ i :: r) = some v := by rw [getN_short_append h2]; exact hgi
    have e2 : getN (.short key2 (.full cs2)) (key2 ++ j :: s) = some w := by rw [getN_short_append h2]; exact hgj
    rw [← he _ ((tk_append (by simp)).mpr ⟨hk2.2, hki⟩)] at e1
    rw [← he _ ((tk_append (by simp)).mpr ⟨hk2.2, hkj⟩)] at e2
    have p1 := (List.prefix_append_right_inj key2).mp (short_prefix h1 e1)
    have p2 := (List.prefix_append_right_inj key2).mp (short_prefix h1 e2)
    rw [List.cons_prefix_cons] at p1 p2
    exact hij (p1.1.symm.trans p2.1)

theorem canon_sized : ∀ (n : Nat) (t1 t2 : Node), t1.size ≤ n → WF t1 → Br t1 → WF t2 → Br t2 →
    (∀ k, TermKey k → getN t1 k = getN t2 k) → t1 = t2 := by
  intro n
  induction n with
  | zero =>
    intro t1 t2 hs h1 _ h2 b2 he
    have e1 : t1 = .empty := by
      cases t1 with
      | empty => rfl
      | value _ => simp [WF] at h1
      | short _ _ => simp [Node.size] at hs
      | full _ => simp [Node.size] at hs
    subst e1
    cases hne : t2.isEmpty with
    | true => exact (isEmpty_eq hne).symm
    | false =>
      obtain ⟨k, v, hk, hg⟩ := witness h2 b2 hne
      rw [← he k hk, getN_empty] at hg; cases hg
  | succ n ih =>
    intro t1 t2 hs h1 b1 h2 b2 he
    cases t1 with
    | empty =>
      cases hne : t2.isEmpty with
      | true => exact (isEmpty_eq hne).symm
      | false =>
        obtain ⟨k, v, hk, hg⟩ := witness h2 b2 hne
        rw [← he k hk, getN_empty] at hg; cases hg
    | value _ => simp [WF] at h1
    | short key1 c1 =>
      cases t2 with
      | empty =>
        obtain ⟨k, v, hk, hg⟩ := witness h1 b1 rfl
        rw [he k hk, getN_empty] at hg; cases hg
      | value _ => simp [WF] at h2
      | full cs2 =>
        obtain ⟨i, j, r, s, v, w, hij, hki, hkj, hgi, hgj⟩ := two_first h2 b2
        rw [← he _ hki] at hgi
        rw [← he _ hkj] at hgj
        have p1 := short_prefix h1 hgi
        have p2 := short_prefix h1 hgj
        cases key1 with
        | nil => exact absurd rfl (wf_short_key_ne h1)
        | cons x rest =>
          rw [List.cons_prefix_cons] at p1 p2
          exact absurd (p1.1.symm.trans p2.1) hij
      | short key2 c2 =>
        have hkeys : key1 = key2 := by
          rcases key_split key1 key2 with ⟨rest, hr⟩ | ⟨b, key1', hr⟩ | ⟨p, a, k1, b, k2, hab, hr1, hr2⟩
          · cases rest with
            | nil => simpa using hr
            | cons x rest => exact (short_key_not_longer h1 h2 b2 he hr).elim
          · exact (short_key_not_longer h2 h1 b1 (fun k hk => (he k hk).symm) hr).elim
          · obtain ⟨k, v, hk, hg⟩ := witness h1 b1 rfl
            have p1 := short_prefix h1 hg
            rw [he k hk] at hg
            have p2 := short_prefix h2 hg
            subst hr1 hr2
            obtain ⟨s1, rfl⟩ := p1
            rw [List.append_assoc, List.prefix_append_right_inj, List.cons_append, List.cons_prefix_cons] at p2
            exact absurd p2.1.symm hab
        subst hkeys
        rcases wf_short h1 with ⟨hk1, w1, rfl⟩ | ⟨hk1, cs1, rfl, hc1⟩
        · rcases wf_short h2 with ⟨_, w2, rfl⟩ | ⟨hk2, _, _, _⟩
          · have g1 := getN_short_value_self hk1 w1
            have g2 := getN_short_value_self hk1 w2
            rw [he _ hk1, g2] at g1
            cases g1; rfl
          · exact absurd hk1 (nk_not_tk hk2.2)
        · rcases wf_short h2 with ⟨hk2, _, _⟩ | ⟨_, cs2, rfl, hc2⟩
          · exact absurd hk2 (nk_not_tk hk1.2)
          · simp only [Br] at b1 b2
            simp only [Node.size] at hs
            have := ih (.full cs1) (.full cs2) (by simp only [Node.size]; omega) (by simpa only [WF] using hc1) (by simpa only [Br] using b1)
              (by simpa only [WF] using hc2) (by simpa only [Br] using b2)
              (by
                intro k hk
                have := he (key1 ++ k) ((tk_append (tk_ne_nil hk)).mpr ⟨hk1.2, hk⟩)
                rwa [getN_short_append h1, getN_short_append h2] at this)
            rw [this]
    | full cs1 =>
      cases t2 with
      | empty =>
        obtain ⟨k, v, hk, hg⟩ := witness h1 b1 rfl
        rw [he k hk, getN_empty] at hg; cases hg
      | value _ => simp [WF] at h2
      | short key2 c2 =>
        obtain ⟨i, j, r, s, v, w, hij, hki, hkj, hgi, hgj⟩ := two_first h1 b1
        rw [he _ hki] at hgi
        rw [he _ hkj] at hgj
        have p1 := short_prefix h2 hgi
        have p2 := short_prefix h2 hgj
        cases key2 with
        | nil => exact absurd rfl (wf_short_key_ne h2)
        | cons x rest =>
          rw [List.cons_prefix_cons] at p1 p2
          exact absurd (p1.1.symm.trans p2.1) hij
      | full cs2 =>
        simp only [WF] at h1 h2
        simp only [Br] at b1 b2
        simp only [Node.size] at hs
        have l1 := wfc_length cs1 0 h1
        have l2 := wfc_length cs2 0 h2
        have : cs1 = cs2 := by
          apply Children.ext' cs1 cs2 (by omega)
          intro i
          by_cases hi : i < 17
          · have s1 := wfc_get cs1 0 i h1 (by omega)
            have s2 := wfc_get cs2 0 i h2 (by omega)
            simp only [Nat.zero_add] at s1 s2
            by_cases h16 : i = 16
            · subst h16
              simp only [slotOK, if_true] at s1 s2
              have e := he [16] ⟨[], rfl, nk_nil⟩
              rw [getN_full_cons, getN_full_cons] at e
              cases hn1 : cs1.get 16 with
              | short _ _ => rw [hn1] at s1; simp [SlotVal] at s1
              | full _ => rw [hn1] at s1; simp [SlotVal] at s1
              | empty =>
                cases hn2 : cs2.get 16 with
                | short _ _ => rw [hn2] at s2; simp [SlotVal] at s2
                | full _ => rw [hn2] at s2; simp [SlotVal] at s2
                | empty => rfl
                | value w2 => rw [hn1, hn2, getN_empty] at e; cases e
              | value w1 =>
                cases hn2 : cs2.get 16 with
                | short _ _ => rw [hn2] at s2; simp [SlotVal] at s2
                | full _ => rw [hn2] at s2; simp [SlotVal] at s2
                | empty => rw [hn1, hn2, getN_empty] at e; cases e
                | value w2 =>
                  rw [hn1, hn2] at e
                  have : some w1 = some w2 := e
                  cases this; rfl
            · simp only [slotOK, if_neg h16] at s1 s2
              apply ih (cs1.get i) (cs2.get i) (by have := size_get cs1 i; omega) s1 (brc_get cs1 i b1.2)
                s2 (brc_get cs2 i b2.2)
              intro k hk
              have := he (i :: k) (tk_cons.mpr (Or.inr ⟨by omega, hk⟩))
              rwa [getN_full_cons, getN_full_cons] at this
          · rw [Children.get_of_ge cs1 i (by omega), Children.get_of_ge cs2 i (by omega)]
        rw [this]

/-- the trie is determined by its content -/
theorem canon {t1 t2 : Node} (h1 : WF t1) (b1 : Br t1) (h2 : WF t2) (b2 : Br t2)
    (he : ∀ k, TermKey k → getN t1 k = getN t2 k) : t1 = t2 :=
  canon_sized t1.size t1 t2 (Nat.le_refl _) h1 b1 h2 b2 he

end AnnVerif.Trie
