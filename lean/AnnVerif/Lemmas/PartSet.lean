import AnnVerif.Lemmas.Merkle
namespace AnnVerif.Merkle

variable (H : Bytes → Bytes) (N : Bytes → Bytes → Bytes)

/-- an explicit collision of the leaf hash -/
def CollisionH : Prop := ∃ a b : Bytes, a ≠ b ∧ H a = H b

/-! ### chunking -/

theorem chunksAux_flatten (sz : Nat) (hsz : 0 < sz) : ∀ (fuel : Nat) (d : Bytes),
    d.length ≤ fuel → (chunksAux sz fuel d).flatten = d := by
  intro fuel
  induction fuel with
  | zero =>
    intro d hd
    have : d = [] := List.eq_nil_of_length_eq_zero (by omega)
    subst this; simp [chunksAux]
  | succ f ih =>
    intro d hd
    match d with
    | [] => simp [chunksAux]
    | x :: t =>
      simp only [chunksAux, List.flatten_cons]
      rw [ih]
      · exact List.take_append_drop sz (x :: t)
      · simp only [List.length_drop, List.length_cons] at *; omega

/-- reading the chunks back gives the data, for every data length and part size > 0 -/
theorem chunks_flatten (sz : Nat) (hsz : 0 < sz) (d : Bytes) : (chunks sz d).flatten = d :=
  chunksAux_flatten sz hsz d.length d (Nat.le_refl _)

/-! ### the part-set invariant -/

def countSome (l : List (Option Part)) : Nat := (l.filter Option.isSome).length

/-- what holds of every part set reachable from `fromHeader n r` where `r` is the root of the
    leaf hashes `hs`: each stored part carries the genuine leaf hash at its slot (or a collision
    of the combiner has been exhibited). -/
structure Inv (hs : List Bytes) (r : Bytes) (ps : PartSet) : Prop where
  total : ps.total = hs.length
  hash : ps.hash = r
  len : ps.parts.length = hs.length
  count : ps.count = countSome ps.parts
  genuine : ∀ (i : Nat) (hi : i < hs.length) (p : Part), ps.parts[i]? = some (some p) →
    p.index = (i : Int) ∧ (H p.bytes = hs[i] ∨ CollisionN N)

theorem countSome_replicate (n : Nat) : countSome (List.replicate n none) = 0 := by
  unfold countSome
  induction n with
  | zero => rfl
  | succ n ih => simp [List.replicate_succ]

theorem inv_fromHeader (hs : List Bytes) (r : Bytes) : Inv H N hs r (fromHeader hs.length r) := by
  refine ⟨rfl, rfl, by simp [fromHeader], ?_, ?_⟩
  · simp [fromHeader, countSome_replicate]
  · intro i hi p h
    simp [fromHeader, List.getElem?_replicate, hi] at h

theorem countSome_set (l : List (Option Part)) (i : Nat) (p : Part) (h : l[i]? = some none) :
    countSome (l.set i (some p)) = countSome l + 1 := by
  unfold countSome
  induction l generalizing i with
  | nil => simp at h
  | cons x t ih =>
    cases i with
    | zero =>
      simp at h; subst h
      simp [List.filter_cons]
    | succ j =>
      simp at h
      simp only [List.set_cons_succ, List.filter_cons]
      split <;> simp [ih j h]

/-- every outcome other than `added` leaves the set exactly as it was -/
theorem addPart_rejected_unchanged (cfg : Cfg) (ps : PartSet) (p : Part) (v : Bool)
    (h : (addPart H N cfg ps p v).2 ≠ .added) : (addPart H N cfg ps p v).1 = ps := by
  unfold addPart at *
  split
  · rename_i hd; rw [hd] at h; simp at h
  · rfl

theorem addPart_snd (cfg : Cfg) (ps : PartSet) (p : Part) (v : Bool) :
    (addPart H N cfg ps p v).2 = addDecide H N cfg ps p v := by
  unfold addPart
  split
  · rename_i hd; rw [hd]
  · rfl

theorem verify_ok_true {cfg : Cfg} {idx total : Int} {leaf : Bytes} {aunts : List Bytes} {r : Bytes}
    (h : verify N cfg idx total leaf aunts r = .ok true) :
    computeRev N cfg idx total leaf aunts.reverse = .ok (some r) := by
  unfold verify compute at h
  split at h
  · rename_i hh hc; rw [hc]; simp at h; rw [h]
  · simp at h
  · simp at h
  · simp at h

/-- T3b: a part is ADDED (with verification on) only if its index is in range, its slot was empty
    and its bytes hash to the genuine leaf at that index — or a combiner collision is exhibited. -/
theorem addDecide_added_genuine (cfg : Cfg) (hs : List Bytes) (r : Bytes) (hr : root N hs = some r)
    (ps : PartSet) (p : Part) (hinv : Inv H N hs r ps)
    (h : addDecide H N cfg ps p true = .added) :
    ∃ i : Nat, p.index = (i : Int) ∧ ∃ hi : i < hs.length, ps.parts[i]? = some none ∧
      (H p.bytes = hs[i] ∨ CollisionN N) := by
  unfold addDecide at h
  split at h
  · simp at h
  · rename_i hrange
    split at h
    · simp at h
    · rename_i hneg
      have hr2 : p.index < (ps.total : Int) := by
        simp at hrange; omega
      refine ⟨p.index.toNat, by omega, by rw [← hinv.total]; omega, ?_⟩
      split at h
      · simp at h
      · simp at h
      · rename_i hslot
        refine ⟨hslot, ?_⟩
        simp only [if_true] at h
        split at h
        · rename_i hv
          have hc := verify_ok_true N hv
          have hidx : p.index = ((p.index.toNat : Nat) : Int) := by omega
          rw [hidx, hinv.total, hinv.hash] at hc
          have := computeRev_sound N cfg hs.length hs rfl p.index.toNat
            (by rw [← hinv.total]; omega) (H p.bytes) _ r hr hc
          exact this
        · simp at h
        · simp at h

/-- T3a: with the repaired guards, `AddPart` never panics on a well-formed set, whatever the
    part's index (any integer), bytes and proof. -/
theorem addDecide_no_panic (hs : List Bytes) (r : Bytes) (ps : PartSet) (p : Part) (v : Bool)
    (hinv : Inv H N hs r ps) : addDecide H N repaired ps p v ≠ .panic := by
  unfold addDecide
  split
  · simp
  · rename_i hrange
    have hr : ¬ (p.index < 0) ∧ p.index < (ps.total : Int) := by
      simp [repaired] at hrange; omega
    split
    · omega
    · have hlt : p.index.toNat < ps.parts.length := by rw [hinv.len, ← hinv.total]; omega
      split
      · rename_i hnone; rw [List.getElem?_eq_getElem hlt] at hnone; simp at hnone
      · simp
      · split
        · split
          · simp
          · simp
          · rename_i hk1 hk2
            exfalso
            unfold verify compute at hk1 hk2
            obtain ⟨o, ho⟩ := computeRev_repaired_total N (H p.bytes) p.aunts.reverse p.index ↑ps.total
            rw [ho] at hk1 hk2
            cases o with
            | none => simp at hk2
            | some h =>
              by_cases hb : (h == ps.hash) = true
              · simp [hb] at hk1
              · simp [hb] at hk2
        · simp

/-- the invariant is preserved by every `AddPart` (verification on), for both variants -/
theorem addPart_inv (cfg : Cfg) (hs : List Bytes) (r : Bytes) (hr : root N hs = some r)
    (ps : PartSet) (p : Part) (hinv : Inv H N hs r ps) :
    Inv H N hs r (addPart H N cfg ps p true).1 := by
  unfold addPart
  split
  · rename_i hd
    obtain ⟨i, hidx, hi, hslot, hgen⟩ := addDecide_added_genuine H N cfg hs r hr ps p hinv hd
    have hto : p.index.toNat = i := by omega
    rw [hto]
    refine ⟨hinv.total, hinv.hash, by simp [hinv.len], ?_, ?_⟩
    · simp only; rw [countSome_set _ _ _ hslot, hinv.count]
    · intro j hj q hq
      simp only at hq
      by_cases hji : i = j
      · subst hji
        rw [List.getElem?_set_self (by rw [hinv.len]; exact hi)] at hq
        simp at hq; subst hq
        exact ⟨hidx, hgen⟩
      · rw [List.getElem?_set_ne hji] at hq
        exact hinv.genuine j hj q hq
  · exact hinv

/-- T3c: the genuine part for an empty slot is always accepted (both variants). -/
theorem addDecide_genuine_accepted (cfg : Cfg) (hs : List Bytes) (r : Bytes) (hr : root N hs = some r)
    (ps : PartSet) (hinv : Inv H N hs r ps) (i : Nat) (hi : i < hs.length)
    (hslot : ps.parts[i]? = some none) (bytes : Bytes) (hb : H bytes = hs[i]) :
    addDecide H N cfg ps ⟨(i : Int), bytes, aunts N hs i⟩ true = .added := by
  unfold addDecide
  have h1 : ¬ ((cfg.checkNeg && decide (((i : Int)) < 0)) || decide ((i : Int) ≥ (ps.total : Int))) = true := by
    simp; rw [hinv.total]; omega
  simp only [h1, if_false]
  have h2 : ¬ ((i : Int) < 0) := by omega
  simp only [h2, if_false, Int.toNat_natCast, hslot, if_true]
  obtain ⟨r', hr', hc⟩ := computeRev_complete N cfg hs.length hs rfl i hi
  rw [hr] at hr'; injection hr' with hr'; subst hr'
  have : verify N cfg (i : Int) (ps.total : Int) (H bytes) (aunts N hs i) ps.hash = .ok true := by
    unfold verify compute
    rw [hinv.total, hb, hc, hinv.hash]; simp
  rw [this]; simp

/-! ### reassembly -/

def addAll (cfg : Cfg) (ps : PartSet) (arrivals : List Part) : PartSet :=
  arrivals.foldl (fun s p => (addPart H N cfg s p true).1) ps

theorem addAll_inv (cfg : Cfg) (hs : List Bytes) (r : Bytes) (hr : root N hs = some r)
    (arrivals : List Part) : ∀ (ps : PartSet), Inv H N hs r ps →
    Inv H N hs r (addAll H N cfg ps arrivals) := by
  induction arrivals with
  | nil => intro ps h; exact h
  | cons p t ih =>
    intro ps h
    exact ih _ (addPart_inv H N cfg hs r hr ps p h)

theorem countSome_full (l : List (Option Part)) (h : countSome l = l.length)
    (i : Nat) (hi : i < l.length) : ∃ p, l[i]? = some (some p) := by
  unfold countSome at h
  have hall : ∀ a ∈ l, a.isSome = true := by simpa using h
  have hm := hall l[i] (List.getElem_mem hi)
  rw [List.getElem?_eq_getElem hi]
  cases hx : l[i] with
  | none => rw [hx] at hm; simp at hm
  | some p => exact ⟨p, rfl⟩

theorem assemble_eq (cs : List Bytes) : ∀ (parts : List (Option Part)), parts.length = cs.length →
    (∀ (i : Nat) (hi : i < cs.length), ∃ p, parts[i]? = some (some p) ∧ p.bytes = cs[i]) →
    (parts.map partBytes).flatten = cs.flatten := by
  induction cs with
  | nil => intro parts hl _; have : parts = [] := List.eq_nil_of_length_eq_zero hl; subst this; rfl
  | cons c t ih =>
    intro parts hl hall
    match parts, hl with
    | x :: pt, hl =>
      obtain ⟨p, hp, hb⟩ := hall 0 (by simp)
      simp at hp hb; subst hp
      simp only [List.map_cons, List.flatten_cons, partBytes, hb]
      congr 1
      apply ih pt (by simpa using hl)
      intro i hi
      obtain ⟨q, hq, hqb⟩ := hall (i + 1) (by simp; omega)
      exact ⟨q, by simpa using hq, by simpa using hqb⟩

/-- T4 (reassembly): start from the header of `data` split into `sz`-byte parts; offer ANY
    sequence of parts (any order, duplicates, forged parts, out-of-range and negative indices).
    If the set reports complete, reading it back yields exactly `data` — or a hash collision
    (of the combiner or of the leaf hash) is exhibited. -/
theorem reassembly (cfg : Cfg) (data : Bytes) (sz : Nat) (hsz : 0 < sz) (r : Bytes)
    (hr : root N ((chunks sz data).map H) = some r) (arrivals : List Part)
    (hcomplete : isComplete (addAll H N cfg (fromHeader (chunks sz data).length r) arrivals) = true) :
    assemble (addAll H N cfg (fromHeader (chunks sz data).length r) arrivals) = data
      ∨ CollisionN N ∨ CollisionH H := by
  have hinv0 := inv_fromHeader H N ((chunks sz data).map H) r
  simp only [List.length_map] at hinv0
  have hinv := addAll_inv H N cfg _ r hr arrivals _ hinv0
  generalize addAll H N cfg (fromHeader (chunks sz data).length r) arrivals = ps at *
  by_cases hcn : CollisionN N
  · exact Or.inr (Or.inl hcn)
  by_cases hch : CollisionH H
  · exact Or.inr (Or.inr hch)
  left
  have hlen : ps.parts.length = (chunks sz data).length := by simpa using hinv.len
  have hfull : countSome ps.parts = ps.parts.length := by
    unfold isComplete at hcomplete
    have := hinv.count; have ht := hinv.total
    simp at hcomplete ht; omega
  unfold assemble
  rw [assemble_eq (chunks sz data) ps.parts hlen, chunks_flatten sz hsz]
  intro i hi
  obtain ⟨p, hp⟩ := countSome_full ps.parts hfull i (by omega)
  refine ⟨p, hp, ?_⟩
  have hg := (hinv.genuine i (by simpa using hi) p hp).2
  rcases hg with hg | hg
  · simp only [List.getElem_map] at hg
    by_cases hbe : p.bytes = (chunks sz data)[i]
    · exact hbe
    · exact absurd ⟨_, _, hbe, hg⟩ hch
  · exact absurd hg hcn

end AnnVerif.Merkle
