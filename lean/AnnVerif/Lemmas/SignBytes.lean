/-
  The canonical sign-bytes of a vote are INJECTIVE: for one chain id, two votes with the same
  sign-bytes have the same height, round, type and block id (hash, parts total, parts hash). Proved by
  reading the text back from the left: fixed pieces cancel, a hex string ends at the first quote, a
  decimal at the first character that is neither a digit nor '-'.
-/
import AnnVerif.Model.SignBytes
namespace AnnVerif.SignBytes
open AnnVerif.VoteSet

/-! ### text lemmas -/

/-- reading up to the first occurrence of a marker that occurs in neither prefix -/
theorem split_at_marker (c : Char) : ∀ (a a' r r' : List Char), c ∉ a → c ∉ a' →
    a ++ c :: r = a' ++ c :: r' → a = a' ∧ r = r' := by
  intro a
  induction a with
  | nil =>
    intro a' r r' _ ha' h
    cases a' with
    | nil => simp at h; exact ⟨rfl, h⟩
    | cons x t =>
      simp only [List.nil_append, List.cons_append, List.cons.injEq] at h
      exact absurd (h.1 ▸ List.mem_cons_self) ha'
  | cons x t ih =>
    intro a' r r' ha ha' h
    cases a' with
    | nil =>
      simp only [List.nil_append, List.cons_append, List.cons.injEq] at h
      exact absurd (h.1 ▸ List.mem_cons_self) ha
    | cons y t' =>
      simp only [List.cons_append, List.cons.injEq] at h
      have := ih t' r r' (fun m => ha (List.mem_cons_of_mem _ m)) (fun m => ha' (List.mem_cons_of_mem _ m)) h.2
      exact ⟨by rw [h.1, this.1], this.2⟩

/-- reading a run of characters of a class, ended on both sides by a character outside it -/
theorem split_at_class (P : Char → Bool) : ∀ (a a' : List Char) (c c' : Char) (r r' : List Char),
    (∀ x ∈ a, P x = true) → (∀ x ∈ a', P x = true) → P c = false → P c' = false →
    a ++ c :: r = a' ++ c' :: r' → a = a' ∧ c :: r = c' :: r' := by
  intro a
  induction a with
  | nil =>
    intro a' c c' r r' _ ha' hc _ h
    cases a' with
    | nil => exact ⟨rfl, by simpa using h⟩
    | cons x t =>
      simp only [List.nil_append, List.cons_append, List.cons.injEq] at h
      have := ha' x List.mem_cons_self
      rw [← h.1, hc] at this; cases this
  | cons x t ih =>
    intro a' c c' r r' ha ha' hc hc' h
    cases a' with
    | nil =>
      simp only [List.nil_append, List.cons_append, List.cons.injEq] at h
      have := ha x List.mem_cons_self
      rw [h.1, hc'] at this; cases this
    | cons y t' =>
      simp only [List.cons_append, List.cons.injEq] at h
      have := ih t' c c' r r' (fun z m => ha z (List.mem_cons_of_mem _ m)) (fun z m => ha' z (List.mem_cons_of_mem _ m)) hc hc' h.2
      exact ⟨by rw [h.1, this.1], this.2⟩

/-! ### hex -/

def isHex (c : Char) : Bool := (c.isDigit || (c.val ≥ 65 && c.val ≤ 70))

theorem hexDigit_isHex : ∀ n, n < 16 → isHex (hexDigit n) = true := by decide

theorem hexDigit_inj : ∀ a, a < 16 → ∀ b, b < 16 → hexDigit a = hexDigit b → a = b := by decide

theorem hexOf_isHex (b : Bytes) : ∀ x ∈ hexOf b, isHex x = true := by
  induction b with
  | nil => intro x hx; simp [hexOf] at hx
  | cons y t ih =>
    intro x hx
    simp only [hexOf, List.mem_cons] at hx
    rcases hx with hx | hx | hx
    · rw [hx]; exact hexDigit_isHex _ (by have := y.toNat_lt; omega)
    · rw [hx]; exact hexDigit_isHex _ (by omega)
    · exact ih x hx

theorem quote_not_hex (b : Bytes) : '"' ∉ hexOf b := fun h => by
  have := hexOf_isHex b _ h; revert this; decide

theorem hexOf_inj : ∀ a b : Bytes, hexOf a = hexOf b → a = b := by
  intro a
  induction a with
  | nil => intro b h; cases b with | nil => rfl | cons y t => simp [hexOf] at h
  | cons x t ih =>
    intro b h
    cases b with
    | nil => simp [hexOf] at h
    | cons y t' =>
      simp only [hexOf, List.cons.injEq] at h
      have h1 := hexDigit_inj _ (by have := x.toNat_lt; omega) _ (by have := y.toNat_lt; omega) h.1
      have h2 := hexDigit_inj _ (by omega) _ (by omega) h.2.1
      have : x.toNat = y.toNat := by omega
      rw [UInt8.toNat_inj.mp this, ih t' h.2.2]

/-! ### decimal -/

def isDec (c : Char) : Bool := c.isDigit || c == '-'

theorem digit_isDigit : ∀ d, d < 10 → (Char.ofNat (48 + d)).isDigit = true := by decide
theorem digit_inj : ∀ a, a < 10 → ∀ b, b < 10 → Char.ofNat (48 + a) = Char.ofNat (48 + b) → a = b := by decide

theorem natDigits_digits (n : Nat) : ∀ x ∈ natDigits n, x.isDigit = true := by
  induction n using Nat.strongRecOn with
  | _ n ih =>
    intro x hx
    rw [natDigits] at hx
    split at hx
    · simp only [List.mem_singleton] at hx; rw [hx]; exact digit_isDigit _ (by omega)
    · rcases List.mem_append.mp hx with hx | hx
      · exact ih (n / 10) (by omega) x hx
      · simp only [List.mem_singleton] at hx; rw [hx]; exact digit_isDigit _ (by omega)

theorem natDigits_ne_nil (n : Nat) : natDigits n ≠ [] := by
  rw [natDigits]; split <;> simp

theorem natDigits_inj : ∀ n m : Nat, natDigits n = natDigits m → n = m := by
  intro n
  induction n using Nat.strongRecOn with
  | _ n ih =>
    intro m h
    have en := natDigits.eq_1 n
    have em := natDigits.eq_1 m
    rw [en, em] at h
    by_cases hn : n < 10 <;> by_cases hm : m < 10
    · simp only [hn, hm, if_true, List.cons.injEq, and_true] at h
      exact digit_inj n hn m hm h
    · simp only [hn, hm, if_true, if_false] at h
      have := congrArg List.length h
      have l := List.length_pos_iff.mpr (natDigits_ne_nil (m / 10))
      simp only [List.length_cons, List.length_nil, List.length_append] at this; omega
    · simp only [hn, hm, if_true, if_false] at h
      have := congrArg List.length h
      have l := List.length_pos_iff.mpr (natDigits_ne_nil (n / 10))
      simp only [List.length_cons, List.length_nil, List.length_append] at this; omega
    · simp only [hn, hm, if_false] at h
      obtain ⟨h1, h2⟩ := List.append_inj' h rfl
      have e1 := ih (n / 10) (by omega) (m / 10) h1
      simp only [List.cons.injEq, and_true] at h2
      have e2 := digit_inj (n % 10) (by omega) (m % 10) (by omega) h2
      omega

theorem decOf_isDec (i : Int) : ∀ x ∈ decOf i, isDec x = true := by
  intro x hx
  unfold decOf at hx
  split at hx
  · simp only [List.mem_cons] at hx
    rcases hx with hx | hx
    · rw [hx]; decide
    · unfold isDec; rw [natDigits_digits _ x hx]; rfl
  · unfold isDec; rw [natDigits_digits _ x hx]; rfl

theorem decOf_inj (i j : Int) (h : decOf i = decOf j) : i = j := by
  unfold decOf at h
  by_cases hi : i < 0 <;> by_cases hj : j < 0
  · simp only [hi, hj, if_true, List.cons.injEq, true_and] at h
    have := natDigits_inj _ _ h; omega
  · simp only [hi, hj, if_true, if_false] at h
    exfalso
    have hd := natDigits_digits j.toNat '-' (by rw [← h]; exact List.mem_cons_self)
    revert hd; decide
  · simp only [hi, hj, if_true, if_false] at h
    exfalso
    have hd := natDigits_digits i.toNat '-' (by rw [h]; exact List.mem_cons_self)
    revert hd; decide
  · simp only [hi, hj, if_false] at h
    have := natDigits_inj _ _ h; omega

/-- a decimal followed by a character that cannot be part of one -/
theorem dec_then (i j : Int) (c c' : Char) (r r' : List Char) (hc : isDec c = false) (hc' : isDec c' = false)
    (h : decOf i ++ c :: r = decOf j ++ c' :: r') : i = j ∧ c :: r = c' :: r' := by
  obtain ⟨h1, h2⟩ := split_at_class isDec _ _ c c' r r' (decOf_isDec i) (decOf_isDec j) hc hc' h
  exact ⟨decOf_inj i j h1, h2⟩

/-- a hex string followed by a quote -/
theorem hex_then (a b : Bytes) (r r' : List Char) (h : hexOf a ++ '"' :: r = hexOf b ++ '"' :: r') : a = b ∧ r = r' := by
  obtain ⟨h1, h2⟩ := split_at_marker '"' _ _ r r' (quote_not_hex a) (quote_not_hex b) h
  exact ⟨hexOf_inj a b h1, h2⟩

/-! ### the parts header and the block id -/

theorem partsJson_then (t t' : Int) (p p' : Bytes) (r r' : List Char)
    (h : partsJson t p ++ r = partsJson t' p' ++ r') : t = t' ∧ p = p' ∧ r = r' := by
  unfold partsJson tHashOpen tTotal at h
  simp only [List.append_assoc, List.cons_append, List.nil_append, List.cons.injEq, true_and] at h
  obtain ⟨hp, h⟩ := hex_then p p' _ _ h
  simp only [List.cons.injEq, true_and] at h
  obtain ⟨ht, h⟩ := dec_then t t' '}' '}' _ _ (by decide) (by decide) h
  simp only [List.cons.injEq, true_and] at h
  exact ⟨ht, hp, h⟩

/-- the text of a block id, followed by `,"he…`, determines the block id -/
theorem bidJson_then (b b' : BlockID) (r r' : List Char)
    (h : bidJson b ++ ',' :: '"' :: 'h' :: 'e' :: r = bidJson b' ++ ',' :: '"' :: 'h' :: 'e' :: r') : b = b' ∧ r = r' := by
  obtain ⟨hs, t, ph⟩ := b
  obtain ⟨hs', t', ph'⟩ := b'
  unfold bidJson at h
  simp only at h
  have emp : ∀ l : Bytes, l.isEmpty = true → l = [] := fun l hl => by cases l <;> simp_all
  by_cases e1 : hs.isEmpty <;> by_cases e2 : (ph.isEmpty && t == 0) <;> by_cases e1' : hs'.isEmpty <;>
    by_cases e2' : (ph'.isEmpty && t' == 0) <;>
    simp only [e1, e2, e1', e2', if_true, if_false, Bool.false_eq_true, tHashOpen, tPartsOpen, tThenParts,
      List.append_assoc, List.cons_append, List.nil_append, List.cons.injEq, true_and, and_true,
      reduceCtorEq, and_false, false_and, Char.reduceEq] at h
  -- 16 cases; the mixed ones are already closed or reduce to an impossible first character
  all_goals first
    | exact absurd h (by simp)
    | skip
  · -- {} vs {}
    simp only [Bool.and_eq_true, beq_iff_eq] at e2 e2'
    rw [emp _ e1, emp _ e1', emp _ e2.1, emp _ e2'.1, e2.2, e2'.2]
    exact ⟨rfl, h⟩
  · -- {"parts":…} vs {"parts":…}
    obtain ⟨ht, hp, hr⟩ := partsJson_then _ _ _ _ _ _ h
    simp only [List.cons.injEq, true_and] at hr
    rw [emp _ e1, emp _ e1', ht, hp]
    exact ⟨rfl, hr⟩
  · -- {"hash":"…"} vs {"hash":"…"}
    obtain ⟨hh, hr⟩ := hex_then _ _ _ _ h
    simp only [List.cons.injEq, true_and] at hr
    simp only [Bool.and_eq_true, beq_iff_eq] at e2 e2'
    rw [hh, emp _ e2.1, emp _ e2'.1, e2.2, e2'.2]
    exact ⟨rfl, hr⟩
  · -- {"hash":"…"} vs {"hash":"…","parts":…}
    obtain ⟨_, hr⟩ := hex_then _ _ _ _ h
    simp at hr
  · obtain ⟨_, hr⟩ := hex_then _ _ _ _ h
    simp at hr
  · -- both with hash and parts
    obtain ⟨hh, hr⟩ := hex_then _ _ _ _ h
    simp only [List.cons.injEq, true_and] at hr
    obtain ⟨ht, hp, hr⟩ := partsJson_then _ _ _ _ _ _ hr
    simp only [List.cons.injEq, true_and] at hr
    rw [hh, ht, hp]
    exact ⟨rfl, hr⟩


/-- SIGN-BYTES ARE INJECTIVE (votes of one chain): equal text, equal height, round, type and block id -/
theorem voteJson_injective (chain : List Char) (h h' r r' : Int) (t t' : Nat) (b b' : BlockID)
    (e : voteJson chain h r t b = voteJson chain h' r' t' b') : h = h' ∧ r = r' ∧ t = t' ∧ b = b' := by
  unfold voteJson at e
  simp only [List.append_assoc] at e
  have e1 := List.append_cancel_left (List.append_cancel_left (List.append_cancel_left e))
  unfold tHeight at e1
  simp only [List.cons_append, List.nil_append] at e1
  obtain ⟨hb, e2⟩ := bidJson_then b b' _ _ e1
  simp only [List.cons.injEq, true_and] at e2
  unfold tRound at e2
  simp only [List.cons_append, List.nil_append] at e2
  obtain ⟨hh, e3⟩ := dec_then h h' ',' ',' _ _ (by decide) (by decide) e2
  simp only [List.cons.injEq, true_and] at e3
  unfold tType at e3
  simp only [List.cons_append, List.nil_append] at e3
  obtain ⟨hr, e4⟩ := dec_then r r' ',' ',' _ _ (by decide) (by decide) e3
  simp only [List.cons.injEq, true_and] at e4
  obtain ⟨ht, _⟩ := dec_then t t' '}' '}' _ _ (by decide) (by decide) e4
  exact ⟨hh, hr, by omega, hb⟩

/-- non-vacuity: two votes that differ only in the parts header of their block id -/
example : voteJson ['c'] 1 0 2 ⟨[1], 1, [2]⟩ ≠ voteJson ['c'] 1 0 2 ⟨[1], 2, [2]⟩ :=
  fun e => by have := (voteJson_injective _ _ _ _ _ _ _ _ _ e).2.2.2; cases this

end AnnVerif.SignBytes
