/-
  The last accepted change of a node decides its power: after `applyChanges`, a node whose last
  change in the block was "update to p" has power p - whatever earlier changes of the same block did.
-/
import AnnVerif.Lemmas.Admin
import AnnVerif.Lemmas.ValSetMembers
set_option linter.unusedSimpArgs false
namespace AnnVerif.Admin
open AnnVerif AnnVerif.ValSet

theorem takeWhile_lt_ne (vals : List Val) (a : Bytes) :
    ∀ w ∈ vals.takeWhile (fun v => bytesLt v.addr a), w.addr ≠ a := by
  induction vals with
  | nil => intro w hw; simp at hw
  | cons x t ih =>
    intro w hw he
    simp only [List.takeWhile_cons] at hw
    by_cases hx : bytesLt x.addr a = true
    · rw [if_pos hx] at hw
      rcases List.mem_cons.mp hw with rfl | hw
      · rw [he, bytesLt_irrefl] at hx; cases hx
      · exact ih w hw he
    · rw [if_neg hx] at hw; simp at hw

theorem take_takeWhile_length (p : Val → Bool) : ∀ l : List Val, l.take (l.takeWhile p).length = l.takeWhile p
  | [] => rfl
  | x :: t => by
    simp only [List.takeWhile_cons]
    split
    · simp [take_takeWhile_length p t]
    · simp

theorem find_none_of_ne (l : List Val) (a : Bytes) (h : ∀ w ∈ l, w.addr ≠ a) :
    l.find? (fun v => v.addr = a) = none := by
  rw [List.find?_eq_none]
  intro w hw
  simpa using h w hw

/-- after a successful `update` the node's power is the new one -/
theorem powerOf_update (vs : ValSet) (v : Val) (h : (update vs v).2 = true) :
    powerOf (update vs v).1.vals v.addr = some v.power := by
  unfold update at h ⊢
  simp only at h ⊢
  cases hw : vs.vals[searchIdx vs.vals v.addr]? with
  | none => rw [hw] at h; simp at h
  | some w =>
    rw [hw] at h
    simp only [hw]
    by_cases he : w.addr = v.addr
    · simp only [he, if_true]
      have hlt : searchIdx vs.vals v.addr < vs.vals.length := by
        rcases List.getElem?_eq_some_iff.mp hw with ⟨hl, _⟩; exact hl
      unfold powerOf
      rw [List.set_eq_take_append_cons_drop, if_pos hlt, List.find?_append]
      have hpre : (vs.vals.take (searchIdx vs.vals v.addr)).find? (fun x => x.addr = v.addr) = none := by
        apply find_none_of_ne
        intro x hx
        apply takeWhile_lt_ne vs.vals v.addr x
        have : vs.vals.take (searchIdx vs.vals v.addr) = vs.vals.takeWhile (fun y => bytesLt y.addr v.addr) := by
          unfold searchIdx
          exact take_takeWhile_length _ _
        rw [this] at hx; exact hx
      rw [hpre]
      simp
    · simp [he] at h

/-- an accepted "update a to p" of a member leaves a with power p -/
theorem applyChange_update_power (vs vs' : ValSet) (a : Bytes) (p : Int)
    (hm : (powerOf vs.vals a).isSome) (h : applyChange vs ⟨.update, a, p⟩ = some vs') :
    powerOf vs'.vals a = some p := by
  unfold applyChange at h
  simp only at h
  cases hp : powerOf vs.vals a with
  | none => rw [hp] at hm; simp at hm
  | some p0 =>
    rw [hp] at h
    simp only at h
    by_cases hne : p0 ≠ p
    · rw [if_pos hne] at h
      cases hf : vs.vals.find? (fun v => v.addr = a) with
      | none => rw [hf] at h; simp at h
      | some v =>
        rw [hf] at h
        simp only at h
        have hva : v.addr = a := by
          have := List.find?_some hf; simpa using this
        split at h
        · rename_i hok
          injection h with h
          rw [← h]
          have := powerOf_update vs { v with power := p } hok
          simpa [hva] using this
        · cases h
    · rw [if_neg hne] at h
      injection h with h
      rw [← h, hp]
      have : p0 = p := Classical.not_not.mp hne
      rw [this]

theorem applyChanges_append (vs : ValSet) (cs ds : List Change) :
    applyChanges vs (cs ++ ds) = (applyChanges vs cs).bind (fun v => applyChanges v ds) := by
  induction cs generalizing vs with
  | nil => simp [applyChanges]
  | cons c t ih =>
    simp only [List.cons_append, applyChanges]
    cases applyChange vs c with
    | none => simp
    | some v1 => simp [ih]

/-- THE LAST CHANGE WINS: whatever the block's earlier changes did (to this node or to others), if
    its last change is "update a to p" and a is a member by then, the next set holds a with power p -/
theorem last_update_wins (vs vs' : ValSet) (cs : List Change) (a : Bytes) (p : Int)
    (h : applyChanges vs (cs ++ [⟨.update, a, p⟩]) = some vs')
    (hm : ∀ mid, applyChanges vs cs = some mid → (powerOf mid.vals a).isSome) :
    powerOf vs'.vals a = some p := by
  rw [applyChanges_append] at h
  cases hmid : applyChanges vs cs with
  | none => rw [hmid] at h; simp at h
  | some mid =>
    rw [hmid] at h
    simp only [Option.bind_some, applyChanges] at h
    cases hc : applyChange mid ⟨.update, a, p⟩ with
    | none => rw [hc] at h; simp at h
    | some v1 =>
      rw [hc] at h
      simp only [Option.bind_some] at h
      injection h with h
      rw [← h]
      exact applyChange_update_power mid v1 a p (hm mid hmid) hc

end AnnVerif.Admin
