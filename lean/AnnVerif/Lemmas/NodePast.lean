/-
  What a node knew when it LEFT a height.

  The run invariants QJ (L8) and A3Inv (L10, L11) speak about the votes of the height the node is in,
  relative to the vote sets of that height; `finalizeCommit` throws those vote sets away. Votes can be
  signed in the very step that ends the height (the precommit that completes +2/3 arrives, the node
  signs its own precommit and commits), so the end-of-step state no longer says why such a vote was
  justified. The ghost field `Node.past` keeps the vote sets of every finished height as they were
  when `finalizeCommit` moved on; `PastInv` says that QJ's and A3Inv's statements about the votes of
  a finished height hold for ever relative to that frozen snapshot. It is kept by every handler:
  everywhere except in `finalizeCommit` nothing is signed for another height than the current one
  and `past` is untouched (`Fr`), and `finalizeCommit` freezes exactly what QJ and A3Inv say at that
  moment.
-/
import AnnVerif.Lemmas.NodeA3
namespace AnnVerif.Node

def prevotesOf (rs : List RoundVotes) (r : Int) : Option VoteSet.VoteSet := (rs.find? (·.round = r)).map (·.prevotes)

theorem prevotes_eq_of (n : Node) (r : Int) : prevotes n r = prevotesOf n.rounds r := rfl

/-- L8 and L10 for the votes of height `e.1`, relative to the vote sets `e.2` -/
structure PastOK (signed : List VoteSet.Vote) (e : Int × List RoundVotes) : Prop where
  just : ∀ v ∈ signed, v.height = e.1 → v.type = 2 → nonNil v → maj23 (prevotesOf e.2 v.round) = some v.bid
  lock : ∀ (i j : Nat) (_ : i < j) (hj : j < signed.length),
    (signed[i]'(by omega)).type = 2 → nonNil (signed[i]'(by omega)) → (signed[i]'(by omega)).height = e.1 →
    (signed[j]).type = 1 → (signed[j]).height = e.1 →
    (signed[i]'(by omega)).round < (signed[j]).round → (signed[j]).bid.hash ≠ (signed[i]'(by omega)).bid.hash →
    ∃ r'' bid'', (signed[i]'(by omega)).round < r'' ∧ r'' ≤ (signed[j]).round ∧
      maj23 (prevotesOf e.2 r'') = some bid'' ∧ bid''.hash ≠ (signed[i]'(by omega)).bid.hash

def PastInv (n : Node) : Prop := ∀ e ∈ n.past, e.1 < n.height ∧ PastOK n.signed e

/-- a step inside one height that leaves `past` alone and signs only for that height -/
structure Fr (n n' : Node) : Prop where
  h : n'.height = n.height
  past : n'.past = n.past
  sg : ∃ extra, n'.signed = n.signed ++ extra ∧ ∀ m ∈ extra, m.height = n.height

theorem Fr.rfl' (n : Node) : Fr n n := ⟨rfl, rfl, [], by simp, by simp⟩

theorem Fr.of_eq {n n' : Node} (h : n'.height = n.height) (p : n'.past = n.past) (s : n'.signed = n.signed) : Fr n n' :=
  ⟨h, p, [], by simp [s], by simp⟩

theorem Fr.trans {a b c : Node} (x : Fr a b) (y : Fr b c) : Fr a c := by
  obtain ⟨e1, h1, g1⟩ := x.sg
  obtain ⟨e2, h2, g2⟩ := y.sg
  refine ⟨y.h.trans x.h, y.past.trans x.past, e1 ++ e2, by rw [h2, h1, List.append_assoc], ?_⟩
  intro m hm
  rcases List.mem_append.mp hm with hm | hm
  · exact g1 m hm
  · rw [g2 m hm, x.h]

theorem PastOK.append {signed extra : List VoteSet.Vote} {e : Int × List RoundVotes} (p : PastOK signed e)
    (hx : ∀ m ∈ extra, m.height ≠ e.1) : PastOK (signed ++ extra) e := by
  refine ⟨?_, ?_⟩
  · intro v hv hh
    rcases List.mem_append.mp hv with hv | hv
    · exact p.just v hv hh
    · exact absurd hh (hx v hv)
  · intro i j hij hj h1 h2 h3 h4 h5
    by_cases hjl : j < signed.length
    · have ei : (signed ++ extra)[i]'(by omega) = signed[i]'(by omega) := List.getElem_append_left (by omega)
      have ej : (signed ++ extra)[j] = signed[j] := List.getElem_append_left hjl
      rw [ei] at h1 h2 h3 ⊢
      rw [ej] at h4 h5 ⊢
      exact p.lock i j hij hjl h1 h2 h3 h4 h5
    · exfalso
      have hm : (signed ++ extra)[j] ∈ extra := by
        rw [List.getElem_append_right (by omega)]
        exact List.getElem_mem _
      exact hx _ hm h5

theorem PastInv.fr {n n' : Node} (p : PastInv n) (f : Fr n n') : PastInv n' := by
  intro e he
  rw [f.past] at he
  obtain ⟨hlt, ok⟩ := p e he
  obtain ⟨extra, hs, hx⟩ := f.sg
  refine ⟨by rw [f.h]; exact hlt, ?_⟩
  rw [hs]
  exact ok.append (fun m hm => by rw [hx m hm]; omega)

/-! ### the frame lemmas, one per transition function that cannot end the height -/

theorem fr_emit (n : Node) (e : Emit) : Fr n (emit n e) := Fr.of_eq rfl rfl rfl

theorem fr_setRound (n : Node) (r : Int) : Fr n (setRound n r) := by
  unfold setRound; split <;> exact Fr.of_eq rfl rfl rfl

theorem fr_signAddVote (n : Node) (t : Nat) (bid : VoteSet.BlockID) : Fr n (signAddVote n t bid) := by
  unfold signAddVote
  split
  · dsimp only
    split
    · exact ⟨rfl, rfl, [_], rfl, by simp⟩
    · exact Fr.of_eq rfl rfl rfl
  · exact Fr.rfl' n

theorem fr_doPrevote (n : Node) : Fr n (doPrevote n) := by
  unfold doPrevote
  split
  · exact fr_signAddVote _ _ _
  · split
    · exact fr_signAddVote _ _ _
    · split <;> exact fr_signAddVote _ _ _

theorem fr_enterPrevote (n : Node) (h r : Int) : Fr n (enterPrevote n h r) := by
  unfold enterPrevote
  split
  · exact Fr.rfl' n
  · exact (fr_doPrevote n).trans (Fr.of_eq rfl rfl rfl)

theorem fr_enterPrevoteWait (n : Node) (h r : Int) : Fr n (enterPrevoteWait n h r) := by
  unfold enterPrevoteWait
  split
  · exact Fr.rfl' n
  · split
    · exact fr_emit _ _
    · exact Fr.of_eq rfl rfl rfl

theorem fr_enterPrecommitWait (n : Node) (h r : Int) : Fr n (enterPrecommitWait n h r) := by
  unfold enterPrecommitWait
  split
  · exact Fr.rfl' n
  · split
    · exact fr_emit _ _
    · exact Fr.of_eq rfl rfl rfl

theorem fr_decideProposal (n : Node) (h r : Int) : Fr n (decideProposal n h r) := by
  unfold decideProposal
  extract_lets own block pol p res m
  have hm : Fr n m := by unfold m; split <;> exact Fr.of_eq rfl rfl rfl
  split
  · split
    · exact hm.trans (Fr.of_eq rfl rfl rfl)
    · exact Fr.of_eq rfl rfl rfl
  · exact Fr.of_eq rfl rfl rfl

theorem fr_enterPropose (n : Node) (h r : Int) : Fr n (enterPropose n h r) := by
  unfold enterPropose
  split
  · exact Fr.rfl' n
  · extract_lets n1 n2 n3
    have f1 : Fr n n1 := fr_emit _ _
    have f2 : Fr n1 n2 := by
      unfold n2
      split
      · split
        · exact fr_decideProposal _ _ _
        · exact Fr.rfl' _
      · exact Fr.rfl' _
    have f3 : Fr n2 n3 := Fr.of_eq rfl rfl rfl
    split
    · exact ((f1.trans f2).trans f3).trans (fr_enterPrevote _ _ _)
    · exact (f1.trans f2).trans f3

theorem fr_enterNewRound (n : Node) (h r : Int) : Fr n (enterNewRound n h r) := by
  unfold enterNewRound
  split
  · exact Fr.rfl' n
  · extract_lets vals n1 n2 n3
    have f1 : Fr n n1 := Fr.of_eq rfl rfl rfl
    have f2 : Fr n1 n2 := by unfold n2; split <;> exact Fr.of_eq rfl rfl rfl
    have f3 : Fr n2 n3 := fr_setRound _ _
    exact ((f1.trans f2).trans f3).trans (fr_enterPropose _ _ _)

theorem fr_unlock (n : Node) : Fr n (unlock n) := Fr.of_eq rfl rfl rfl

theorem fr_enterPrecommit (n : Node) (h r : Int) : Fr n (enterPrecommit n h r) := by
  unfold enterPrecommit
  split
  · exact Fr.rfl' n
  · extract_lets fin
    have key : ∀ a b : Node, Fr a b → Fr a (fin b) := fun a b f => f.trans (Fr.of_eq rfl rfl rfl)
    split
    · exact key _ _ (fr_signAddVote _ _ _)
    · split
      · exact key _ _ (fr_emit _ _)
      · split
        · refine key _ _ (Fr.trans ?_ (fr_signAddVote _ _ _))
          split
          · exact fr_unlock _
          · exact Fr.rfl' _
        · split
          · exact key _ _ ((Fr.of_eq rfl rfl rfl : Fr n { n with lockedRound := r }).trans (fr_signAddVote _ _ _))
          · split
            · split
              · exact key _ _ (fr_emit _ _)
              · exact key _ _ ((Fr.of_eq rfl rfl rfl : Fr n { n with lockedRound := r, lockedBlock := n.proposalBlock }).trans
                  (fr_signAddVote _ _ _))
            · extract_lets m1
              have g2 : Fr n m1 := by unfold m1; split <;> exact Fr.of_eq rfl rfl rfl
              exact key _ _ (g2.trans (fr_signAddVote _ _ _))

theorem fr_setProposal (n : Node) (p : Proposal) (signer : Nat) (bad : Bool) : Fr n (setProposal n p signer bad) := by
  unfold setProposal
  repeat' split
  all_goals first | exact Fr.rfl' n | exact Fr.of_eq rfl rfl rfl

theorem fr_hvsAddVote (n : Node) (v : VoteSet.Vote) (sigok : Bool) (peer : String) :
    Fr n (hvsAddVote n v sigok peer).1 :=
  Fr.of_eq (hrs_hvsAddVote n v sigok peer).h (by
    unfold hvsAddVote
    split
    · rfl
    · split
      rename_i n' known heq
      have s : n'.past = n.past := by
        split at heq
        · cases heq; rfl
        · dsimp only at heq
          split at heq
          · cases heq; rfl
          · cases heq; rfl
      split
      · exact s
      · split
        · exact s
        · exact s) (signed_hvsAddVote n v sigok peer)

theorem fr_setPeerMaj23 (n : Node) (height round : Int) (type : Nat) (peer : String) (bid : VoteSet.BlockID) :
    Fr n (setPeerMaj23 n height round type peer bid) := by
  unfold setPeerMaj23
  split
  · exact Fr.rfl' n
  · split
    · exact Fr.rfl' n
    · split <;> first | exact Fr.rfl' n | exact Fr.of_eq rfl rfl rfl


/-! ### the three run invariants together, through every handler -/

structure Full (n : Node) : Prop where
  qj : QJ n
  a3 : A3Inv n
  past : PastInv n

theorem Full.keep {n n' : Node} (f : Full n) (e : Ext n n') (k : Kept n n') (l : Le n n')
    (hs : n'.signed = n.signed) (hp : n'.past = n.past) : Full n' :=
  ⟨f.qj.ext e, f.a3.keep e k l hs, f.past.fr (Fr.of_eq k.h hp hs)⟩

theorem Full.same {n n' : Node} (f : Full n) (hh : n'.height = n.height) (hr : n'.rounds = n.rounds)
    (hs : n'.signed = n.signed) (hp : n'.past = n.past) (k : Kept n n') (l : Le n n') : Full n' :=
  f.keep (Ext.frame hh hr hs) k l hs hp

theorem full_emit (n : Node) (e : Emit) (f : Full n) : Full (emit n e) :=
  ⟨f.qj.ext (ext_emit _ _), a3_emit _ _ f.a3, f.past.fr (fr_emit _ _)⟩

theorem full_enterNewRound (n : Node) (h r : Int) (f : Full n) : Full (enterNewRound n h r) :=
  ⟨f.qj.ext (ext_enterNewRound _ _ _), a3_enterNewRound _ _ _ f.a3, f.past.fr (fr_enterNewRound _ _ _)⟩

theorem full_enterPrevote (n : Node) (h r : Int) (hw : n.height = h → r ≤ n.round) (f : Full n) :
    Full (enterPrevote n h r) :=
  ⟨f.qj.ext (ext_enterPrevote _ _ _), a3_enterPrevote _ _ _ hw f.a3, f.past.fr (fr_enterPrevote _ _ _)⟩

theorem full_enterPrevoteWait (n : Node) (h r : Int) (f : Full n) : Full (enterPrevoteWait n h r) :=
  ⟨f.qj.ext (ext_enterPrevoteWait _ _ _), a3_enterPrevoteWait _ _ _ f.a3, f.past.fr (fr_enterPrevoteWait _ _ _)⟩

theorem full_enterPrecommit (n : Node) (h r : Int) (hw : n.height = h → r ≤ n.round) (f : Full n) :
    Full (enterPrecommit n h r) :=
  ⟨f.qj.ext (ext_enterPrecommit _ _ _ hw), a3_enterPrecommit _ _ _ hw f.a3, f.past.fr (fr_enterPrecommit _ _ _)⟩

theorem full_enterPrecommitWait (n : Node) (h r : Int) (f : Full n) : Full (enterPrecommitWait n h r) :=
  ⟨f.qj.ext (ext_enterPrecommitWait _ _ _), a3_enterPrecommitWait _ _ _ f.a3, f.past.fr (fr_enterPrecommitWait _ _ _)⟩

theorem full_setProposal (n : Node) (p : Proposal) (signer : Nat) (bad : Bool) (f : Full n) :
    Full (setProposal n p signer bad) :=
  ⟨f.qj.ext (ext_setProposal _ _ _ _), a3_setProposal _ _ _ _ f.a3, f.past.fr (fr_setProposal _ _ _ _)⟩

/-- what QJ and A3Inv say about the votes of the height the node is in, frozen -/
theorem Full.freeze {n : Node} (f : Full n) : PastOK n.signed (n.height, n.rounds) := by
  refine ⟨?_, ?_⟩
  · intro v hv hh ht hn
    exact (f.qj v hv).2 ht hh hn
  · intro i j hij hj h1 h2 h3 h4 h5 h6 h7
    exact f.a3.g3 i j hij hj ⟨h1, h2, h3⟩ h4 h5 h6 h7

/-- the moment the height ends -/
theorem PastInv.commit {n n' : Node} (f : Full n) (hh : n'.height = n.height + 1)
    (hp : n'.past = n.past ++ [(n.height, n.rounds)]) (hs : n'.signed = n.signed) : PastInv n' := by
  intro e he
  rw [hp] at he
  rw [hs, hh]
  rcases List.mem_append.mp he with he | he
  · obtain ⟨a, b⟩ := f.past e he
    exact ⟨by omega, b⟩
  · simp only [List.mem_singleton] at he
    subst he
    exact ⟨by show n.height < n.height + 1; omega, f.freeze⟩

theorem full_finalizeCommit (n : Node) (h : Int) (f : Full n) : Full (finalizeCommit n h) := by
  refine ⟨f.qj.ext (ext_finalizeCommit _ _), a3_finalizeCommit _ _ f.a3, ?_⟩
  unfold finalizeCommit
  split
  · exact f.past
  · rename_i hg
    split
    · split
      · exact f.past.fr (fr_emit _ _)
      · split
        · exact f.past.fr (fr_emit _ _)
        · split
          · exact f.past.fr (fr_emit _ _)
          · split
            · exact f.past.fr (fr_emit _ _)
            · have hh : n.height = h := Classical.not_not.mp (fun x => hg (Or.inl x))
              subst hh
              exact PastInv.commit (full_emit n _ f) rfl rfl rfl
    · exact f.past.fr (fr_emit _ _)

theorem full_tryFinalizeCommit (n : Node) (h : Int) (f : Full n) : Full (tryFinalizeCommit n h) := by
  unfold tryFinalizeCommit
  split
  · exact full_emit _ _ f
  · split
    · exact f
    · split
      · exact f
      · split
        · exact f
        · exact full_finalizeCommit _ _ f

theorem full_enterCommit (n : Node) (h cr : Int) (f : Full n) : Full (enterCommit n h cr) := by
  unfold enterCommit
  split
  · exact f
  · rename_i hg
    split
    · exact full_emit _ _ f
    · extract_lets n1 n2 n3
      have i1 : Full n1 := by
        unfold n1
        split
        · exact f.same rfl rfl rfl rfl ⟨rfl, rfl, rfl⟩ (Le.of_same ⟨rfl, rfl, rfl⟩)
        · exact f
      have s1 : SameHRS n n1 := by
        unfold n1
        split <;> exact ⟨rfl, rfl, rfl⟩
      have i2 : Full n2 := by
        unfold n2
        split
        · exact i1.same rfl rfl rfl rfl ⟨rfl, rfl, rfl⟩ (Le.of_same ⟨rfl, rfl, rfl⟩)
        · exact i1
      have s2 : SameHRS n1 n2 := by
        unfold n2
        split <;> exact ⟨rfl, rfl, rfl⟩
      have i3 : Full n3 := by
        refine i2.same rfl rfl rfl rfl ⟨rfl, rfl, rfl⟩ ?_
        apply Le.enter
        · rfl
        · exact Int.le_refl _
        · intro _
          show n2.step.toNat ≤ Step.commit.toNat
          rw [(s1.trans s2).s]
          have : ¬ Step.commit ≤ n.step := fun hh => hg (Or.inr hh)
          exact Nat.le_of_lt (step_lt_of_not_le this)
      exact full_tryFinalizeCommit _ _ i3

theorem full_addParts (n : Node) (height : Int) (block : Name) (own : Bool) (f : Full n) :
    Full (addParts n height block own) := by
  unfold addParts
  split
  · exact f
  · split
    · exact f
    · split
      · exact f
      · split
        · exact f
        · extract_lets m
          have im : Full m := f.same rfl rfl rfl rfl ⟨rfl, rfl, rfl⟩ (Le.of_same ⟨rfl, rfl, rfl⟩)
          split
          · exact full_enterPrevote m height m.round (fun _ => Int.le_refl _) im
          · split
            · exact full_tryFinalizeCommit _ _ im
            · exact im

theorem full_addVote (n : Node) (v : VoteSet.Vote) (sigok : Bool) (peer : String) (f : Full n) :
    Full (addVote n v sigok peer) := by
  unfold addVote
  split
  · split
    · exact f
    · split
      · split
        · exact f
        · exact full_emit _ _ f
      · split
        dsimp only
        split
        · apply full_enterNewRound
          exact f.same rfl rfl rfl rfl ⟨rfl, rfl, rfl⟩ (Le.of_same ⟨rfl, rfl, rfl⟩)
        · exact f.same rfl rfl rfl rfl ⟨rfl, rfl, rfl⟩ (Le.of_same ⟨rfl, rfl, rfl⟩)
  · split
    · have i0 : Full (hvsAddVote n v sigok peer).1 :=
        f.keep (ext_hvsAddVote _ _ _ _) (kept_hvsAddVote _ _ _ _) (Le.of_same (hrs_hvsAddVote _ _ _ _))
          (signed_hvsAddVote _ _ _ _) (fr_hvsAddVote _ _ _ _).past
      generalize hvsAddVote n v sigok peer = res at i0 ⊢
      obtain ⟨m, o⟩ := res
      dsimp only at i0 ⊢
      split
      · exact i0
      · split
        · have i1 : Full (if m.lockedBlock.isSome = true ∧ m.lockedRound < v.round ∧ v.round ≤ m.round then
              match maj23 (prevotes m v.round) with
              | some b => if (!hashesTo m.lockedBlock b.hash) = true then unlock m else m
              | none => m
            else m) := by
            split
            · rename_i hc
              split
              · rename_i b hb
                split
                · rename_i hne
                  exact ⟨i0.qj.ext (ext_unlock _), a3_unlock_on_polka m v.round b hb hc hne i0.a3, i0.past.fr (fr_unlock _)⟩
                · exact i0
              · exact i0
            · exact i0
          generalize (if m.lockedBlock.isSome = true ∧ m.lockedRound < v.round ∧ v.round ≤ m.round then
              match maj23 (prevotes m v.round) with
              | some b => if (!hashesTo m.lockedBlock b.hash) = true then unlock m else m
              | none => m
            else m) = m1 at i1 ⊢
          split
          · split
            · exact full_enterPrecommit _ _ _ (enterNewRound_hr m1 n.height v.round) (full_enterNewRound _ _ _ i1)
            · exact full_enterPrevoteWait _ _ _
                (full_enterPrevote _ _ _ (enterNewRound_hr m1 n.height v.round) (full_enterNewRound _ _ _ i1))
          · split
            · split
              · exact full_enterPrevote _ _ _ (fun _ => Int.le_refl _) i1
              · exact i1
            · exact i1
        · split
          · split
            · exact full_enterNewRound _ _ _ i0
            · have ic := full_enterCommit _ n.height v.round
                (full_enterPrecommit _ n.height v.round (enterNewRound_hr m n.height v.round)
                  (full_enterNewRound m n.height v.round i0))
              split
              · exact full_enterNewRound _ _ _ ic
              · exact ic
          · split
            · exact full_enterPrecommitWait _ _ _
                (full_enterPrecommit _ _ _ (enterNewRound_hr m n.height v.round) (full_enterNewRound _ _ _ i0))
            · exact i0
    · exact f

theorem full_handleTimeout (n : Node) (h r : Int) (s : Step) (hw : h = n.height → r ≤ n.round) (f : Full n) :
    Full (handleTimeout n h r s) := by
  unfold handleTimeout
  split
  · exact f
  · split
    · exact full_enterNewRound _ _ _ f
    · exact full_enterPrevote _ _ _ (fun e => hw e.symm) f
    · exact full_enterPrecommit _ _ _ (fun e => hw e.symm) f
    · exact full_enterNewRound _ _ _ f
    · exact full_emit _ _ f

theorem full_handleMsg (n : Node) (m : Msg) (peer : String) (f : Full n) : Full (handleMsg n m peer) := by
  unfold handleMsg
  split
  · exact full_setProposal _ _ _ _ f
  · exact full_addParts _ _ _ _ f
  · exact full_addVote _ _ _ _ f

theorem full_stepIn (n : Node) (inp : In) (f : Full n) (hw : WellTimed n inp) : Full (stepIn n inp) := by
  cases inp with
  | msg m peer => exact full_handleMsg _ _ _ f
  | own =>
    show Full (match n.queue with | [] => n | m :: rest => handleMsg { n with queue := rest } m "")
    split
    · exact f
    · rename_i m rest _
      have i' : Full { n with queue := rest } := f.same rfl rfl rfl rfl ⟨rfl, rfl, rfl⟩ (Le.of_same ⟨rfl, rfl, rfl⟩)
      exact full_handleMsg _ _ _ i'
  | timeout h r s => exact full_handleTimeout _ _ _ _ hw f
  | maj23 h r t peer bid =>
    exact f.keep (ext_setPeerMaj23 _ _ _ _ _ _) (kept_setPeerMaj23 _ _ _ _ _ _)
      (Le.of_same (hrs_setPeerMaj23 _ _ _ _ _ _)) (signed_setPeerMaj23 _ _ _ _ _ _) (fr_setPeerMaj23 _ _ _ _ _ _).past

theorem full_run (ins : List In) : ∀ n : Node, Full n → RunOK n ins → Full (ins.foldl stepIn n) := by
  induction ins with
  | nil => intro n i _; exact i
  | cons x rest ih => intro n i hr; exact ih _ (full_stepIn n x i hr.1) hr.2

end AnnVerif.Node
