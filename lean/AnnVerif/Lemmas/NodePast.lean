/-
  What a node knew when it LEFT a height.

  The run invariants QJ (L8) and A3Inv (L10, L11) speak about the votes of the height the node is in,
  relative to the vote sets of that height; `finalizeCommit` throws those vote sets away. Votes can be
  signed in the very step that ends the height (the precommit that completes +2/3 arrives, the node
  signs its own precommit and commits), so the end-of-step state no longer says why such a vote was
  justified. The ghost field `Node.past` keeps the vote sets of every finished height as they were
  when `finalizeCommit` moved on; `PastInv` says that QJ's and A3Inv's statements about the votes of
  a finished height hold for ever relative to that frozen snapshot. It is kept by every handler:
  everywhere except in `finalizeCommit` nothing is signed for another height than the current one
  and `past` is untouched (`Fr`), and `finalizeCommit` freezes exactly what QJ and A3Inv say at that
  moment.
-/
import AnnVerif.Lemmas.NodeA3
namespace AnnVerif.Node

def prevotesOf (rs : List RoundVotes) (r : Int) : Option VoteSet.VoteSet := (rs.find? (·.round = r)).map (·.prevotes)
def precommitsOf (rs : List RoundVotes) (r : Int) : Option VoteSet.VoteSet := (rs.find? (·.round = r)).map (·.precommits)

theorem prevotes_eq_of (n : Node) (r : Int) : prevotes n r = prevotesOf n.rounds r := rfl

/-- L8 and L10 for the votes of height `e.1`, relative to the vote sets `e.2` -/
structure PastOK (signed : List VoteSet.Vote) (e : Int × List RoundVotes) : Prop where
  just : ∀ v ∈ signed, v.height = e.1 → v.type = 2 → nonNil v → maj23 (prevotesOf e.2 v.round) = some v.bid
  lock : ∀ (i j : Nat) (_ : i < j) (hj : j < signed.length),
    (signed[i]'(by omega)).type = 2 → nonNil (signed[i]'(by omega)) → (signed[i]'(by omega)).height = e.1 →
    (signed[j]).type = 1 → (signed[j]).height = e.1 →
    (signed[i]'(by omega)).round < (signed[j]).round → (signed[j]).bid.hash ≠ (signed[i]'(by omega)).bid.hash →
    ∃ r'' bid'', (signed[i]'(by omega)).round < r'' ∧ r'' ≤ (signed[j]).round ∧
      maj23 (prevotesOf e.2 r'') = some bid'' ∧ bid''.hash ≠ (signed[i]'(by omega)).bid.hash

structure PastInv (n : Node) : Prop where
  ok : ∀ e ∈ n.past, e.1 < n.height ∧ PastOK n.signed e
  /-- every vote of a finished height has its snapshot -/
  cover : ∀ w ∈ n.signed, w.height < n.height → ∃ e ∈ n.past, e.1 = w.height

def Fresh (V : List VoteSet.Validator) (h : Int) (rv : RoundVotes) : Prop :=
  ∃ r, rv = ⟨r, VoteSet.new h r 1 V, VoteSet.new h r 2 V⟩

/-- a step inside one height that leaves `past` alone, signs only for that height, queues only
    votes it has signed, and adds only empty vote sets -/
structure Fr (n n' : Node) : Prop where
  h : n'.height = n.height
  past : n'.past = n.past
  sg : ∃ extra, n'.signed = n.signed ++ extra ∧
        ∀ m ∈ extra, m.height = n.height ∧ ∃ i : Nat, n.me = some i ∧ m.idx = (i : Int)
  me : n'.me = n.me
  qv : ∀ v ok, Msg.vote v ok ∈ n'.queue → Msg.vote v ok ∈ n.queue ∨ (v ∈ n'.signed ∧ ok = true)
  rd : ∀ rv ∈ n'.rounds, rv ∈ n.rounds ∨ Fresh (vsVals n.vals) n.height rv
  vv : vsVals n'.vals = vsVals n.vals
  v0 : n'.vals0 = n.vals0
  /-- no commit is emitted -/
  oc : ∀ h b, Emit.commit h b ∈ n'.out → Emit.commit h b ∈ n.out

theorem Fr.rfl' (n : Node) : Fr n n :=
  ⟨rfl, rfl, ⟨[], by simp, by simp⟩, rfl, fun _ _ h => Or.inl h, fun _ h => Or.inl h, rfl, rfl, fun _ _ h => h⟩

theorem Fr.of_eq {n n' : Node} (h : n'.height = n.height) (p : n'.past = n.past) (s : n'.signed = n.signed)
    (q : n'.queue = n.queue) (r : n'.rounds = n.rounds) (v : n'.vals = n.vals) (v0 : n'.vals0 = n.vals0)
    (m : n'.me = n.me) (o : n'.out = n.out) : Fr n n' :=
  ⟨h, p, ⟨[], by simp [s], by simp⟩, m, fun _ _ hm => Or.inl (by rw [← q]; exact hm), fun _ hm => Or.inl (by rw [← r]; exact hm), by rw [v], v0,
    fun _ _ hm => by rw [← o]; exact hm⟩

theorem Fr.signed_sub {a b : Node} (x : Fr a b) : ∀ v ∈ a.signed, v ∈ b.signed := by
  obtain ⟨e, h, _⟩ := x.sg
  intro v hv; rw [h]; exact List.mem_append_left _ hv

theorem Fr.trans {a b c : Node} (x : Fr a b) (y : Fr b c) : Fr a c := by
  obtain ⟨e1, h1, g1⟩ := x.sg
  obtain ⟨e2, h2, g2⟩ := y.sg
  refine ⟨y.h.trans x.h, y.past.trans x.past, ⟨e1 ++ e2, by rw [h2, h1, List.append_assoc], ?_⟩, y.me.trans x.me, ?_, ?_,
    y.vv.trans x.vv, y.v0.trans x.v0, fun h b hm => x.oc h b (y.oc h b hm)⟩
  · intro m hm
    rcases List.mem_append.mp hm with hm | hm
    · exact g1 m hm
    · have := g2 m hm
      rw [x.h, x.me] at this
      exact this
  · intro v ok hm
    rcases y.qv v ok hm with hm | hm
    · rcases x.qv v ok hm with hm | hm
      · exact Or.inl hm
      · exact Or.inr ⟨y.signed_sub _ hm.1, hm.2⟩
    · exact Or.inr hm
  · intro rv hm
    rcases y.rd rv hm with hm | hm
    · exact x.rd rv hm
    · rw [x.vv, x.h] at hm; exact Or.inr hm

theorem PastOK.append {signed extra : List VoteSet.Vote} {e : Int × List RoundVotes} (p : PastOK signed e)
    (hx : ∀ m ∈ extra, m.height ≠ e.1) : PastOK (signed ++ extra) e := by
  refine ⟨?_, ?_⟩
  · intro v hv hh
    rcases List.mem_append.mp hv with hv | hv
    · exact p.just v hv hh
    · exact absurd hh (hx v hv)
  · intro i j hij hj h1 h2 h3 h4 h5
    by_cases hjl : j < signed.length
    · have ei : (signed ++ extra)[i]'(by omega) = signed[i]'(by omega) := List.getElem_append_left (by omega)
      have ej : (signed ++ extra)[j] = signed[j] := List.getElem_append_left hjl
      rw [ei] at h1 h2 h3 ⊢
      rw [ej] at h4 h5 ⊢
      exact p.lock i j hij hjl h1 h2 h3 h4 h5
    · exfalso
      have hm : (signed ++ extra)[j] ∈ extra := by
        rw [List.getElem_append_right (by omega)]
        exact List.getElem_mem _
      exact hx _ hm h5

theorem PastInv.fr {n n' : Node} (p : PastInv n) (f : Fr n n') : PastInv n' := by
  obtain ⟨extra, hs, hx⟩ := f.sg
  refine ⟨?_, ?_⟩
  · intro e he
    rw [f.past] at he
    obtain ⟨hlt, ok⟩ := p.ok e he
    refine ⟨by rw [f.h]; exact hlt, ?_⟩
    rw [hs]
    exact ok.append (fun m hm => by rw [(hx m hm).1]; omega)
  · intro w hw hlt
    rw [f.past]
    rw [f.h] at hlt
    rw [hs] at hw
    rcases List.mem_append.mp hw with hw | hw
    · exact p.cover w hw hlt
    · have := (hx w hw).1; omega

/-! ### `vsVals` (addresses and powers) does not depend on the accums -/

theorem map_modify_eq {α β : Type} (g : α → β) (f : α → α) (hg : ∀ x, g (f x) = g x) :
    ∀ (l : List α) (i : Nat), (l.modify i f).map g = l.map g := by
  intro l
  induction l with
  | nil => intro i; simp
  | cons a t ih =>
    intro i
    cases i with
    | zero => simp [hg]
    | succ k => simp [ih k]

theorem vsVals_incrOnce (vs : ValSet.ValSet) : vsVals (ValSet.incrOnce vs) = vsVals vs := by
  have htv : (ValSet.totalVotingPower vs).1.vals = vs.vals := by
    unfold ValSet.totalVotingPower; split <;> rfl
  unfold vsVals ValSet.incrOnce
  generalize ValSet.totalVotingPower vs = tv at htv ⊢
  obtain ⟨vs1, t⟩ := tv
  dsimp only at htv ⊢
  split
  · rename_i hnil
    have : vs1.vals = [] := by simpa using hnil
    simp only
    rw [← htv, this]; rfl
  · simp only
    have := map_modify_eq (fun v : ValSet.Val => (⟨v.addr, v.power⟩ : VoteSet.Validator))
      (fun v : ValSet.Val => { v with accum := v.accum - t }) (fun x => rfl)
      (List.map (fun v : ValSet.Val => { v with accum := v.accum + v.power }) vs1.vals)
    rw [this, List.map_map, ← htv]
    rfl

theorem vsVals_iter (k : Nat) : ∀ vs : ValSet.ValSet, vsVals (ValSet.iter ValSet.incrOnce k vs) = vsVals vs := by
  induction k with
  | zero => intro vs; rfl
  | succ k ih => intro vs; rw [ValSet.iter, ih, vsVals_incrOnce]

theorem vsVals_incrementAccum (vs : ValSet.ValSet) (k : Nat) :
    vsVals (ValSet.incrementAccum ValSet.repaired vs k) = vsVals vs := by
  unfold ValSet.incrementAccum
  split
  · rfl
  · rw [if_pos (by rfl)]; exact vsVals_iter k vs

/-! ### the frame lemmas, one per transition function that cannot end the height -/

theorem fr_emit (n : Node) (e : Emit) (he : ∀ h b, e ≠ .commit h b) : Fr n (emit n e) :=
  ⟨rfl, rfl, ⟨[], by simp [emit], by simp⟩, rfl, fun _ _ hm => Or.inl hm, fun _ hm => Or.inl hm, rfl, rfl, by
    intro h b hm
    simp only [emit, List.mem_append, List.mem_singleton] at hm
    rcases hm with hm | hm
    · exact hm
    · exact absurd hm.symm (he h b)⟩

theorem fr_setRound (n : Node) (r : Int) : Fr n (setRound n r) := by
  unfold setRound
  split
  · exact fr_emit n (.panic "SetRound") (fun _ _ hc => by cases hc)
  · refine ⟨rfl, rfl, ⟨[], by simp, by simp⟩, rfl, fun _ _ h => Or.inl h, ?_, rfl, rfl, fun _ _ h => h⟩
    intro rv hm
    rcases List.mem_append.mp hm with hm | hm
    · exact Or.inl hm
    · obtain ⟨q, _, hq⟩ := List.mem_map.mp hm
      exact Or.inr ⟨q, hq.symm⟩

theorem fr_signAddVote (n : Node) (t : Nat) (bid : VoteSet.BlockID) : Fr n (signAddVote n t bid) := by
  unfold signAddVote
  split
  · dsimp only
    split
    · rename_i i a hme _ _
      refine ⟨rfl, rfl, ⟨[_], rfl, by intro m hm; simp only [List.mem_singleton] at hm; subst hm; exact ⟨rfl, i, hme, rfl⟩⟩, rfl, ?_,
        fun _ h => Or.inl h, rfl, rfl, fun _ _ h => h⟩
      intro v ok hm
      rcases List.mem_append.mp hm with hm | hm
      · exact Or.inl hm
      · simp only [List.mem_singleton, Msg.vote.injEq] at hm
        obtain ⟨hv, hok⟩ := hm
        subst hv
        exact Or.inr ⟨by simp, hok⟩
    · exact Fr.of_eq rfl rfl rfl rfl rfl rfl rfl rfl rfl
  · exact Fr.rfl' n

theorem fr_doPrevote (n : Node) : Fr n (doPrevote n) := by
  unfold doPrevote
  split
  · exact fr_signAddVote _ _ _
  · split
    · exact fr_signAddVote _ _ _
    · split <;> exact fr_signAddVote _ _ _

theorem fr_enterPrevote (n : Node) (h r : Int) : Fr n (enterPrevote n h r) := by
  unfold enterPrevote
  split
  · exact Fr.rfl' n
  · exact (fr_doPrevote n).trans (Fr.of_eq rfl rfl rfl rfl rfl rfl rfl rfl rfl)

theorem fr_enterPrevoteWait (n : Node) (h r : Int) : Fr n (enterPrevoteWait n h r) := by
  unfold enterPrevoteWait
  split
  · exact Fr.rfl' n
  · split
    · exact fr_emit _ _ (fun _ _ hc => by cases hc)
    · exact (fr_emit n _ (fun _ _ hc => by cases hc)).trans (Fr.of_eq rfl rfl rfl rfl rfl rfl rfl rfl rfl)

theorem fr_enterPrecommitWait (n : Node) (h r : Int) : Fr n (enterPrecommitWait n h r) := by
  unfold enterPrecommitWait
  split
  · exact Fr.rfl' n
  · split
    · exact fr_emit _ _ (fun _ _ hc => by cases hc)
    · exact (fr_emit n _ (fun _ _ hc => by cases hc)).trans (Fr.of_eq rfl rfl rfl rfl rfl rfl rfl rfl rfl)

/-- queueing a proposal and its parts adds no vote to the queue -/
theorem Fr.of_queue {n n' : Node} (h : n'.height = n.height) (p : n'.past = n.past) (s : n'.signed = n.signed)
    (q : ∀ v ok, Msg.vote v ok ∈ n'.queue → Msg.vote v ok ∈ n.queue) (r : n'.rounds = n.rounds)
    (v : n'.vals = n.vals) (v0 : n'.vals0 = n.vals0) (m : n'.me = n.me) (o : n'.out = n.out) : Fr n n' :=
  ⟨h, p, ⟨[], by simp [s], by simp⟩, m, fun a b hm => Or.inl (q a b hm), fun _ hm => Or.inl (by rw [← r]; exact hm), by rw [v], v0,
    fun _ _ hm => by rw [← o]; exact hm⟩

theorem fr_decideProposal (n : Node) (h r : Int) : Fr n (decideProposal n h r) := by
  unfold decideProposal
  extract_lets own block pol p res m
  have hm : Fr n m := by unfold m; split <;> exact Fr.of_eq rfl rfl rfl rfl rfl rfl rfl rfl rfl
  split
  · split
    · refine hm.trans (Fr.of_queue rfl rfl rfl ?_ rfl rfl rfl rfl rfl)
      intro v ok hq
      rcases List.mem_append.mp hq with hq | hq
      · exact hq
      · simp at hq
    · exact Fr.of_eq rfl rfl rfl rfl rfl rfl rfl rfl rfl
  · exact Fr.of_eq rfl rfl rfl rfl rfl rfl rfl rfl rfl

theorem fr_enterPropose (n : Node) (h r : Int) : Fr n (enterPropose n h r) := by
  unfold enterPropose
  split
  · exact Fr.rfl' n
  · extract_lets n1 n2 n3
    have f1 : Fr n n1 := fr_emit _ _ (fun _ _ hc => by cases hc)
    have f2 : Fr n1 n2 := by
      unfold n2
      split
      · split
        · exact fr_decideProposal _ _ _
        · exact Fr.rfl' _
      · exact Fr.rfl' _
    have f3 : Fr n2 n3 := Fr.of_eq rfl rfl rfl rfl rfl rfl rfl rfl rfl
    split
    · exact ((f1.trans f2).trans f3).trans (fr_enterPrevote _ _ _)
    · exact (f1.trans f2).trans f3

theorem fr_enterNewRound (n : Node) (h r : Int) : Fr n (enterNewRound n h r) := by
  unfold enterNewRound
  split
  · exact Fr.rfl' n
  · extract_lets vals n1 n2 n3
    have f1 : Fr n n1 := by
      refine ⟨rfl, rfl, ⟨[], by simp [n1], by simp⟩, rfl, fun _ _ hm => Or.inl hm, fun _ hm => Or.inl hm, ?_, rfl, fun _ _ hm => hm⟩
      show vsVals vals = vsVals n.vals
      unfold vals
      split
      · exact vsVals_incrementAccum _ _
      · rfl
    have f2 : Fr n1 n2 := by unfold n2; split <;> exact Fr.of_eq rfl rfl rfl rfl rfl rfl rfl rfl rfl
    have f3 : Fr n2 n3 := fr_setRound _ _
    exact ((f1.trans f2).trans f3).trans (fr_enterPropose _ _ _)

theorem fr_unlock (n : Node) : Fr n (unlock n) := Fr.of_eq rfl rfl rfl rfl rfl rfl rfl rfl rfl

theorem fr_enterPrecommit (n : Node) (h r : Int) : Fr n (enterPrecommit n h r) := by
  unfold enterPrecommit
  split
  · exact Fr.rfl' n
  · extract_lets fin
    have key : ∀ a b : Node, Fr a b → Fr a (fin b) := fun a b f => f.trans (Fr.of_eq rfl rfl rfl rfl rfl rfl rfl rfl rfl)
    split
    · exact key _ _ (fr_signAddVote _ _ _)
    · split
      · exact key _ _ (fr_emit _ _ (fun _ _ hc => by cases hc))
      · split
        · refine key _ _ (Fr.trans ?_ (fr_signAddVote _ _ _))
          split
          · exact fr_unlock _
          · exact Fr.rfl' _
        · split
          · exact key _ _ ((Fr.of_eq rfl rfl rfl rfl rfl rfl rfl rfl rfl : Fr n { n with lockedRound := r }).trans (fr_signAddVote _ _ _))
          · split
            · split
              · exact key _ _ (fr_emit _ _ (fun _ _ hc => by cases hc))
              · exact key _ _ ((Fr.of_eq rfl rfl rfl rfl rfl rfl rfl rfl rfl : Fr n { n with lockedRound := r, lockedBlock := n.proposalBlock }).trans
                  (fr_signAddVote _ _ _))
            · extract_lets m1
              have g2 : Fr n m1 := by unfold m1; split <;> exact Fr.of_eq rfl rfl rfl rfl rfl rfl rfl rfl rfl
              exact key _ _ (g2.trans (fr_signAddVote _ _ _))

theorem fr_setProposal (n : Node) (p : Proposal) (signer : Nat) (bad : Bool) : Fr n (setProposal n p signer bad) := by
  unfold setProposal
  repeat' split
  all_goals first | exact Fr.rfl' n | exact Fr.of_eq rfl rfl rfl rfl rfl rfl rfl rfl rfl

theorem past_hvsAddVote (n : Node) (v : VoteSet.Vote) (sigok : Bool) (peer : String) :
    (hvsAddVote n v sigok peer).1.past = n.past ∧ (hvsAddVote n v sigok peer).1.queue = n.queue ∧
    (hvsAddVote n v sigok peer).1.vals = n.vals ∧ (hvsAddVote n v sigok peer).1.vals0 = n.vals0 ∧
    (hvsAddVote n v sigok peer).1.me = n.me ∧ (hvsAddVote n v sigok peer).1.out = n.out := by
  unfold hvsAddVote
  split
  · exact ⟨rfl, rfl, rfl, rfl, rfl, rfl⟩
  · split
    rename_i n' known heq
    have s : n'.past = n.past ∧ n'.queue = n.queue ∧ n'.vals = n.vals ∧ n'.vals0 = n.vals0 ∧ n'.me = n.me ∧ n'.out = n.out := by
      split at heq
      · cases heq; exact ⟨rfl, rfl, rfl, rfl, rfl, rfl⟩
      · dsimp only at heq
        split at heq
        · cases heq; exact ⟨rfl, rfl, rfl, rfl, rfl, rfl⟩
        · cases heq; exact ⟨rfl, rfl, rfl, rfl, rfl, rfl⟩
    split
    · exact s
    · split
      · exact s
      · exact s

theorem past_setPeerMaj23 (n : Node) (height round : Int) (type : Nat) (peer : String) (bid : VoteSet.BlockID) :
    (setPeerMaj23 n height round type peer bid).past = n.past ∧ (setPeerMaj23 n height round type peer bid).queue = n.queue ∧
    (setPeerMaj23 n height round type peer bid).vals = n.vals ∧ (setPeerMaj23 n height round type peer bid).vals0 = n.vals0 ∧
    (setPeerMaj23 n height round type peer bid).me = n.me ∧ (setPeerMaj23 n height round type peer bid).out = n.out := by
  unfold setPeerMaj23
  split
  · exact ⟨rfl, rfl, rfl, rfl, rfl, rfl⟩
  · split
    · exact ⟨rfl, rfl, rfl, rfl, rfl, rfl⟩
    · split <;> exact ⟨rfl, rfl, rfl, rfl, rfl, rfl⟩

/-! ### what the vote sets hold: every stored vote was offered to this node with a verifying signature -/

/-- the vote sets `rs` of height `h` over the validators `V`: each satisfies the vote-set invariant
    (C15) relative to the history `hist` of votes offered to the node -/
def SetsOK (V : List VoteSet.Validator) (hist : VoteSet.Hist) (h : Int) (rs : List RoundVotes) : Prop :=
  ∀ rv ∈ rs, VoteSet.Inv VoteSet.repaired hist rv.prevotes ∧ VoteSet.Inv VoteSet.repaired hist rv.precommits ∧
    VoteSet.SameParams (VoteSet.new h rv.round 1 V) rv.prevotes ∧ VoteSet.SameParams (VoteSet.new h rv.round 2 V) rv.precommits ∧
    (∀ b, rv.prevotes.maj23 = some b → ∃ v, (v, true) ∈ hist ∧ v.bid = b) ∧
    (∀ b, rv.precommits.maj23 = some b → ∃ v, (v, true) ∈ hist ∧ v.bid = b)

theorem SetsOK.mono {V : List VoteSet.Validator} {hist : VoteSet.Hist} {h : Int} {rs : List RoundVotes}
    (x : VoteSet.Hist) (s : SetsOK V hist h rs) : SetsOK V (hist ++ x) h rs := by
  intro rv hm
  obtain ⟨a, b, c, d, e1, e2⟩ := s rv hm
  exact ⟨a.mono x, b.mono x, c, d,
    fun bb hb => (e1 bb hb).imp fun v hv => ⟨List.mem_append_left _ hv.1, hv.2⟩,
    fun bb hb => (e2 bb hb).imp fun v hv => ⟨List.mem_append_left _ hv.1, hv.2⟩⟩

theorem setsOK_fresh {V : List VoteSet.Validator} (hist : VoteSet.Hist) (h : Int) (rv : RoundVotes)
    (pos : ∀ val ∈ V, 0 ≤ val.power) (f : Fresh V h rv) :
    VoteSet.Inv VoteSet.repaired hist rv.prevotes ∧ VoteSet.Inv VoteSet.repaired hist rv.precommits ∧
    VoteSet.SameParams (VoteSet.new h rv.round 1 V) rv.prevotes ∧ VoteSet.SameParams (VoteSet.new h rv.round 2 V) rv.precommits ∧
    (∀ b, rv.prevotes.maj23 = some b → ∃ v, (v, true) ∈ hist ∧ v.bid = b) ∧
    (∀ b, rv.precommits.maj23 = some b → ∃ v, (v, true) ∈ hist ∧ v.bid = b) := by
  obtain ⟨r, hr⟩ := f
  subst hr
  have a := (VoteSet.inv_new VoteSet.repaired h r 1 V pos).mono hist
  have b := (VoteSet.inv_new VoteSet.repaired h r 2 V pos).mono hist
  rw [List.nil_append] at a b
  exact ⟨a, b, VoteSet.SameParams.refl _, VoteSet.SameParams.refl _, by intro b hb; simp [VoteSet.new] at hb,
    by intro b hb; simp [VoteSet.new] at hb⟩

structure VSI (V : List VoteSet.Validator) (n : Node) (hist : VoteSet.Hist) : Prop where
  pos : ∀ val ∈ V, 0 ≤ val.power
  vals : vsVals n.vals = V
  vals0 : vsVals n.vals0 = V
  cur : SetsOK V hist n.height n.rounds
  old : ∀ e ∈ n.past, SetsOK V hist e.1 e.2

theorem VSI.mono {V : List VoteSet.Validator} {n : Node} {hist : VoteSet.Hist} (x : VoteSet.Hist) (s : VSI V n hist) :
    VSI V n (hist ++ x) :=
  ⟨s.pos, s.vals, s.vals0, s.cur.mono x, fun e he => (s.old e he).mono x⟩

theorem VSI.fr {V : List VoteSet.Validator} {n n' : Node} {hist : VoteSet.Hist} (s : VSI V n hist) (f : Fr n n') :
    VSI V n' hist := by
  refine ⟨s.pos, f.vv.trans s.vals, by rw [f.v0]; exact s.vals0, ?_, by rw [f.past]; exact s.old⟩
  intro rv hm
  rw [f.h]
  rcases f.rd rv hm with hm | hm
  · exact s.cur rv hm
  · rw [s.vals] at hm
    exact setsOK_fresh hist _ rv s.pos hm

theorem setsOK_map {V : List VoteSet.Validator} {hist : VoteSet.Hist} {h : Int} {rs : List RoundVotes}
    (s : SetsOK V hist h rs) (R : Int) (rv' : RoundVotes)
    (ok : VoteSet.Inv VoteSet.repaired hist rv'.prevotes ∧ VoteSet.Inv VoteSet.repaired hist rv'.precommits ∧
      VoteSet.SameParams (VoteSet.new h rv'.round 1 V) rv'.prevotes ∧ VoteSet.SameParams (VoteSet.new h rv'.round 2 V) rv'.precommits ∧
      (∀ b, rv'.prevotes.maj23 = some b → ∃ v, (v, true) ∈ hist ∧ v.bid = b) ∧
      (∀ b, rv'.precommits.maj23 = some b → ∃ v, (v, true) ∈ hist ∧ v.bid = b)) :
    SetsOK V hist h (rs.map (fun x => if x.round = R then rv' else x)) := by
  intro x hx
  obtain ⟨y, hy, rfl⟩ := List.mem_map.mp hx
  split
  · exact ok
  · exact s y hy

theorem getRound_mem {n : Node} {r : Int} {rv : RoundVotes} (h : getRound n r = some rv) : rv ∈ n.rounds :=
  List.mem_of_find?_eq_some h

theorem vsi_hvsAddVote {V : List VoteSet.Validator} {hist : VoteSet.Hist} (n : Node) (v : VoteSet.Vote) (sigok : Bool)
    (peer : String) (s : VSI V n hist) : VSI V (hvsAddVote n v sigok peer).1 (hist ++ [(v, sigok)]) := by
  unfold hvsAddVote
  split
  · exact s.mono _
  · split
    rename_i n' known heq
    have s' : VSI V n' hist ∧ n'.height = n.height := by
      split at heq
      · cases heq; exact ⟨s, rfl⟩
      · dsimp only at heq
        split at heq
        · cases heq
          refine ⟨⟨s.pos, s.vals, s.vals0, ?_, s.old⟩, rfl⟩
          intro rv hm
          rcases List.mem_append.mp hm with hm | hm
          · exact s.cur rv hm
          · simp only [List.mem_singleton] at hm
            subst hm
            exact setsOK_fresh hist _ _ s.pos ⟨v.round, by rw [newRoundVotes, s.vals]⟩
        · cases heq; exact ⟨s, rfl⟩
    obtain ⟨s', hh⟩ := s'
    split
    · exact s'.mono _
    · split
      · exact s'.mono _
      · rename_i rv hrv
        have hm := getRound_mem hrv
        have hround : rv.round = v.round := getRound_round hrv
        obtain ⟨i1, i2, p1, p2, o1, o2⟩ := s'.cur rv hm
        have lift : ∀ {P : VoteSet.BlockID → Prop}, (∀ b, P b → ∃ w, (w, true) ∈ hist ∧ w.bid = b) →
            ∀ b, P b → ∃ w, (w, true) ∈ hist ++ [(v, sigok)] ∧ w.bid = b :=
          fun hP b hb => (hP b hb).imp fun w hw => ⟨List.mem_append_left _ hw.1, hw.2⟩
        have new1 : ∀ b, (VoteSet.addVote VoteSet.repaired rv.prevotes v sigok).1.maj23 = some b →
            ∃ w, (w, true) ∈ hist ++ [(v, sigok)] ∧ w.bid = b := by
          intro b hb
          rcases VoteSet.addVote_maj23 VoteSet.repaired rv.prevotes v sigok with h | ⟨_, h, hok⟩
          · rw [h] at hb; exact lift o1 b hb
          · rw [h] at hb; cases hb; exact ⟨v, by rw [hok]; simp, rfl⟩
        have new2 : ∀ b, (VoteSet.addVote VoteSet.repaired rv.precommits v sigok).1.maj23 = some b →
            ∃ w, (w, true) ∈ hist ++ [(v, sigok)] ∧ w.bid = b := by
          intro b hb
          rcases VoteSet.addVote_maj23 VoteSet.repaired rv.precommits v sigok with h | ⟨_, h, hok⟩
          · rw [h] at hb; exact lift o2 b hb
          · rw [h] at hb; cases hb; exact ⟨v, by rw [hok]; simp, rfl⟩
        have pos1 : ∀ val ∈ rv.prevotes.vals, 0 ≤ val.power := by rw [← p1.2.2.2]; exact s'.pos
        have pos2 : ∀ val ∈ rv.precommits.vals, 0 ≤ val.power := by rw [← p2.2.2.2]; exact s'.pos
        have a1 := VoteSet.addVote_inv (cfg := VoteSet.repaired) v sigok pos1 i1
        have a2 := VoteSet.addVote_inv (cfg := VoteSet.repaired) v sigok pos2 i2
        refine ⟨s'.pos, s'.vals, s'.vals0, ?_, fun e he => (s'.old e he).mono _⟩
        by_cases ht : v.type = 1
        · simp only [ht, if_true]
          generalize VoteSet.addVote VoteSet.repaired rv.prevotes v sigok = res at a1 new1 ⊢
          obtain ⟨vs', o⟩ := res
          exact setsOK_map (s'.cur.mono _) v.round _ ⟨a1.1, i2.mono _, p1.trans a1.2, p2, new1, lift o2⟩
        · simp only [ht, if_false]
          generalize VoteSet.addVote VoteSet.repaired rv.precommits v sigok = res at a2 new2 ⊢
          obtain ⟨vs', o⟩ := res
          exact setsOK_map (s'.cur.mono _) v.round _ ⟨i1.mono _, a2.1, p1, p2.trans a2.2, lift o1, new2⟩

theorem vsi_setPeerMaj23 {V : List VoteSet.Validator} {hist : VoteSet.Hist} (n : Node) (height round : Int) (type : Nat)
    (peer : String) (bid : VoteSet.BlockID) (s : VSI V n hist) : VSI V (setPeerMaj23 n height round type peer bid) hist := by
  unfold setPeerMaj23
  split
  · exact s
  · split
    · exact s
    · split
      · exact s
      · rename_i rv hrv
        have hm := getRound_mem hrv
        obtain ⟨i1, i2, p1, p2, o1, o2⟩ := s.cur rv hm
        have pos1 : ∀ val ∈ rv.prevotes.vals, 0 ≤ val.power := by rw [← p1.2.2.2]; exact s.pos
        have pos2 : ∀ val ∈ rv.precommits.vals, 0 ≤ val.power := by rw [← p2.2.2.2]; exact s.pos
        have a1 := VoteSet.setPeerMaj23_inv (cfg := VoteSet.repaired) peer bid pos1 i1
        have a2 := VoteSet.setPeerMaj23_inv (cfg := VoteSet.repaired) peer bid pos2 i2
        refine ⟨s.pos, s.vals, s.vals0, ?_, s.old⟩
        by_cases ht : type = 1
        · simp only [ht, if_true]
          exact setsOK_map s.cur round _ ⟨a1.1, i2, p1.trans a1.2, p2,
            by intro b hb; rw [VoteSet.setPeerMaj23_maj23] at hb; exact o1 b hb, o2⟩
        · simp only [ht, if_false]
          exact setsOK_map s.cur round _ ⟨i1, a2.1, p1, p2.trans a2.2, o1,
            by intro b hb; rw [VoteSet.setPeerMaj23_maj23] at hb; exact o2 b hb⟩

/-! ### the run invariants together, through every handler -/

/-- every vote in the node's own queue is one it has signed -/
def QS (n : Node) : Prop := ∀ v ok, Msg.vote v ok ∈ n.queue → v ∈ n.signed ∧ ok = true

structure Full (V : List VoteSet.Validator) (me0 : Option Nat) (n : Node) (hist : VoteSet.Hist) : Prop where
  qj : QJ n
  a3 : A3Inv n
  past : PastInv n
  vsi : VSI V n hist
  qs : QS n
  /-- signed votes carry the node's own validator index -/
  sm : ∀ w ∈ n.signed, ∃ i : Nat, n.me = some i ∧ w.idx = (i : Int)
  hme : n.me = me0
  /-- a commit was emitted with the +2/3 precommits of one round in the vote sets frozen at that moment -/
  cm : ∀ h b, Emit.commit h b ∈ n.out → ∃ e ∈ n.past, e.1 = h ∧ ∃ cr bid, maj23 (precommitsOf e.2 cr) = some bid ∧ bid.hash = b

variable {V : List VoteSet.Validator} {hist : VoteSet.Hist} {me0 : Option Nat}

theorem Full.mono {n : Node} (x : VoteSet.Hist) (f : Full V me0 n hist) : Full V me0 n (hist ++ x) :=
  ⟨f.qj, f.a3, f.past, f.vsi.mono x, f.qs, f.sm, f.hme, f.cm⟩

theorem Full.fr {n n' : Node} (f : Full V me0 n hist) (r : Fr n n') (e : Ext n n') (a : A3Inv n') : Full V me0 n' hist := by
  refine ⟨f.qj.ext e, a, f.past.fr r, f.vsi.fr r, ?_, ?_, r.me.trans f.hme, ?_⟩
  · intro v ok hm
    rcases r.qv v ok hm with hm | hm
    · exact ⟨r.signed_sub _ (f.qs v ok hm).1, (f.qs v ok hm).2⟩
    · exact hm
  · intro w hw
    obtain ⟨extra, hs, hx⟩ := r.sg
    rw [hs] at hw
    rw [r.me]
    rcases List.mem_append.mp hw with hw | hw
    · exact f.sm w hw
    · exact (hx w hw).2
  · intro h b hm
    rw [r.past]
    exact f.cm h b (r.oc h b hm)

theorem Full.same {n n' : Node} (f : Full V me0 n hist) (hh : n'.height = n.height) (hr : n'.rounds = n.rounds)
    (hs : n'.signed = n.signed) (hp : n'.past = n.past)
    (hq : ∀ v ok, Msg.vote v ok ∈ n'.queue → Msg.vote v ok ∈ n.queue) (hv : n'.vals = n.vals) (hv0 : n'.vals0 = n.vals0)
    (hm : n'.me = n.me) (ho : n'.out = n.out) (k : Kept n n') (l : Le n n') : Full V me0 n' hist :=
  f.fr (Fr.of_queue hh hp hs hq hr hv hv0 hm ho) (Ext.frame hh hr hs) (f.a3.keep (Ext.frame hh hr hs) k l hs)

theorem full_emit (n : Node) (e : Emit) (he : ∀ h b, e ≠ .commit h b) (f : Full V me0 n hist) : Full V me0 (emit n e) hist :=
  f.fr (fr_emit _ _ he) (ext_emit _ _) (a3_emit _ _ f.a3)

theorem full_enterNewRound (n : Node) (h r : Int) (f : Full V me0 n hist) : Full V me0 (enterNewRound n h r) hist :=
  f.fr (fr_enterNewRound _ _ _) (ext_enterNewRound _ _ _) (a3_enterNewRound _ _ _ f.a3)

theorem full_enterPrevote (n : Node) (h r : Int) (hw : n.height = h → r ≤ n.round) (f : Full V me0 n hist) :
    Full V me0 (enterPrevote n h r) hist :=
  f.fr (fr_enterPrevote _ _ _) (ext_enterPrevote _ _ _) (a3_enterPrevote _ _ _ hw f.a3)

theorem full_enterPrevoteWait (n : Node) (h r : Int) (f : Full V me0 n hist) : Full V me0 (enterPrevoteWait n h r) hist :=
  f.fr (fr_enterPrevoteWait _ _ _) (ext_enterPrevoteWait _ _ _) (a3_enterPrevoteWait _ _ _ f.a3)

theorem full_enterPrecommit (n : Node) (h r : Int) (hw : n.height = h → r ≤ n.round) (f : Full V me0 n hist) :
    Full V me0 (enterPrecommit n h r) hist :=
  f.fr (fr_enterPrecommit _ _ _) (ext_enterPrecommit _ _ _ hw) (a3_enterPrecommit _ _ _ hw f.a3)

theorem full_enterPrecommitWait (n : Node) (h r : Int) (f : Full V me0 n hist) : Full V me0 (enterPrecommitWait n h r) hist :=
  f.fr (fr_enterPrecommitWait _ _ _) (ext_enterPrecommitWait _ _ _) (a3_enterPrecommitWait _ _ _ f.a3)

theorem full_setProposal (n : Node) (p : Proposal) (signer : Nat) (bad : Bool) (f : Full V me0 n hist) :
    Full V me0 (setProposal n p signer bad) hist :=
  f.fr (fr_setProposal _ _ _ _) (ext_setProposal _ _ _ _) (a3_setProposal _ _ _ _ f.a3)

/-- what QJ and A3Inv say about the votes of the height the node is in, frozen -/
theorem Full.freeze {n : Node} (f : Full V me0 n hist) : PastOK n.signed (n.height, n.rounds) := by
  refine ⟨?_, ?_⟩
  · intro v hv hh ht hn
    exact (f.qj v hv).2 ht hh hn
  · intro i j hij hj h1 h2 h3 h4 h5 h6 h7
    exact f.a3.g3 i j hij hj ⟨h1, h2, h3⟩ h4 h5 h6 h7

/-- the moment the height ends -/
theorem PastInv.commit {n n' : Node} (f : Full V me0 n hist) (hh : n'.height = n.height + 1)
    (hp : n'.past = n.past ++ [(n.height, n.rounds)]) (hs : n'.signed = n.signed) : PastInv n' := by
  refine ⟨?_, ?_⟩
  · intro e he
    rw [hp] at he
    rw [hs, hh]
    rcases List.mem_append.mp he with he | he
    · obtain ⟨a, b⟩ := f.past.ok e he
      exact ⟨by omega, b⟩
    · simp only [List.mem_singleton] at he
      subst he
      exact ⟨by show n.height < n.height + 1; omega, f.freeze⟩
  · intro w hw hlt
    rw [hs] at hw
    rw [hh] at hlt
    rw [hp]
    by_cases hc : w.height < n.height
    · obtain ⟨e, he, h1⟩ := f.past.cover w hw hc
      exact ⟨e, List.mem_append_left _ he, h1⟩
    · have := (f.a3.hr w hw).1
      exact ⟨(n.height, n.rounds), List.mem_append_right _ (by simp), by show n.height = w.height; omega⟩

theorem full_finalizeCommit (n : Node) (h : Int) (f : Full V me0 n hist) : Full V me0 (finalizeCommit n h) hist := by
  have hq := f.qj.ext (ext_finalizeCommit n h)
  have ha := a3_finalizeCommit n h f.a3
  revert hq ha
  unfold finalizeCommit
  split
  · intro _ _; exact f
  · rename_i hg
    split
    · split
      · intro _ _; exact full_emit _ _ (fun _ _ hc => by cases hc) f
      · split
        · intro _ _; exact full_emit _ _ (fun _ _ hc => by cases hc) f
        · split
          · intro _ _; exact full_emit _ _ (fun _ _ hc => by cases hc) f
          · split
            · intro _ _; exact full_emit _ _ (fun _ _ hc => by cases hc) f
            · intro hq ha
              have hh : n.height = h := Classical.not_not.mp (fun x => hg (Or.inl x))
              subst hh
              rename_i blockID b hmaj hpb hpp hbn hval hpc
              refine ⟨hq, ha, PastInv.commit f rfl rfl rfl, ?_, ?_, ?_, ?_, ?_⟩
              · refine ⟨f.vsi.pos, ?_, ?_, ?_, ?_⟩
                · show vsVals (ValSet.incrementAccum ValSet.repaired n.vals0 1) = V
                  rw [vsVals_incrementAccum]; exact f.vsi.vals0
                · show vsVals (ValSet.incrementAccum ValSet.repaired n.vals0 1) = V
                  rw [vsVals_incrementAccum]; exact f.vsi.vals0
                · intro rv hm
                  simp only [emit, List.mem_singleton] at hm
                  subst hm
                  refine setsOK_fresh hist _ _ f.vsi.pos ⟨0, ?_⟩
                  simp only [newRoundVotes, emit]
                  rw [vsVals_incrementAccum, f.vsi.vals0]
                · intro e he
                  simp only [emit] at he
                  rcases List.mem_append.mp he with he | he
                  · exact f.vsi.old e he
                  · simp only [List.mem_singleton] at he
                    subst he
                    exact f.vsi.cur
              · intro v ok hm
                exact f.qs v ok hm
              · exact f.sm
              · exact f.hme
              · intro h' b' hm
                simp only [emit, List.mem_append, List.mem_singleton] at hm
                rcases hm with (hm | hm) | hm
                · obtain ⟨e, he, h1⟩ := f.cm h' b' hm
                  exact ⟨e, List.mem_append_left _ he, h1⟩
                · cases hm
                  refine ⟨(n.height, n.rounds), List.mem_append_right _ (by simp [emit]), rfl, n.commitRound, blockID, hmaj, ?_⟩
                  have : b = nameOf blockID := Classical.not_not.mp hbn
                  rw [this]; rfl
                · cases hm
    · intro _ _; exact full_emit _ _ (fun _ _ hc => by cases hc) f

theorem full_tryFinalizeCommit (n : Node) (h : Int) (f : Full V me0 n hist) : Full V me0 (tryFinalizeCommit n h) hist := by
  unfold tryFinalizeCommit
  split
  · exact full_emit _ _ (fun _ _ hc => by cases hc) f
  · split
    · exact f
    · split
      · exact f
      · split
        · exact f
        · exact full_finalizeCommit _ _ f

theorem full_enterCommit (n : Node) (h cr : Int) (f : Full V me0 n hist) : Full V me0 (enterCommit n h cr) hist := by
  unfold enterCommit
  split
  · exact f
  · rename_i hg
    split
    · exact full_emit _ _ (fun _ _ hc => by cases hc) f
    · extract_lets n1 n2 n3
      have i1 : Full V me0 n1 hist := by
        unfold n1
        split
        · exact f.same rfl rfl rfl rfl (fun _ _ h => h) rfl rfl rfl rfl ⟨rfl, rfl, rfl⟩ (Le.of_same ⟨rfl, rfl, rfl⟩)
        · exact f
      have s1 : SameHRS n n1 := by
        unfold n1
        split <;> exact ⟨rfl, rfl, rfl⟩
      have i2 : Full V me0 n2 hist := by
        unfold n2
        split
        · exact i1.same rfl rfl rfl rfl (fun _ _ h => h) rfl rfl rfl rfl ⟨rfl, rfl, rfl⟩ (Le.of_same ⟨rfl, rfl, rfl⟩)
        · exact i1
      have s2 : SameHRS n1 n2 := by
        unfold n2
        split <;> exact ⟨rfl, rfl, rfl⟩
      have i3 : Full V me0 n3 hist := by
        refine i2.same rfl rfl rfl rfl (fun _ _ h => h) rfl rfl rfl rfl ⟨rfl, rfl, rfl⟩ ?_
        apply Le.enter
        · rfl
        · exact Int.le_refl _
        · intro _
          show n2.step.toNat ≤ Step.commit.toNat
          rw [(s1.trans s2).s]
          have : ¬ Step.commit ≤ n.step := fun hh => hg (Or.inr hh)
          exact Nat.le_of_lt (step_lt_of_not_le this)
      exact full_tryFinalizeCommit _ _ i3

theorem full_addParts (n : Node) (height : Int) (block : Name) (own : Bool) (f : Full V me0 n hist) :
    Full V me0 (addParts n height block own) hist := by
  unfold addParts
  split
  · exact f
  · split
    · exact f
    · split
      · exact f
      · split
        · exact f
        · extract_lets m
          have im : Full V me0 m hist :=
            f.same rfl rfl rfl rfl (fun _ _ h => h) rfl rfl rfl rfl ⟨rfl, rfl, rfl⟩ (Le.of_same ⟨rfl, rfl, rfl⟩)
          split
          · exact full_enterPrevote m height m.round (fun _ => Int.le_refl _) im
          · split
            · exact full_tryFinalizeCommit _ _ im
            · exact im

theorem full_hvsAddVote (n : Node) (v : VoteSet.Vote) (sigok : Bool) (peer : String) (f : Full V me0 n hist) :
    Full V me0 (hvsAddVote n v sigok peer).1 (hist ++ [(v, sigok)]) := by
  have hp := past_hvsAddVote n v sigok peer
  have hs := signed_hvsAddVote n v sigok peer
  have hh := (hrs_hvsAddVote n v sigok peer).h
  refine ⟨f.qj.ext (ext_hvsAddVote _ _ _ _),
    f.a3.keep (ext_hvsAddVote _ _ _ _) (kept_hvsAddVote _ _ _ _) (Le.of_same (hrs_hvsAddVote _ _ _ _)) hs,
    ?_, vsi_hvsAddVote n v sigok peer f.vsi, ?_, ?_, ?_, ?_⟩
  · refine ⟨?_, ?_⟩
    · intro e he
      rw [hp.1] at he
      rw [hs, hh]
      exact f.past.ok e he
    · intro w hw hlt
      rw [hs] at hw; rw [hh] at hlt; rw [hp.1]
      exact f.past.cover w hw hlt
  · intro w ok hm
    rw [hp.2.1] at hm
    rw [hs]
    exact f.qs w ok hm
  · intro w hw
    rw [hs] at hw; rw [hp.2.2.2.2.1]
    exact f.sm w hw
  · rw [hp.2.2.2.2.1]; exact f.hme
  · intro h b hm
    rw [hp.2.2.2.2.2] at hm; rw [hp.1]
    exact f.cm h b hm

theorem full_addVote (n : Node) (v : VoteSet.Vote) (sigok : Bool) (peer : String) (f : Full V me0 n hist) :
    Full V me0 (addVote n v sigok peer) (hist ++ [(v, sigok)]) := by
  unfold addVote
  split
  · split
    · exact f.mono _
    · split
      · split
        · exact f.mono _
        · exact full_emit _ _ (fun _ _ hc => by cases hc) (f.mono _)
      · split
        dsimp only
        split
        · apply full_enterNewRound
          exact (f.mono _).same rfl rfl rfl rfl (fun _ _ h => h) rfl rfl rfl rfl ⟨rfl, rfl, rfl⟩ (Le.of_same ⟨rfl, rfl, rfl⟩)
        · exact (f.mono _).same rfl rfl rfl rfl (fun _ _ h => h) rfl rfl rfl rfl ⟨rfl, rfl, rfl⟩ (Le.of_same ⟨rfl, rfl, rfl⟩)
  · split
    · have i0 := full_hvsAddVote n v sigok peer f
      generalize hvsAddVote n v sigok peer = res at i0 ⊢
      obtain ⟨m, o⟩ := res
      dsimp only at i0 ⊢
      split
      · exact i0
      · split
        · have i1 : Full V me0 (if m.lockedBlock.isSome = true ∧ m.lockedRound < v.round ∧ v.round ≤ m.round then
              match maj23 (prevotes m v.round) with
              | some b => if (!hashesTo m.lockedBlock b.hash) = true then unlock m else m
              | none => m
            else m) (hist ++ [(v, sigok)]) := by
            split
            · rename_i hc
              split
              · rename_i b hb
                split
                · rename_i hne
                  exact i0.fr (fr_unlock _) (ext_unlock _) (a3_unlock_on_polka m v.round b hb hc hne i0.a3)
                · exact i0
              · exact i0
            · exact i0
          generalize (if m.lockedBlock.isSome = true ∧ m.lockedRound < v.round ∧ v.round ≤ m.round then
              match maj23 (prevotes m v.round) with
              | some b => if (!hashesTo m.lockedBlock b.hash) = true then unlock m else m
              | none => m
            else m) = m1 at i1 ⊢
          split
          · split
            · exact full_enterPrecommit _ _ _ (enterNewRound_hr m1 n.height v.round) (full_enterNewRound _ _ _ i1)
            · exact full_enterPrevoteWait _ _ _
                (full_enterPrevote _ _ _ (enterNewRound_hr m1 n.height v.round) (full_enterNewRound _ _ _ i1))
          · split
            · split
              · exact full_enterPrevote _ _ _ (fun _ => Int.le_refl _) i1
              · exact i1
            · exact i1
        · split
          · split
            · exact full_enterNewRound _ _ _ i0
            · have ic := full_enterCommit _ n.height v.round
                (full_enterPrecommit _ n.height v.round (enterNewRound_hr m n.height v.round)
                  (full_enterNewRound m n.height v.round i0))
              split
              · exact full_enterNewRound _ _ _ ic
              · exact ic
          · split
            · exact full_enterPrecommitWait _ _ _
                (full_enterPrecommit _ _ _ (enterNewRound_hr m n.height v.round) (full_enterNewRound _ _ _ i0))
            · exact i0
    · exact f.mono _

theorem full_handleTimeout (n : Node) (h r : Int) (s : Step) (hw : h = n.height → r ≤ n.round) (f : Full V me0 n hist) :
    Full V me0 (handleTimeout n h r s) hist := by
  unfold handleTimeout
  split
  · exact f
  · split
    · exact full_enterNewRound _ _ _ f
    · exact full_enterPrevote _ _ _ (fun e => hw e.symm) f
    · exact full_enterPrecommit _ _ _ (fun e => hw e.symm) f
    · exact full_enterNewRound _ _ _ f
    · exact full_emit _ _ (fun _ _ hc => by cases hc) f

/-- the votes an input offers to the vote sets, with their signature-oracle bit -/
def offeredMsg : Msg → VoteSet.Hist
  | .vote v ok => [(v, ok)]
  | _ => []

def offered (n : Node) : In → VoteSet.Hist
  | .msg m _ => offeredMsg m
  | .own => match n.queue with
            | m :: _ => offeredMsg m
            | [] => []
  | _ => []

theorem full_handleMsg (n : Node) (m : Msg) (peer : String) (f : Full V me0 n hist) :
    Full V me0 (handleMsg n m peer) (hist ++ offeredMsg m) := by
  unfold handleMsg
  split
  · exact (full_setProposal _ _ _ _ f).mono _
  · exact (full_addParts _ _ _ _ f).mono _
  · exact full_addVote _ _ _ _ f

theorem full_stepIn (n : Node) (inp : In) (f : Full V me0 n hist) (hw : WellTimed n inp) :
    Full V me0 (stepIn n inp) (hist ++ offered n inp) := by
  cases inp with
  | msg m peer => exact full_handleMsg _ _ _ f
  | own =>
    show Full V me0 (match n.queue with | [] => n | m :: rest => handleMsg { n with queue := rest } m "")
      (hist ++ (match n.queue with | m :: _ => offeredMsg m | [] => []))
    cases hq : n.queue with
    | nil => exact f.mono _
    | cons m rest =>
      have i' : Full V me0 { n with queue := rest } hist :=
        f.same rfl rfl rfl rfl (fun v ok h => by rw [hq]; exact List.mem_cons_of_mem _ h) rfl rfl rfl rfl ⟨rfl, rfl, rfl⟩
          (Le.of_same ⟨rfl, rfl, rfl⟩)
      exact full_handleMsg _ _ _ i'
  | timeout h r s => exact (full_handleTimeout _ _ _ _ hw f).mono _
  | maj23 h r t peer bid =>
    have hp := past_setPeerMaj23 n h r t peer bid
    have hs := signed_setPeerMaj23 n h r t peer bid
    have hh := (hrs_setPeerMaj23 n h r t peer bid).h
    refine Full.mono _ ⟨f.qj.ext (ext_setPeerMaj23 _ _ _ _ _ _),
      f.a3.keep (ext_setPeerMaj23 _ _ _ _ _ _) (kept_setPeerMaj23 _ _ _ _ _ _)
        (Le.of_same (hrs_setPeerMaj23 _ _ _ _ _ _)) hs, ?_, vsi_setPeerMaj23 n h r t peer bid f.vsi, ?_, ?_, ?_, ?_⟩
    · refine ⟨?_, ?_⟩
      · intro e he
        show e.1 < (setPeerMaj23 n h r t peer bid).height ∧ PastOK (setPeerMaj23 n h r t peer bid).signed e
        have he' : e ∈ (setPeerMaj23 n h r t peer bid).past := he
        rw [hp.1] at he'
        rw [hs, hh]
        exact f.past.ok e he'
      · intro w hw hlt
        have hw' : w ∈ (setPeerMaj23 n h r t peer bid).signed := hw
        have hlt' : w.height < (setPeerMaj23 n h r t peer bid).height := hlt
        show ∃ e ∈ (setPeerMaj23 n h r t peer bid).past, e.1 = w.height
        rw [hs] at hw'; rw [hh] at hlt'; rw [hp.1]
        exact f.past.cover w hw' hlt'
    · intro w ok hm
      have hm' : Msg.vote w ok ∈ (setPeerMaj23 n h r t peer bid).queue := hm
      rw [hp.2.1] at hm'
      show w ∈ (setPeerMaj23 n h r t peer bid).signed ∧ ok = true
      rw [hs]
      exact f.qs w ok hm'
    · intro w hw
      have hw' : w ∈ (setPeerMaj23 n h r t peer bid).signed := hw
      show ∃ i : Nat, (setPeerMaj23 n h r t peer bid).me = some i ∧ w.idx = (i : Int)
      rw [hs] at hw'; rw [hp.2.2.2.2.1]
      exact f.sm w hw'
    · show (setPeerMaj23 n h r t peer bid).me = me0
      rw [hp.2.2.2.2.1]; exact f.hme
    · intro hh' b hm
      have hm' : Emit.commit hh' b ∈ (setPeerMaj23 n h r t peer bid).out := hm
      show ∃ e ∈ (setPeerMaj23 n h r t peer bid).past, _
      rw [hp.2.2.2.2.2] at hm'; rw [hp.1]
      exact f.cm hh' b hm'

end AnnVerif.Node
