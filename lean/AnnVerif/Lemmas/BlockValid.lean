import AnnVerif.Model.Block
import AnnVerif.Lemmas.VoteCommit
namespace AnnVerif.VoteSet

/-- one step of the loop over a non-nil slot, when the loop goes on to report a tally -/
theorem tallyCommit_step (slot : Bool) (sigok : Nat → Vote → Bool) (b : BlockID) (H R : Int)
    (i : Nat) (val : Validator) (vt : List Validator) (p : Vote) (rest : List (Option Vote))
    (acc t : Int)
    (h : tallyCommit slot sigok b H R i (val :: vt) (some p :: rest) acc = .ok t) :
    p.height = H ∧ p.round = R ∧ p.type = 2 ∧ sigok i p = true ∧
    (slot = true → p.idx = (i : Int) ∧ p.addr = val.addr) ∧
    tallyCommit slot sigok b H R (i + 1) vt rest (acc + if b = p.bid then val.power else 0) = .ok t := by
  simp only [tallyCommit] at h
  by_cases c1 : p.height ≠ H
  · rw [if_pos c1] at h; cases h
  · rw [if_neg c1] at h
    by_cases c2 : p.round ≠ R
    · rw [if_pos c2] at h; cases h
    · rw [if_neg c2] at h
      by_cases c3 : p.type ≠ 2
      · rw [if_pos c3] at h; cases h
      · rw [if_neg c3] at h
        by_cases c4 : (!sigok i p) = true
        · rw [if_pos c4] at h; cases h
        · rw [if_neg c4] at h
          by_cases c5 : slot = true ∧ (p.idx ≠ (i : Int) ∨ p.addr ≠ val.addr)
          · rw [if_pos c5] at h; cases h
          · rw [if_neg c5] at h
            refine ⟨Classical.not_not.mp c1, Classical.not_not.mp c2, Classical.not_not.mp c3,
              by simpa using c4, ?_, ?_⟩
            · intro hs
              constructor
              · exact Classical.byContradiction fun hx => c5 ⟨hs, Or.inl hx⟩
              · exact Classical.byContradiction fun hx => c5 ⟨hs, Or.inr hx⟩
            · by_cases hb : b = p.bid
              · rw [if_pos hb] at h ⊢; exact h
              · rw [if_neg hb] at h ⊢; simpa using h

/-- soundness of the `VerifyCommit` loop: when it reports a tally, every non-nil slot passed all
    per-precommit checks and the tally is exactly the power of the slots voting for `b` -/
theorem tallyCommit_sound (slot : Bool) (sigok : Nat → Vote → Bool) (b : BlockID) (H R : Int) :
    ∀ (slots : List (Option Vote)) (vals : List Validator) (i0 : Nat) (acc t : Int),
    vals.length = slots.length →
    tallyCommit slot sigok b H R i0 vals slots acc = .ok t →
    t = acc + tallyB b (powers vals) slots ∧
    ∀ (j : Nat) (v : Vote), slots[j]? = some (some v) →
      v.height = H ∧ v.round = R ∧ v.type = 2 ∧ sigok (i0 + j) v = true ∧
      (slot = true → SlotOk vals i0 j v) := by
  intro slots
  induction slots with
  | nil =>
    intro vals i0 acc t hl h
    have : vals = [] := List.eq_nil_of_length_eq_zero (by simpa using hl)
    subst this
    simp [tallyCommit] at h
    refine ⟨by simp [tallyB, powers, h], ?_⟩
    intro j v hj; simp at hj
  | cons s rest ih =>
    intro vals i0 acc t hl h
    cases vals with
    | nil => simp at hl
    | cons val vt =>
      have hl' : vt.length = rest.length := by simpa using hl
      have shift : ∀ (acc' : Int), tallyCommit slot sigok b H R (i0 + 1) vt rest acc' = .ok t →
          ∀ (j : Nat) (v : Vote), rest[j]? = some (some v) →
          v.height = H ∧ v.round = R ∧ v.type = 2 ∧ sigok (i0 + (j + 1)) v = true ∧
          (slot = true → SlotOk (val :: vt) i0 (j + 1) v) := by
        intro acc' h' j v hj
        obtain ⟨a1, a2, a3, a4, a5⟩ := (ih vt (i0 + 1) acc' t hl' h').2 j v hj
        have e : i0 + 1 + j = i0 + (j + 1) := by omega
        rw [e] at a4
        refine ⟨a1, a2, a3, a4, ?_⟩
        intro hs
        obtain ⟨b1, b2⟩ := a5 hs
        exact ⟨by rw [b1, e], by simpa using b2⟩
      cases s with
      | none =>
        simp only [tallyCommit] at h
        obtain ⟨h1, _⟩ := ih vt (i0 + 1) acc t hl' h
        refine ⟨by simpa [tallyB, powers] using h1, ?_⟩
        intro j v hj
        cases j with
        | zero => simp at hj
        | succ j => exact shift acc h j v (by simpa using hj)
      | some p =>
        obtain ⟨e1, e2, e3, e4, e5, hrest⟩ := tallyCommit_step slot sigok b H R i0 val vt p rest acc t h
        obtain ⟨h1, _⟩ := ih vt (i0 + 1) _ t hl' hrest
        refine ⟨?_, ?_⟩
        · by_cases hb : b = p.bid
          · simp [tallyB, powers, hb] at h1 ⊢; omega
          · simp [tallyB, powers, hb] at h1 ⊢; omega
        · intro j v hj
          cases j with
          | zero =>
            simp at hj; subst hj
            refine ⟨e1, e2, e3, by simpa using e4, ?_⟩
            intro hs
            obtain ⟨b1, b2⟩ := e5 hs
            exact ⟨by simpa using b1, val, by simp, b2.symm⟩
          | succ j => exact shift _ hrest j v (by simpa using hj)

/-- the loop never reports the non-error `ok` as an error -/
theorem tallyCommit_ne_error_ok (slot : Bool) (sigok : Nat → Vote → Bool) (b : BlockID) (H R : Int) :
    ∀ (slots : List (Option Vote)) (vals : List Validator) (i0 : Nat) (acc : Int),
    tallyCommit slot sigok b H R i0 vals slots acc ≠ .error .ok := by
  intro slots
  induction slots with
  | nil => intro vals i0 acc; cases vals <;> simp [tallyCommit]
  | cons s rest ih =>
    intro vals i0 acc
    cases vals with
    | nil => simp [tallyCommit]
    | cons val vt =>
      cases s with
      | none => simp only [tallyCommit]; exact ih vt _ _
      | some p =>
        simp only [tallyCommit]
        split
        · simp
        · split
          · simp
          · split
            · simp
            · split
              · simp
              · split
                · simp
                · split
                  · exact ih vt _ _
                  · exact ih vt _ _

/-- what an accepted commit means: one round; every non-nil slot is a precommit of `height`
    and of that round whose signature verifies under the key at its POSITION; the slots voting for
    exactly `b` hold more than 2/3 of the total power -/
def CommitJustifies (sigok : Nat → Vote → Bool) (vals : List Validator) (b : BlockID) (height : Int)
    (c : Commit) : Prop :=
  c.precommits.length = vals.length ∧
  ∃ R : Int,
    (∀ (j : Nat) (v : Vote), c.precommits[j]? = some (some v) →
      v.height = height ∧ v.round = R ∧ v.type = 2 ∧ sigok j v = true) ∧
    tallyB b (powers vals) c.precommits > total vals * 2 / 3

theorem verifyCommit_sound (cfg : Cfg) (sigok : Nat → Vote → Bool) (vals : List Validator) (b : BlockID)
    (height : Int) (c : Commit) (hpos : ∀ val ∈ vals, 0 ≤ val.power)
    (h : verifyCommit cfg sigok vals b height c = .ok) :
    CommitJustifies sigok vals b height c := by
  unfold verifyCommit at h
  by_cases hl : vals.length ≠ c.precommits.length
  · simp [hl] at h
  · have hl' : vals.length = c.precommits.length := Classical.not_not.mp hl
    simp only [hl, if_false] at h
    have htot : 0 ≤ total vals * 2 / 3 := by
      have : 0 ≤ total vals := by
        unfold total
        have : ∀ (l : List Validator), (∀ v ∈ l, 0 ≤ v.power) → 0 ≤ (l.map (·.power)).sum := by
          intro l; induction l with
          | nil => simp
          | cons a t ih => intro hh; simp; have := hh a (by simp); have := ih (fun v hv => hh v (by simp [hv])); omega
        exact this vals hpos
      omega
    cases hvotes : c.precommits with
    | nil =>
      rw [hvotes] at h
      simp only at h
      split at h
      · cases h
      · split at h
        · omega
        · cases h
    | cons x xs =>
      rw [hvotes] at h
      cases hfp : firstPrecommit (x :: xs) with
      | none =>
        rw [hfp] at h
        simp only at h
        split at h
        · cases h
        · split at h
          · cases h
          · split at h
            · omega
            · cases h
      | some f =>
        rw [hfp] at h
        simp only at h
        split at h
        · cases h
        · rename_i hh
          have hH : height = f.height := Classical.not_not.mp hh
          rw [← hvotes] at h
          cases ht : tallyCommit cfg.slotCheck sigok b height f.round 0 vals c.precommits 0 with
          | error e =>
            rw [ht] at h; simp only at h
            subst h
            exact absurd ht (tallyCommit_ne_error_ok cfg.slotCheck sigok b height f.round c.precommits vals 0 0)
          | ok t =>
            rw [ht] at h
            simp only at h
            split at h
            · rename_i hgt
              obtain ⟨h1, h2⟩ := tallyCommit_sound cfg.slotCheck sigok b height f.round c.precommits vals 0 0 t hl' ht
              refine ⟨hl'.symm, f.round, ?_, ?_⟩
              · intro j v hj
                obtain ⟨a1, a2, a3, a4, _⟩ := h2 j v hj
                exact ⟨a1, a2, a3, by simpa using a4⟩
              · rw [h1] at hgt; simpa using hgt
            · cases h

/-- with the slot check, an accepted commit holds in slot `j` only a precommit that names validator
    `j` by index and by address -/
theorem verifyCommit_slots (cfg : Cfg) (hs : cfg.slotCheck = true) (sigok : Nat → Vote → Bool)
    (vals : List Validator) (b : BlockID) (height : Int) (c : Commit)
    (h : verifyCommit cfg sigok vals b height c = .ok) :
    ∀ (j : Nat) (v : Vote), c.precommits[j]? = some (some v) → SlotOk vals 0 j v := by
  intro j v hj
  unfold verifyCommit at h
  by_cases hl : vals.length ≠ c.precommits.length
  · simp [hl] at h
  · have hl' : vals.length = c.precommits.length := Classical.not_not.mp hl
    simp only [hl, if_false] at h
    cases hvotes : c.precommits with
    | nil => rw [hvotes] at hj; simp at hj
    | cons x xs =>
      rw [hvotes] at h
      cases hfp : firstPrecommit (x :: xs) with
      | none =>
        -- no non-nil slot at all
        exfalso
        have : ∀ (l : List (Option Vote)), firstPrecommit l = none →
            ∀ (j : Nat) (v : Vote), l[j]? ≠ some (some v) := by
          intro l
          induction l with
          | nil => intro _ j v; simp
          | cons s t ih =>
            intro hn j v
            cases s with
            | some w => simp [firstPrecommit] at hn
            | none =>
              simp [firstPrecommit] at hn
              cases j with
              | zero => simp
              | succ j => simpa using ih hn j v
        exact this _ hfp j v (by rw [← hvotes]; exact hj)
      | some f =>
        rw [hfp] at h
        simp only at h
        split at h
        · cases h
        · rw [← hvotes] at h
          cases ht : tallyCommit cfg.slotCheck sigok b height f.round 0 vals c.precommits 0 with
          | error e =>
            rw [ht] at h; simp only at h
            subst h
            exact absurd ht (tallyCommit_ne_error_ok cfg.slotCheck sigok b height f.round c.precommits vals 0 0)
          | ok t =>
            obtain ⟨_, h2⟩ := tallyCommit_sound cfg.slotCheck sigok b height f.round c.precommits vals 0 0 t hl' ht
            exact (h2 j v hj).2.2.2.2 hs

end AnnVerif.VoteSet
