import AnnVerif.Model.Block
import AnnVerif.Lemmas.VoteCommit
namespace AnnVerif.VoteSet

/-- soundness of the `VerifyCommit` loop: when it reports a tally, every non-nil slot passed all
    four per-precommit checks and the tally is exactly the power of the slots voting for `b` -/
theorem tallyCommit_sound (sigok : Nat → Vote → Bool) (b : BlockID) (H R : Int) :
    ∀ (slots : List (Option Vote)) (vals : List Validator) (i0 : Nat) (acc t : Int),
    vals.length = slots.length →
    tallyCommit sigok b H R i0 vals slots acc = .ok t →
    t = acc + tallyB b (powers vals) slots ∧
    ∀ (j : Nat) (v : Vote), slots[j]? = some (some v) →
      v.height = H ∧ v.round = R ∧ v.type = 2 ∧ sigok (i0 + j) v = true := by
  intro slots
  induction slots with
  | nil =>
    intro vals i0 acc t hl h
    have : vals = [] := List.eq_nil_of_length_eq_zero (by simpa using hl)
    subst this
    simp [tallyCommit] at h
    refine ⟨by simp [tallyB, powers, h], ?_⟩
    intro j v hj; simp at hj
  | cons s rest ih =>
    intro vals i0 acc t hl h
    cases vals with
    | nil => simp at hl
    | cons val vt =>
      have hl' : vt.length = rest.length := by simpa using hl
      cases s with
      | none =>
        simp only [tallyCommit] at h
        obtain ⟨h1, h2⟩ := ih vt (i0 + 1) acc t hl' h
        refine ⟨by simpa [tallyB, powers] using h1, ?_⟩
        intro j v hj
        cases j with
        | zero => simp at hj
        | succ j =>
          have := h2 j v (by simpa using hj)
          have e : i0 + 1 + j = i0 + (j + 1) := by omega
          rw [e] at this; exact this
      | some p =>
        simp only [tallyCommit] at h
        by_cases c1 : p.height ≠ H
        · simp [c1] at h
        · by_cases c2 : p.round ≠ R
          · simp [c1, c2] at h
          · by_cases c3 : p.type ≠ 2
            · simp [c1, c2, c3] at h
            · by_cases c4 : sigok i0 p = true
              · simp only [c1, c2, c3, c4, if_false, Bool.not_true, Bool.false_eq_true] at h
                have e1 : p.height = H := Classical.not_not.mp c1
                have e2 : p.round = R := Classical.not_not.mp c2
                have e3 : p.type = 2 := Classical.not_not.mp c3
                by_cases hb : b = p.bid
                · rw [if_pos hb] at h
                  obtain ⟨h1, h2⟩ := ih vt (i0 + 1) _ t hl' h
                  refine ⟨by simp [tallyB, powers, hb] at h1 ⊢; omega, ?_⟩
                  intro j v hj
                  cases j with
                  | zero => simp at hj; subst hj; exact ⟨e1, e2, e3, by simpa using c4⟩
                  | succ j =>
                    have := h2 j v (by simpa using hj)
                    have e : i0 + 1 + j = i0 + (j + 1) := by omega
                    rw [e] at this; exact this
                · rw [if_neg hb] at h
                  obtain ⟨h1, h2⟩ := ih vt (i0 + 1) _ t hl' h
                  refine ⟨by simp [tallyB, powers, hb] at h1 ⊢; omega, ?_⟩
                  intro j v hj
                  cases j with
                  | zero => simp at hj; subst hj; exact ⟨e1, e2, e3, by simpa using c4⟩
                  | succ j =>
                    have := h2 j v (by simpa using hj)
                    have e : i0 + 1 + j = i0 + (j + 1) := by omega
                    rw [e] at this; exact this
              · simp [c1, c2, c3, c4] at h

/-- the loop never reports the non-error `ok` as an error -/
theorem tallyCommit_ne_error_ok (sigok : Nat → Vote → Bool) (b : BlockID) (H R : Int) :
    ∀ (slots : List (Option Vote)) (vals : List Validator) (i0 : Nat) (acc : Int),
    tallyCommit sigok b H R i0 vals slots acc ≠ .error .ok := by
  intro slots
  induction slots with
  | nil => intro vals i0 acc; cases vals <;> simp [tallyCommit]
  | cons s rest ih =>
    intro vals i0 acc
    cases vals with
    | nil => simp [tallyCommit]
    | cons val vt =>
      cases s with
      | none => simp only [tallyCommit]; exact ih vt _ _
      | some p =>
        simp only [tallyCommit]
        split
        · simp
        · split
          · simp
          · split
            · simp
            · split
              · simp
              · split
                · exact ih vt _ _
                · exact ih vt _ _

/-- what an accepted commit means: one round; every non-nil slot is a precommit of `height`
    and of that round whose signature verifies under the key at its POSITION; the slots voting for
    exactly `b` hold more than 2/3 of the total power -/
def CommitJustifies (sigok : Nat → Vote → Bool) (vals : List Validator) (b : BlockID) (height : Int)
    (c : Commit) : Prop :=
  c.precommits.length = vals.length ∧
  ∃ R : Int,
    (∀ (j : Nat) (v : Vote), c.precommits[j]? = some (some v) →
      v.height = height ∧ v.round = R ∧ v.type = 2 ∧ sigok j v = true) ∧
    tallyB b (powers vals) c.precommits > total vals * 2 / 3

theorem verifyCommit_sound (cfg : Cfg) (sigok : Nat → Vote → Bool) (vals : List Validator) (b : BlockID)
    (height : Int) (c : Commit) (hpos : ∀ val ∈ vals, 0 ≤ val.power)
    (h : verifyCommit cfg sigok vals b height c = .ok) :
    CommitJustifies sigok vals b height c := by
  unfold verifyCommit at h
  by_cases hl : vals.length ≠ c.precommits.length
  · simp [hl] at h
  · have hl' : vals.length = c.precommits.length := Classical.not_not.mp hl
    simp only [hl, if_false] at h
    have htot : 0 ≤ total vals * 2 / 3 := by
      have : 0 ≤ total vals := by
        unfold total
        have : ∀ (l : List Validator), (∀ v ∈ l, 0 ≤ v.power) → 0 ≤ (l.map (·.power)).sum := by
          intro l; induction l with
          | nil => simp
          | cons a t ih => intro hh; simp; have := hh a (by simp); have := ih (fun v hv => hh v (by simp [hv])); omega
        exact this vals hpos
      omega
    cases hvotes : c.precommits with
    | nil =>
      rw [hvotes] at h
      simp only at h
      split at h
      · cases h
      · split at h
        · omega
        · cases h
    | cons x xs =>
      rw [hvotes] at h
      cases hfp : firstPrecommit (x :: xs) with
      | none =>
        rw [hfp] at h
        simp only at h
        split at h
        · cases h
        · split at h
          · cases h
          · split at h
            · omega
            · cases h
      | some f =>
        rw [hfp] at h
        simp only at h
        split at h
        · cases h
        · rename_i hh
          have hH : height = f.height := Classical.not_not.mp hh
          rw [← hvotes] at h
          cases ht : tallyCommit sigok b height f.round 0 vals c.precommits 0 with
          | error e =>
            rw [ht] at h; simp only at h
            subst h
            exact absurd ht (tallyCommit_ne_error_ok sigok b height f.round c.precommits vals 0 0)
          | ok t =>
            rw [ht] at h
            simp only at h
            split at h
            · rename_i hgt
              obtain ⟨h1, h2⟩ := tallyCommit_sound sigok b height f.round c.precommits vals 0 0 t hl' ht
              refine ⟨hl'.symm, f.round, ?_, ?_⟩
              · intro j v hj
                have := h2 j v hj
                simpa using this
              · rw [h1] at hgt; simpa using hgt
            · cases h

end AnnVerif.VoteSet
