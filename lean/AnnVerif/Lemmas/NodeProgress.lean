/-
  Local progress of the node model (C12): a node that HAS what a commit needs does commit, in the
  step that gives it the last piece - whatever round it is in, whatever its lock, whether or not it
  ever saw the proposal. These are the transitions liveness rests on once +2/3 precommits exist:
  no timeout is pending in the Commit step, so a node that did not finalize here would stay for ever.
-/
import AnnVerif.Model.Node
namespace AnnVerif.Node

theorem hashesTo_some_iff {b h : Bytes} (hne : h.isEmpty = false) : hashesTo (some b) h = true ↔ b = h := by
  unfold hashesTo
  simp [hne]

/-- `finalizeCommit` of a node in the Commit step that holds the +2/3 precommits of its commit round,
    the block they name, all its parts, and the oracle's verdict "valid": the commit is emitted and the
    node moves to the next height -/
theorem finalizeCommit_commits (n : Node) (bid : VoteSet.BlockID)
    (hs : n.step = .commit) (hm : maj23 (precommits n n.commitRound) = some bid)
    (hb : n.proposalBlock = some bid.hash) (hp : n.proposalParts = some bid.hash) (hc : n.partsComplete = true)
    (hv : isValid n bid.hash = true) :
    Emit.commit n.height bid.hash ∈ (finalizeCommit n n.height).out ∧ (finalizeCommit n n.height).height = n.height + 1 ∧
    (finalizeCommit n n.height).step = .newHeight := by
  unfold finalizeCommit
  simp only [hs, ne_eq, not_true_eq_false, or_self, if_false, hm, hb]
  simp [nameOf, hp, hv, hc, emit]

/-- entering Commit on +2/3 precommits for a block the node already holds complete: it finalizes at once,
    from ANY round and step before Commit and with any lock -/
theorem enterCommit_commits (n : Node) (cr : Int) (bid : VoteSet.BlockID)
    (hs : ¬ Step.commit ≤ n.step) (hm : maj23 (precommits n cr) = some bid) (hne : bid.hash.isEmpty = false)
    (hb : n.proposalBlock = some bid.hash) (hp : n.proposalParts = some bid.hash) (hc : n.partsComplete = true)
    (hv : isValid n bid.hash = true) (hl : n.lockedBlock = none ∨ n.lockedBlock = some bid.hash) :
    Emit.commit n.height bid.hash ∈ (enterCommit n n.height cr).out ∧ (enterCommit n n.height cr).height = n.height + 1 := by
  have hpb : hashesTo (some bid.hash) bid.hash = true := (hashesTo_some_iff hne).mpr rfl
  have hne' : ¬ bid.hash = [] := by intro e; rw [e] at hne; simp at hne
  have hv' : isValid n bid.hash = true := hv
  unfold isValid at hv'
  simp only [precommits, getRound, maj23] at hm
  rcases hl with hl | hl
  · have hlk : hashesTo none bid.hash = false := rfl
    simp [enterCommit, tryFinalizeCommit, finalizeCommit, hs, hm, hne, hne', hpb, hlk, hl, hb, hp, hc, nameOf, emit,
      precommits, getRound, maj23, isValid, hv']
  · simp [enterCommit, tryFinalizeCommit, finalizeCommit, hs, hm, hne, hne', hpb, hl, hb, hp, hc, nameOf, emit,
      precommits, getRound, maj23, isValid, hv']

/-- a node waiting in Commit for the block +2/3 precommitted (it entered Commit without the block, e.g.
    after missing the proposal): the parts arrive, from anybody, and it finalizes - no proposal needed -/
theorem parts_in_commit_step_commit (n : Node) (bid : VoteSet.BlockID) (own : Bool)
    (hs : n.step = .commit) (hm : maj23 (precommits n n.commitRound) = some bid) (hne : bid.hash.isEmpty = false)
    (hp : n.proposalParts = some bid.hash) (hc : n.partsComplete = false) (hv : isValid n bid.hash = true) :
    Emit.commit n.height bid.hash ∈ (addParts n n.height bid.hash own).out ∧
    (addParts n n.height bid.hash own).height = n.height + 1 := by
  have hpb : hashesTo (some bid.hash) bid.hash = true := (hashesTo_some_iff hne).mpr rfl
  have hne' : ¬ bid.hash = [] := by intro e; rw [e] at hne; simp at hne
  have hv' : isValid n bid.hash = true := hv
  unfold isValid at hv'
  simp only [precommits, getRound, maj23] at hm
  simp [addParts, tryFinalizeCommit, finalizeCommit, hs, hm, hne, hne', hpb, hp, hc, nameOf, emit,
    precommits, getRound, maj23, isValid, hv']

end AnnVerif.Node
