import AnnVerif.Lemmas.NodeProgress
import AnnVerif.Lemmas.PartsCpl
set_option linter.unusedSimpArgs false
namespace AnnVerif.Node

theorem hashesTo_false_of_ne {blk : Option Name} {h : Bytes} (_hne : h.isEmpty = false) (hx : blk ≠ some h) :
    hashesTo blk h = false := by
  cases hb : hashesTo blk h with
  | false => rfl
  | true => exact absurd (hashesTo_some hb) hx

/-- P4: +2/3 precommits for a valid block are never ignored. Entering Commit on them - from any
    earlier step, any round, any lock, with or without the proposal - either finalizes at once, or
    leaves the node in the Commit step WAITING FOR EXACTLY THAT BLOCK with an incomplete part set:
    the hypotheses of P2 (`parts_in_commit_step_commit`), so the arrival of the parts finalizes. -/
theorem enterCommit_never_ignores (n : Node) (cr : Int) (bid : VoteSet.BlockID) (hg : Good n) (hcp : Cpl n)
    (hs : ¬ Step.commit ≤ n.step) (hm : maj23 (precommits n cr) = some bid) (hne : bid.hash.isEmpty = false)
    (hv : isValid n bid.hash = true) :
    (Emit.commit n.height bid.hash ∈ (enterCommit n n.height cr).out ∧ (enterCommit n n.height cr).height = n.height + 1) ∨
    ((enterCommit n n.height cr).height = n.height ∧ (enterCommit n n.height cr).step = .commit ∧
      maj23 (precommits (enterCommit n n.height cr) (enterCommit n n.height cr).commitRound) = some bid ∧
      (enterCommit n n.height cr).proposalParts = some bid.hash ∧ (enterCommit n n.height cr).partsComplete = false ∧
      isValid (enterCommit n n.height cr) bid.hash = true) := by
  have hne' : ¬ bid.hash = [] := by intro e; rw [e] at hne; simp at hne
  have hpb : hashesTo (some bid.hash) bid.hash = true := (hashesTo_some_iff hne).mpr rfl
  have hv' := hv
  unfold isValid at hv'
  have hm' := hm
  simp only [precommits, getRound, maj23] at hm'
  by_cases hl : n.lockedBlock = some bid.hash
  · left
    simp [enterCommit, tryFinalizeCommit, finalizeCommit, hs, hm', hne, hne', hpb, hl, nameOf, emit,
      precommits, getRound, maj23, isValid, hv']
  · have hlk : hashesTo n.lockedBlock bid.hash = false := hashesTo_false_of_ne hne hl
    by_cases hb : n.proposalBlock = some bid.hash
    · left
      obtain ⟨hc, hp⟩ := hg.asm _ hb
      simp [enterCommit, tryFinalizeCommit, finalizeCommit, hs, hm', hne, hne', hpb, hlk, hb, hp, hc, nameOf, emit,
        precommits, getRound, maj23, isValid, hv']
    · right
      have hbk : hashesTo n.proposalBlock bid.hash = false := hashesTo_false_of_ne hne hb
      by_cases hp : n.proposalParts = some bid.hash
      · have hc : n.partsComplete = false := by
          cases hpc : n.partsComplete with
          | false => rfl
          | true =>
            have hsome := hcp hpc
            cases hpb' : n.proposalBlock with
            | none => rw [hpb'] at hsome; simp at hsome
            | some b =>
              have := (hg.asm b hpb').2
              rw [hp] at this
              injection this with this
              exact absurd (by rw [hpb', this]) hb
        simp [enterCommit, tryFinalizeCommit, hs, hm', hne, hne', hlk, hbk, hp, hc, nameOf,
          precommits, getRound, maj23, isValid, hv']
      · have hnone : hashesTo none bid.hash = false := rfl
        simp [enterCommit, tryFinalizeCommit, hs, hm', hne, hne', hlk, hbk, hp, nameOf,
          precommits, getRound, maj23, isValid, hv', hnone]
/-- P5 = P4 + P2: +2/3 precommits for a valid block commit the height - at once, or as soon as the
    block's parts are delivered (by anybody); nothing else is needed, in particular no timeout -/
theorem commit_now_or_with_parts (n : Node) (cr : Int) (bid : VoteSet.BlockID) (own : Bool) (hg : Good n) (hcp : Cpl n)
    (hs : ¬ Step.commit ≤ n.step) (hm : maj23 (precommits n cr) = some bid) (hne : bid.hash.isEmpty = false)
    (hv : isValid n bid.hash = true) :
    (enterCommit n n.height cr).height = n.height + 1 ∨
    (addParts (enterCommit n n.height cr) n.height bid.hash own).height = n.height + 1 := by
  rcases enterCommit_never_ignores n cr bid hg hcp hs hm hne hv with ⟨_, h⟩ | ⟨h1, h2, h3, h4, h5, h6⟩
  · exact Or.inl h
  · right
    have := (parts_in_commit_step_commit (enterCommit n n.height cr) bid own h2 h3 hne h4 h5 h6).2
    rw [h1] at this
    exact this

/-- every state a repaired node reaches from its start satisfies the two invariants P4/P5 need -/
theorem reachable_good_cpl (height : Int) (vals : ValSet.ValSet) (me : Option Nat) (skip : Bool) (ins : List In) :
    Good (ins.foldl stepIn (init repaired height vals me skip)) ∧ Cpl (ins.foldl stepIn (init repaired height vals me skip)) :=
  ⟨run_good ins _ (init_good height vals me skip), run_cpl ins _ (init_cpl _ height vals me skip)⟩

end AnnVerif.Node
