/-
  The converse of `Good.asm` (Lemmas/Assembled.lean): a node whose part set is complete holds the
  assembled block. Proved through every transition like `Good`, hence in every reachable state.
  With it a node that waits in the Commit step for a block it does not hold is known to have an
  INCOMPLETE part set - the hypothesis of "the parts arrive and it finalizes" (C12 P2).
-/
import AnnVerif.Lemmas.Assembled
namespace AnnVerif.Node

def Cpl (n : Node) : Prop := n.partsComplete = true → n.proposalBlock.isSome = true

theorem Cpl.of_same {n n' : Node} (h : Cpl n) (s : Same n n') : Cpl n' := by
  unfold Cpl; rw [s.pc, s.pb]; exact h

theorem cpl_enterNewRound (n : Node) (h r : Int) (g : Cpl n) : Cpl (enterNewRound n h r) := by
  unfold enterNewRound
  split
  · exact g
  · dsimp only
    apply Cpl.of_same _ (same_enterPropose _ _ _)
    apply Cpl.of_same _ (same_setRound _ _)
    split
    · exact g
    · intro hc; simp at hc

theorem cpl_fin (n : Node) (r : Int) (g : Cpl n) : Cpl { n with round := r, step := Step.precommit } := g

theorem cpl_enterPrecommit (n : Node) (h r : Int) (g : Cpl n) : Cpl (enterPrecommit n h r) := by
  unfold enterPrecommit
  split
  · exact g
  · dsimp only
    split
    · exact cpl_fin _ _ (g.of_same (same_signAddVote _ _ _))
    · split
      · exact cpl_fin _ _ (g.of_same (same_emit _ _ (by simp [savePanic])))
      · split
        · apply cpl_fin
          apply Cpl.of_same _ (same_signAddVote _ _ _)
          split
          · exact g
          · exact g
        · split
          · apply cpl_fin
            apply Cpl.of_same _ (same_signAddVote _ _ _)
            exact g
          · split
            · split
              · exact cpl_fin _ _ (g.of_same (same_emit _ _ (by simp [savePanic])))
              · apply cpl_fin
                apply Cpl.of_same _ (same_signAddVote _ _ _)
                exact g
            · apply cpl_fin
              apply Cpl.of_same _ (same_signAddVote _ _ _)
              split
              · exact g
              · intro hc; simp at hc

theorem cpl_finalizeCommit (n : Node) (h : Int) (g : Cpl n) : Cpl (finalizeCommit n h) := by
  unfold finalizeCommit
  split
  · exact g
  · split
    · split
      · exact g.of_same (same_emit _ _ (by simp [savePanic]))
      · split
        · exact g.of_same (same_emit _ _ (by simp [savePanic]))
        · split
          · exact g.of_same (same_emit _ _ (by simp [savePanic]))
          · split
            · exact g
            · dsimp only
              intro hc; simp [emit] at hc
    · exact g.of_same (same_emit _ _ (by simp [savePanic]))

theorem cpl_tryFinalizeCommit (n : Node) (h : Int) (g : Cpl n) : Cpl (tryFinalizeCommit n h) := by
  unfold tryFinalizeCommit
  split
  · exact g.of_same (same_emit _ _ (by simp [savePanic]))
  · split
    · exact g
    · split
      · exact g
      · split
        · exact g
        · exact cpl_finalizeCommit _ _ g

theorem cpl_enterCommit (n : Node) (h cr : Int) (g : Cpl n) : Cpl (enterCommit n h cr) := by
  unfold enterCommit
  split
  · exact g
  · split
    · exact g.of_same (same_emit _ _ (by simp [savePanic]))
    · rename_i bid hm
      dsimp only
      apply cpl_tryFinalizeCommit
      have g1 : Cpl (if hashesTo n.lockedBlock bid.hash = true then
          { n with proposalBlock := n.lockedBlock, proposalParts := n.lockedBlock, partsComplete := true } else n) := by
        split
        · rename_i hh
          intro _
          show n.lockedBlock.isSome = true
          rw [hashesTo_some hh]; rfl
        · exact g
      generalize (if hashesTo n.lockedBlock bid.hash = true then
          { n with proposalBlock := n.lockedBlock, proposalParts := n.lockedBlock, partsComplete := true } else n) = m at g1 ⊢
      have g2 : Cpl (if (!hashesTo m.proposalBlock bid.hash) = true ∧ m.proposalParts ≠ some (nameOf bid) then
          { m with proposalBlock := none, proposalParts := some (nameOf bid), partsComplete := false } else m) := by
        split
        · intro hc; simp at hc
        · exact g1
      generalize (if (!hashesTo m.proposalBlock bid.hash) = true ∧ m.proposalParts ≠ some (nameOf bid) then
          { m with proposalBlock := none, proposalParts := some (nameOf bid), partsComplete := false } else m) = m2 at g2 ⊢
      exact g2

theorem cpl_setProposal (n : Node) (p : Proposal) (signer : Nat) (bad : Bool) (g : Cpl n) :
    Cpl (setProposal n p signer bad) := by
  unfold setProposal
  split
  · exact g
  · split
    · exact g
    · split
      · exact g
      · split
        · exact g
        · split
          · exact g
          · split
            · exact g
            · intro hc; simp at hc

theorem cpl_addParts (n : Node) (height : Int) (block : Name) (own : Bool) (g : Cpl n) :
    Cpl (addParts n height block own) := by
  unfold addParts
  split
  · exact g
  · split
    · exact g
    · split
      · exact g
      · split
        · exact g
        · have g1 : Cpl { n with proposalBlock := some block, partsComplete := true } := fun _ => rfl
          dsimp only
          split
          · exact g1.of_same (same_enterPrevote _ _ _)
          · split
            · exact cpl_tryFinalizeCommit _ _ g1
            · exact g1

theorem cpl_unlock (n : Node) (g : Cpl n) : Cpl (unlock n) := g

theorem cpl_addVote (n : Node) (v : VoteSet.Vote) (sigok : Bool) (peer : String) (g : Cpl n) :
    Cpl (addVote n v sigok peer) := by
  unfold addVote
  split
  · split
    · exact g
    · split
      · split
        · exact g
        · exact g.of_same (same_emit _ _ (by simp [savePanic]))
      · dsimp only
        split
        · exact cpl_enterNewRound _ _ _ g
        · exact g
  · split
    · dsimp only
      have g0 : Cpl (hvsAddVote n v sigok peer).1 := g.of_same (same_hvsAddVote _ _ _ _)
      generalize hvsAddVote n v sigok peer = res at g0 ⊢
      obtain ⟨m, o⟩ := res
      dsimp only at g0 ⊢
      split
      · exact g0
      · split
        · skip
          have g1 : Cpl (if m.lockedBlock.isSome = true ∧ m.lockedRound < v.round ∧ v.round ≤ m.round then
              match maj23 (prevotes m v.round) with
              | some b => if (!hashesTo m.lockedBlock b.hash) = true then unlock m else m
              | none => m
            else m) := by
            split
            · split
              · split
                · exact cpl_unlock _ g0
                · exact g0
              · exact g0
            · exact g0
          generalize (if m.lockedBlock.isSome = true ∧ m.lockedRound < v.round ∧ v.round ≤ m.round then
              match maj23 (prevotes m v.round) with
              | some b => if (!hashesTo m.lockedBlock b.hash) = true then unlock m else m
              | none => m
            else m) = m1 at g1 ⊢
          split
          · skip
            split
            · exact cpl_enterPrecommit _ _ _ (cpl_enterNewRound _ _ _ g1)
            · exact ((cpl_enterNewRound _ _ _ g1).of_same (same_enterPrevote _ _ _)).of_same (same_enterPrevoteWait _ _ _)
          · split
            · split
              · exact g1.of_same (same_enterPrevote _ _ _)
              · exact g1
            · exact g1
        · skip
          split
          · split
            · exact cpl_enterNewRound _ _ _ g0
            · skip
              have g3 := cpl_enterCommit _ n.height v.round
                (cpl_enterPrecommit _ n.height v.round (cpl_enterNewRound _ n.height v.round g0))
              split
              · exact cpl_enterNewRound _ _ _ g3
              · exact g3
          · split
            · exact (cpl_enterPrecommit _ _ _ (cpl_enterNewRound _ _ _ g0)).of_same (same_enterPrecommitWait _ _ _)
            · exact g0
    · exact g

theorem cpl_handleTimeout (n : Node) (h r : Int) (s : Step) (g : Cpl n) : Cpl (handleTimeout n h r s) := by
  unfold handleTimeout
  split
  · exact g
  · split
    · exact cpl_enterNewRound _ _ _ g
    · exact g.of_same (same_enterPrevote _ _ _)
    · exact cpl_enterPrecommit _ _ _ g
    · exact cpl_enterNewRound _ _ _ g
    · exact g.of_same (same_emit _ _ (by simp [savePanic]))

theorem cpl_handleMsg (n : Node) (m : Msg) (peer : String) (g : Cpl n) : Cpl (handleMsg n m peer) := by
  unfold handleMsg
  split
  · exact cpl_setProposal _ _ _ _ g
  · exact cpl_addParts _ _ _ _ g
  · exact cpl_addVote _ _ _ _ g

theorem cpl_stepIn (n : Node) (i : In) (g : Cpl n) : Cpl (stepIn n i) := by
  cases i with
  | msg m peer => exact cpl_handleMsg _ _ _ g
  | own =>
    show Cpl (match n.queue with | [] => n | m :: rest => handleMsg { n with queue := rest } m "")
    split
    · exact g
    · exact cpl_handleMsg _ _ _ g
  | timeout h r s => exact cpl_handleTimeout _ _ _ _ g
  | maj23 h r t peer bid => exact g.of_same (same_setPeerMaj23 _ _ _ _ _ _)

theorem run_cpl (ins : List In) : ∀ (n : Node), Cpl n → Cpl (ins.foldl stepIn n) := by
  induction ins with
  | nil => intro n g; exact g
  | cons i rest ih => intro n g; exact ih _ (cpl_stepIn n i g)

theorem init_cpl (cfg : Cfg) (height : Int) (vals : ValSet.ValSet) (me : Option Nat) (skip : Bool) :
    Cpl (init cfg height vals me skip) := by
  intro hc; simp [init] at hc

end AnnVerif.Node
