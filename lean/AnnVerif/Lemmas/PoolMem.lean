import AnnVerif.Lemmas.PoolInv
namespace AnnVerif.Pool

/-- every queued transaction satisfies `P` -/
def AllQ (P : Tx → Prop) (p : Pool) : Prop := ∀ a x, (x ∈ p.pending a ∨ x ∈ p.waiting a) → P x

theorem mem_mSet {m : AccMap} {a b : Nat} {q : Queue} {x : Tx} (h : x ∈ mSet m a q b) : x ∈ q ∨ x ∈ m b := by
  unfold mSet at h
  split at h
  · exact Or.inl h
  · exact Or.inr h

theorem addWaiting_allQ (cfg : Cfg) (P : Tx → Prop) (p : Pool) (t : Tx) (ht : P t) (h : AllQ P p) :
    AllQ P (addWaiting cfg p t).1 := by
  unfold addWaiting
  dsimp only
  split
  · split
    · exact h
    · split
      · exact h
      · split
        · split
          · exact h
          · intro a x hx
            rcases hx with hx | hx
            · exact h a x (Or.inl hx)
            · rcases mem_mSet hx with h1 | h1
              · exact h _ x (Or.inr ((List.dropLast_sublist _).subset h1))
              · exact h a x (Or.inr h1)
        · intro a x hx
          rcases hx with hx | hx
          · exact h a x (Or.inl hx)
          · rcases mem_mSet hx with h1 | h1
            · rcases (mem_qInsert _ _ _).mp h1 with rfl | h2
              · exact ht
              · exact h _ x (Or.inr ((List.dropLast_sublist _).subset h2))
            · exact h a x (Or.inr h1)
  · split
    · exact h
    · intro a x hx
      rcases hx with hx | hx
      · exact h a x (Or.inl hx)
      · rcases mem_mSet hx with h1 | h1
        · rcases (mem_qInsert _ _ _).mp h1 with rfl | h2
          · exact ht
          · exact h _ x (Or.inr h2)
        · exact h a x (Or.inr h1)

theorem promoteOne_allQ (cfg : Cfg) (P : Tx → Prop) (p : Pool) (a : Nat) (h : AllQ P p) :
    AllQ P (promoteOne cfg p a) := by
  unfold promoteOne
  dsimp only
  split
  · exact h
  · have hsplit := (qReadyN_split (qForward (p.waiting a) (nonceOf p a)).1 (nonceOf p a) (p.pendingLimit - mCount p.pending)).1
    have hsubW : ∀ x, x ∈ (qReadyN (qForward (p.waiting a) (nonceOf p a)).1 (nonceOf p a) (p.pendingLimit - mCount p.pending)).1 → x ∈ p.waiting a := by
      intro x hx
      have : x ∈ (qForward (p.waiting a) (nonceOf p a)).1 := by rw [hsplit]; exact List.mem_append_right _ hx
      exact (List.mem_filter.mp this).1
    have hsubR : ∀ x, x ∈ (qReadyN (qForward (p.waiting a) (nonceOf p a)).1 (nonceOf p a) (p.pendingLimit - mCount p.pending)).2 → x ∈ p.waiting a := by
      intro x hx
      have : x ∈ (qForward (p.waiting a) (nonceOf p a)).1 := by rw [hsplit]; exact List.mem_append_left _ hx
      exact (List.mem_filter.mp this).1
    intro b x hx
    rcases hx with hx | hx
    · rcases mem_mSet hx with h1 | h1
      · rcases (mem_foldl_qInsert _ _ _).mp h1 with h2 | h2
        · exact h a x (Or.inl h2)
        · exact h a x (Or.inr (hsubR x (List.mem_filter.mp h2).1))
      · exact h b x (Or.inl h1)
    · rcases mem_mSet hx with h1 | h1
      · exact h a x (Or.inr (hsubW x h1))
      · exact h b x (Or.inr h1)

theorem promote_allQ (cfg : Cfg) (P : Tx → Prop) : ∀ (accts : List Nat) (p : Pool), AllQ P p → AllQ P (promote cfg p accts) := by
  intro accts
  induction accts with
  | nil => intro p h; exact h
  | cons a r ih => intro p h; unfold promote; simp only [List.foldl]; exact ih _ (promoteOne_allQ cfg P p a h)

theorem foldl_addWaiting_allQ (cfg : Cfg) (P : Tx → Prop) : ∀ (l : List Tx) (p : Pool), AllQ P p → (∀ t ∈ l, P t) →
    AllQ P (l.foldl (fun acc t =>
      match addWaiting cfg acc t with
      | (acc', .ok) => acc'
      | (acc', _) => { acc' with all := forget acc'.all [t] }) p) := by
  intro l
  induction l with
  | nil => intro p h _; exact h
  | cons t r ih =>
    intro p h hP
    simp only [List.foldl]
    have h1 := addWaiting_allQ cfg P p t (hP t (by simp)) h
    apply ih _ _ (fun t' ht' => hP t' (by simp [ht']))
    cases hres : addWaiting cfg p t with
    | mk acc' res =>
      have e : acc' = (addWaiting cfg p t).1 := by rw [hres]
      cases res <;> simp only <;> (subst e; exact h1)

theorem demoteOne_allQ (cfg : Cfg) (P : Tx → Prop) (p : Pool) (a : Nat) (h : AllQ P p) :
    AllQ P (demoteOne cfg p a) := by
  unfold demoteOne
  dsimp only
  have h1 : AllQ P { p with pending := mSet p.pending a (qForward (p.pending a) (nonceOf p a)).1,
                            all := forget p.all (qForward (p.pending a) (nonceOf p a)).2 } := by
    intro b x hx
    rcases hx with hx | hx
    · rcases mem_mSet hx with h1 | h1
      · exact h a x (Or.inl (List.mem_filter.mp h1).1)
      · exact h b x (Or.inl h1)
    · exact h b x (Or.inr hx)
  obtain ⟨hks, hrs⟩ := gapSplit_sub cfg (qForward (p.pending a) (nonceOf p a)).1 (nonceOf p a)
  generalize gapSplit cfg (qForward (p.pending a) (nonceOf p a)).1 (nonceOf p a) = kr at hks hrs ⊢
  obtain ⟨keep, rest⟩ := kr
  dsimp only at hks hrs ⊢
  split
  · exact h1
  · apply foldl_addWaiting_allQ
    · intro b x hx
      rcases hx with hx | hx
      · rcases mem_mSet hx with h2 | h2
        · exact h a x (Or.inl (List.mem_filter.mp (hks.subset h2)).1)
        · exact h1 b x (Or.inl h2)
      · exact h1 b x (Or.inr hx)
    · intro t ht; exact h a t (Or.inl (List.mem_filter.mp (hrs.subset ht)).1)

theorem foldl_demote_allQ (cfg : Cfg) (P : Tx → Prop) : ∀ (accts : List Nat) (p : Pool), AllQ P p →
    AllQ P (accts.foldl (demoteOne cfg) p) := by
  intro accts
  induction accts with
  | nil => intro p h; exact h
  | cons a r ih => intro p h; simp only [List.foldl]; exact ih _ (demoteOne_allQ cfg P p a h)

/-- what a committed block contained is not queued afterwards -/
theorem commit_removes (cfg : Cfg) (hc : cfg.commitRemoves = true) (p : Pool) (included : List Nat)
    (nonces : List (Nat × Nat)) :
    AllQ (fun t => t.id ∉ included) (commit cfg p included nonces) := by
  unfold commit
  dsimp only
  rw [if_pos hc]
  apply promote_allQ
  apply foldl_demote_allQ
  intro a x hx
  rcases hx with hx | hx
  · have := (List.mem_filter.mp hx).2; simpa using this
  · have := (List.mem_filter.mp hx).2; simpa using this

end AnnVerif.Pool
