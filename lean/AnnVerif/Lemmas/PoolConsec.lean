/-
  The pool offers each account's transactions in strictly CONSECUTIVE nonce order starting at the
  account's current nonce: `PCons`, an invariant of the (repaired) pool model through every
  operation — submissions with any nonce, admin requests, commits of ANY transaction ids leaving
  ANY account nonces behind, flushes.

  The commit is where it is won: `demoteUnexecutables` keeps of each pending queue only the run of
  consecutive nonces from the account's new nonce (`consecPrefix`) — as found it looked for a gap in
  front of the queue only, and a block that contained a later transaction of an account without the
  ones before it left a pending queue with a hole.
-/
import AnnVerif.Lemmas.PoolInv

namespace AnnVerif.Pool

/-- the nonces of `q` are n, n+1, n+2, … -/
def Consec : Queue → Nat → Prop
  | [], _ => True
  | t :: r, n => t.nonce = n ∧ Consec r (n + 1)

def PCons (p : Pool) : Prop := ∀ a, Consec (p.pending a) (nonceOf p a)

theorem consecPrefix_consec : ∀ (q : Queue) (n : Nat), Consec (consecPrefix q n).1 n := by
  intro q
  induction q with
  | nil => intro n; simp [consecPrefix, Consec]
  | cons t r ih =>
    intro n
    unfold consecPrefix
    split
    · rename_i h; exact ⟨h, ih (n + 1)⟩
    · simp [Consec]

theorem consecPrefix_all : ∀ (q : Queue) (n : Nat), (consecPrefix q n).2 = [] → (consecPrefix q n).1 = q := by
  intro q
  induction q with
  | nil => intro n _; simp [consecPrefix]
  | cons t r ih =>
    intro n h
    unfold consecPrefix at h ⊢
    split
    · rename_i e
      simp only [e, if_true] at h
      simp [ih (n + 1) h]
    · rename_i e
      simp [e] at h

/-- membership in a consecutive queue is an interval -/
theorem qHas_consec : ∀ (q : Queue) (n s : Nat), Consec q n → (qHas q s = true ↔ n ≤ s ∧ s < n + q.length) := by
  intro q
  induction q with
  | nil => intro n s _; simp [qHas]
  | cons t r ih =>
    intro n s h
    obtain ⟨h1, h2⟩ := h
    have := ih (n + 1) s h2
    simp only [qHas, List.any_cons, Bool.or_eq_true, beq_iff_eq, List.length_cons] at this ⊢
    rw [h1]
    constructor
    · rintro (e | e)
      · omega
      · have := this.mp e; omega
    · intro hh
      by_cases e : n = s
      · exact Or.inl e
      · exact Or.inr (this.mpr (by omega))

/-- appending the next nonce -/
theorem qInsert_consec : ∀ (q : Queue) (n : Nat) (t : Tx), Consec q n → t.nonce = n + q.length →
    Consec (qInsert q t) n ∧ (qInsert q t).length = q.length + 1 := by
  intro q
  induction q with
  | nil => intro n t _ ht; simp [qInsert, Consec] at *; exact ht
  | cons x r ih =>
    intro n t h ht
    obtain ⟨h1, h2⟩ := h
    simp only [List.length_cons] at ht
    unfold qInsert
    have : ¬ t.nonce < x.nonce := by omega
    simp only [this, if_false]
    obtain ⟨a, b⟩ := ih (n + 1) t h2 (by omega)
    exact ⟨⟨h1, a⟩, by simp [b]⟩

/-- a consecutive run merged into a consecutive queue from the same start is consecutive: what
    `promoteExecutables` does with the ready run (nonces already pending are dropped) -/
theorem merge_consec (pq : Queue) (n : Nat) (hpq : Consec pq n) :
    ∀ (ready : Queue) (s : Nat) (acc : Queue), Consec ready s → n ≤ s → Consec acc n →
      pq.length ≤ acc.length → acc.length = max pq.length (s - n) →
      Consec ((ready.filter (fun t => !qHas pq t.nonce)).foldl qInsert acc) n := by
  intro ready
  induction ready with
  | nil => intro s acc _ _ ha _ _; simpa using ha
  | cons t r ih =>
    intro s acc hr hs ha hl he
    obtain ⟨ht, hr'⟩ := hr
    simp only [List.filter_cons]
    have hq := qHas_consec pq n s hpq
    by_cases hin : qHas pq t.nonce = true
    · -- already pending: dropped
      simp only [hin, Bool.not_true, Bool.false_eq_true, if_false]
      rw [ht] at hin
      have := hq.mp hin
      exact ih (s + 1) acc hr' (by omega) ha hl (by omega)
    · have hin' : qHas pq t.nonce = false := by simpa using hin
      simp only [hin', Bool.not_false, if_true, List.foldl_cons]
      rw [ht] at hin
      have hge : ¬ (n ≤ s ∧ s < n + pq.length) := fun hh => hin (hq.mpr hh)
      have hlen : t.nonce = n + acc.length := by omega
      obtain ⟨c1, c2⟩ := qInsert_consec acc n t ha hlen
      exact ih (s + 1) (qInsert acc t) hr' (by omega) c1 (by omega) (by omega)

theorem readyRun_consec : ∀ (q : Queue) (n c : Nat), Consec (readyRun q n c) n := by
  intro q
  induction q with
  | nil => intro n c; simp [readyRun, Consec]
  | cons x r ih =>
    intro n c
    cases c with
    | zero => simp [readyRun, Consec]
    | succ c =>
      unfold readyRun
      split
      · rename_i h; exact ⟨h, ih (n + 1) c⟩
      · simp [Consec]

/-- what `ReadyN` hands over from a forwarded waiting queue is a consecutive run from the nonce -/
theorem qReadyN_consec (w : Queue) (nonce budget : Nat) (hw : ∀ x ∈ w, nonce ≤ x.nonce) :
    Consec (qReadyN w nonce budget).2 nonce := by
  unfold qReadyN
  split
  · simp [Consec]
  · rename_i x r
    split
    · simp [Consec]
    · rename_i hc
      have h1 : nonce ≤ x.nonce := hw x (by simp)
      have h2 : x.nonce = nonce := by
        have : ¬ x.nonce > nonce := fun hh => hc (Or.inl hh)
        omega
      dsimp only
      rw [← h2]
      exact readyRun_consec _ _ _

theorem promoteOne_pcons (cfg : Cfg) (p : Pool) (a : Nat) (h : PCons p) : PCons (promoteOne cfg p a) := by
  unfold promoteOne
  dsimp only
  split
  · exact h
  · intro b
    show Consec ((mSet p.pending a _) b) (nonceOf p b)
    by_cases e : b = a
    · subst e
      rw [mSet_same]
      have hw : ∀ x ∈ (qForward (p.waiting b) (nonceOf p b)).1, nonceOf p b ≤ x.nonce :=
        fun x hx => ((mem_qForward_keep _ _ x).mp hx).2
      have hr := qReadyN_consec _ (nonceOf p b) (p.pendingLimit - mCount p.pending) hw
      exact merge_consec (p.pending b) (nonceOf p b) (h b) _ (nonceOf p b) (p.pending b) hr (Nat.le_refl _) (h b)
        (Nat.le_refl _) (by omega)
    · rw [mSet_other _ _ _ _ e]; exact h b

theorem promote_pcons (cfg : Cfg) : ∀ (accts : List Nat) (p : Pool), PCons p → PCons (promote cfg p accts) := by
  intro accts
  induction accts with
  | nil => intro p h; exact h
  | cons a r ih => intro p h; exact ih _ (promoteOne_pcons cfg p a h)

theorem addWaiting_pending (cfg : Cfg) (p : Pool) (t : Tx) :
    (addWaiting cfg p t).1.pending = p.pending ∧ (addWaiting cfg p t).1.nonces = p.nonces := by
  unfold addWaiting
  dsimp only
  split
  · split
    · exact ⟨rfl, rfl⟩
    · split
      · exact ⟨rfl, rfl⟩
      · split
        · split <;> exact ⟨rfl, rfl⟩
        · exact ⟨rfl, rfl⟩
  · split <;> exact ⟨rfl, rfl⟩

theorem foldl_addWaiting_pending (cfg : Cfg) : ∀ (l : List Tx) (p : Pool),
    (l.foldl (fun acc t =>
      match addWaiting cfg acc t with
      | (acc', .ok) => acc'
      | (acc', _) => { acc' with all := forget acc'.all [t] }) p).pending = p.pending ∧
    (l.foldl (fun acc t =>
      match addWaiting cfg acc t with
      | (acc', .ok) => acc'
      | (acc', _) => { acc' with all := forget acc'.all [t] }) p).nonces = p.nonces := by
  intro l
  induction l with
  | nil => intro p; exact ⟨rfl, rfl⟩
  | cons t r ih =>
    intro p
    simp only [List.foldl_cons]
    obtain ⟨a1, a2⟩ := addWaiting_pending cfg p t
    generalize hres : addWaiting cfg p t = res at a1 a2
    obtain ⟨acc', o⟩ := res
    dsimp only at a1 a2
    cases o with
    | ok =>
      obtain ⟨i1, i2⟩ := ih acc'
      exact ⟨i1.trans a1, i2.trans a2⟩
    | exist | stale | full | nonceTaken =>
      obtain ⟨i1, i2⟩ := ih { acc' with all := forget acc'.all [t] }
      exact ⟨i1.trans a1, i2.trans a2⟩

/-- one account's turn in the (repaired) demotion: its pending queue becomes the consecutive run
    from its nonce; nobody else's changes; the nonces stay -/
theorem demoteOne_pending (cfg : Cfg) (hd : cfg.demotesGaps = true) (p : Pool) (a : Nat) :
    (demoteOne cfg p a).pending = mSet p.pending a (consecPrefix (qForward (p.pending a) (nonceOf p a)).1 (nonceOf p a)).1 ∧
    (demoteOne cfg p a).nonces = p.nonces := by
  unfold demoteOne
  dsimp only
  have hg : gapSplit cfg (qForward (p.pending a) (nonceOf p a)).1 (nonceOf p a) =
      consecPrefix (qForward (p.pending a) (nonceOf p a)).1 (nonceOf p a) := by simp [gapSplit, hd]
  rw [hg]
  split
  · rename_i he
    have := consecPrefix_all _ _ (by simpa using he)
    rw [this]
    exact ⟨rfl, rfl⟩
  · obtain ⟨f1, f2⟩ := foldl_addWaiting_pending cfg
      (consecPrefix (qForward (p.pending a) (nonceOf p a)).1 (nonceOf p a)).2
      { p with pending := mSet (mSet p.pending a (qForward (p.pending a) (nonceOf p a)).1) a
                 (consecPrefix (qForward (p.pending a) (nonceOf p a)).1 (nonceOf p a)).1,
               all := forget p.all (qForward (p.pending a) (nonceOf p a)).2 }
    refine ⟨f1.trans ?_, f2⟩
    funext b
    simp only [mSet]
    split <;> rfl

theorem foldl_demote_pcons (cfg : Cfg) (hd : cfg.demotesGaps = true) : ∀ (accts : List Nat) (p : Pool),
    (∀ a, a ∉ accts → Consec (p.pending a) (nonceOf p a)) → PCons (accts.foldl (demoteOne cfg) p) := by
  intro accts
  induction accts with
  | nil => intro p h a; exact h a (by simp)
  | cons x r ih =>
    intro p h
    simp only [List.foldl_cons]
    apply ih
    intro a ha
    obtain ⟨e1, e2⟩ := demoteOne_pending cfg hd p x
    have hn : nonceOf (demoteOne cfg p x) a = nonceOf p a := by unfold nonceOf; rw [e2]
    rw [hn, e1]
    by_cases e : a = x
    · subst e; rw [mSet_same]; exact consecPrefix_consec _ _
    · rw [mSet_other _ _ _ _ e]
      exact h a (by simp [e, ha])

theorem commit_pcons (cfg : Cfg) (hd : cfg.demotesGaps = true) (p : Pool) (included : List Nat)
    (nonces : List (Nat × Nat)) (hs : ∀ a, a ∉ accounts → p.pending a = []) :
    PCons (commit cfg p included nonces) := by
  unfold commit
  dsimp only
  apply promote_pcons
  apply foldl_demote_pcons cfg hd
  generalize hp1 : (if cfg.commitRemoves = true then _ else _ : Pool) = p1
  have hs1 : ∀ a, a ∉ accounts → p1.pending a = [] := by
    intro a ha
    rw [← hp1]
    split
    · show (p.pending a).filter _ = []
      rw [hs a ha]; rfl
    · exact hs a ha
  intro a ha
  by_cases hacc : a ∈ accounts
  · -- an account that is not a key of the pending map has an empty pending queue
    have hne : ¬ ((!(p1.pending a).isEmpty) = true) := fun hh => ha (List.mem_filter.mpr ⟨hacc, hh⟩)
    have he : p1.pending a = [] := by
      cases hq : p1.pending a with
      | nil => rfl
      | cons x r => simp [hq] at hne
    rw [he]; trivial
  · rw [hs1 a hacc]; trivial

theorem submit_pcons (cfg : Cfg) (p : Pool) (t : Tx) (h : PCons p) : PCons (submit cfg p t).1 := by
  unfold submit
  split
  · exact h
  · split
    · exact h
    · split
      · exact h
      · obtain ⟨a1, a2⟩ := addWaiting_pending cfg p t
        generalize addWaiting cfg p t = res at a1 a2
        obtain ⟨p1, o⟩ := res
        dsimp only at a1 a2
        have h1 : PCons p1 := by
          intro a
          have : nonceOf p1 a = nonceOf p a := by unfold nonceOf; rw [a2]
          rw [this, a1]; exact h a
        cases o with
        | ok =>
          dsimp only
          have h2 : PCons { p1 with all := p1.all ++ [t.id] } := h1
          split
          · exact promote_pcons cfg _ _ h2
          · exact h2
        | exist | stale | full | nonceTaken => exact h1

theorem submitAdmin_pcons (p : Pool) (id : Nat) (h : PCons p) : PCons (submitAdmin p id).1 := by
  unfold submitAdmin
  split
  · exact h
  · exact h

theorem flush_pcons (p : Pool) : PCons (flush p) := by
  intro a; simp [flush, Consec]

end AnnVerif.Pool
