import AnnVerif.Model.VoteSet
namespace AnnVerif.VoteSet

def powers (vals : List Validator) : List Int := vals.map (·.power)

/-- voting power of the occupied slots (each position counted once by construction) -/
def tally : List Int → List (Option Vote) → Int
  | p :: ps, some _ :: ss => p + tally ps ss
  | _ :: ps, none :: ss => tally ps ss
  | _, _ => 0

theorem tally_replicate_none (ps : List Int) (n : Nat) : tally ps (List.replicate n none) = 0 := by
  induction n generalizing ps with
  | zero => cases ps <;> simp [tally]
  | succ n ih => cases ps <;> simp [List.replicate_succ, tally, ih]

theorem tally_set_none (ps : List Int) (ss : List (Option Vote)) (i : Nat) (v : Vote) (p : Int)
    (h : ss[i]? = some none) (hp : ps[i]? = some p) :
    tally ps (ss.set i (some v)) = tally ps ss + p := by
  induction ss generalizing ps i with
  | nil => simp at h
  | cons s t ih =>
    cases ps with
    | nil => simp at hp
    | cons q qs =>
      cases i with
      | zero =>
        simp at h hp; subst h; subst hp
        simp [tally]; omega
      | succ j =>
        simp at h hp
        cases s <;> simp [tally, ih qs j h hp] <;> omega

theorem tally_set_some (ps : List Int) (ss : List (Option Vote)) (i : Nat) (v e : Vote)
    (h : ss[i]? = some (some e)) : tally ps (ss.set i (some v)) = tally ps ss := by
  induction ss generalizing ps i with
  | nil => simp at h
  | cons s t ih =>
    cases ps with
    | nil => cases i <;> cases s <;> simp [tally]
    | cons q qs =>
      cases i with
      | zero => simp at h; subst h; simp [tally]
      | succ j =>
        simp at h
        cases s <;> simp [tally, ih qs j h]

theorem tally_nonneg (ps : List Int) (ss : List (Option Vote)) (hp : ∀ p ∈ ps, 0 ≤ p) :
    0 ≤ tally ps ss := by
  induction ss generalizing ps with
  | nil => cases ps <;> simp [tally]
  | cons s t ih =>
    cases ps with
    | nil => simp [tally]
    | cons q qs =>
      have h1 := hp q (by simp)
      have h2 := ih qs (fun p hp' => hp p (by simp [hp']))
      cases s <;> simp [tally] <;> omega

theorem tally_le_sum (ps : List Int) (ss : List (Option Vote)) (hp : ∀ p ∈ ps, 0 ≤ p) :
    tally ps ss ≤ ps.sum := by
  induction ss generalizing ps with
  | nil =>
    cases ps with
    | nil => simp [tally]
    | cons q qs =>
      simp [tally]
      have := tally_nonneg qs [] (fun p hp' => hp p (by simp [hp']))
      have h1 := hp q (by simp)
      induction qs with
      | nil => simpa using h1
      | cons r rs ih2 =>
        have hr := hp r (by simp)
        have := ih2 (fun p hp' => hp p (by simp at hp' ⊢; rcases hp' with h | h <;> simp [h]))
          (by cases rs <;> simp [tally])
        simp at this ⊢; omega
  | cons s t ih =>
    cases ps with
    | nil => simp [tally]
    | cons q qs =>
      have h1 := hp q (by simp)
      have h2 := ih qs (fun p hp' => hp p (by simp [hp']))
      cases s <;> simp [tally] <;> omega

/-- monotonicity: a slot list that is occupied wherever another one is has at least its power -/
theorem tally_mono (ps : List Int) (a b : List (Option Vote)) (hp : ∀ p ∈ ps, 0 ≤ p)
    (hlen : a.length = b.length)
    (h : ∀ i : Nat, (a[i]?).join.isSome → (b[i]?).join.isSome) : tally ps a ≤ tally ps b := by
  induction a generalizing ps b with
  | nil => cases b with
    | nil => simp [tally]
    | cons _ _ => simp at hlen
  | cons x xs ih =>
    cases b with
    | nil => simp at hlen
    | cons y ys =>
      cases ps with
      | nil => simp [tally]
      | cons q qs =>
        have h1 := hp q (by simp)
        have ih' := ih qs ys (fun p hp' => hp p (by simp [hp'])) (by simpa using hlen)
          (fun (i : Nat) (hi : (xs[i]?).join.isSome) => by simpa using h (i + 1) (by simpa using hi))
        have h0 := h 0
        cases x <;> cases y <;> simp [tally] at h0 ⊢ <;> omega

/-! ### overlay -/

theorem overlay_length (d s : List (Option Vote)) : (overlay d s).length = d.length := by
  induction d generalizing s with
  | nil => cases s <;> simp [overlay]
  | cons x xs ih => cases s <;> simp [overlay, ih]

theorem overlay_get (d s : List (Option Vote)) (i : Nat) (hl : s.length = d.length) :
    (overlay d s)[i]? = (match (s[i]?).join with | some v => some (some v) | none => d[i]?) := by
  induction d generalizing s i with
  | nil =>
    have : s = [] := List.eq_nil_of_length_eq_zero hl
    subst this; simp [overlay]
  | cons x xs ih =>
    cases s with
    | nil => simp at hl
    | cons y ys =>
      cases i with
      | zero => cases y <;> simp [overlay]
      | succ j => simp [overlay, ih ys j (by simpa using hl)]

theorem tally_overlay (ps : List Int) (d s : List (Option Vote)) (hl : s.length = d.length)
    (h : ∀ i : Nat, (s[i]?).join.isSome → (d[i]?).join.isSome) : tally ps (overlay d s) = tally ps d := by
  induction d generalizing ps s with
  | nil => cases s <;> simp [overlay]
  | cons x xs ih =>
    cases s with
    | nil => simp at hl
    | cons y ys =>
      have ih' := fun qs => ih qs ys (by simpa using hl)
        (fun (i : Nat) (hi : (ys[i]?).join.isSome) => by simpa using h (i + 1) (by simpa using hi))
      have h0 := h 0
      cases ps with
      | nil => cases x <;> cases y <;> simp [overlay, tally]
      | cons q qs =>
        cases x <;> cases y <;> simp [overlay, tally, ih' qs] at h0 ⊢

/-! ### the map -/

theorem lookup_insert_self (m : List (Bytes × BlockVotes)) (k : Bytes) (v : BlockVotes) :
    lookup (insert m k v) k = some v := by
  induction m with
  | nil => simp [insert, lookup]
  | cons x t ih =>
    obtain ⟨k', v'⟩ := x
    by_cases h : k' = k <;> simp [insert, lookup, h, ih]

theorem lookup_insert_ne (m : List (Bytes × BlockVotes)) (k k' : Bytes) (v : BlockVotes)
    (hne : k' ≠ k) : lookup (insert m k v) k' = lookup m k' := by
  induction m with
  | nil => simp [insert, lookup]; intro h; exact absurd h.symm hne
  | cons x t ih =>
    obtain ⟨k'', v''⟩ := x
    by_cases h : k'' = k
    · subst h
      have h2 : ¬ k'' = k' := fun e => hne e.symm
      simp [insert, lookup, h2]
    · by_cases h2 : k'' = k'
      · subst h2; simp [insert, lookup, h]
      · simp [insert, lookup, h, h2, ih]

/-- `2/3 + 1` is strictly more than two thirds -/
theorem quorum_gt (t : Int) : 3 * quorum t > 2 * t := by
  unfold quorum; omega

end AnnVerif.VoteSet
