/-
  The "assembled block has its parts" invariant of the consensus state machine (Model/Node.lean),
  over every run: whenever the node holds an assembled `ProposalBlock`, the part set it keeps is
  complete and is that block's — so `finalizeCommit` never hands an incomplete part set to
  `BlockStore.SaveBlock` (which panics on one, on the consensus routine).

  `Good` is kept by every handler (`handleMsg` for every message from every peer and from the own
  queue, `handleTimeout` for every timeout), hence by every run (`run_good`), for the repaired
  `defaultSetProposal` (cfg.proposalKeepsParts) and verified own parts (cfg.verifyOwnParts).
-/
import AnnVerif.Model.Node

namespace AnnVerif.Node

def savePanic : Emit := .panic "SaveBlock:incomplete-part-set"

structure Good (n : Node) : Prop where
  c1 : n.cfg.verifyOwnParts = true
  c2 : n.cfg.proposalKeepsParts = true
  asm : ∀ b, n.proposalBlock = some b → n.partsComplete = true ∧ n.proposalParts = some b
  nsp : savePanic ∉ n.out

/-- `n'` differs from `n` in nothing the invariant reads (and emitted no save panic) -/
structure Same (n n' : Node) : Prop where
  cfg : n'.cfg = n.cfg
  pb : n'.proposalBlock = n.proposalBlock
  pp : n'.proposalParts = n.proposalParts
  pc : n'.partsComplete = n.partsComplete
  out : savePanic ∈ n'.out → savePanic ∈ n.out

theorem Same.rfl' (n : Node) : Same n n := ⟨rfl, rfl, rfl, rfl, id⟩

theorem Same.trans {a b c : Node} (h1 : Same a b) (h2 : Same b c) : Same a c :=
  ⟨h2.cfg.trans h1.cfg, h2.pb.trans h1.pb, h2.pp.trans h1.pp, h2.pc.trans h1.pc, fun h => h1.out (h2.out h)⟩

theorem Good.of_same {n n' : Node} (h : Good n) (s : Same n n') : Good n' :=
  ⟨by rw [s.cfg]; exact h.c1, by rw [s.cfg]; exact h.c2,
   by intro b hb; rw [s.pb] at hb; rw [s.pc, s.pp]; exact h.asm b hb,
   fun hh => h.nsp (s.out hh)⟩

/-- an emit other than the save panic -/
theorem same_emit (n : Node) (e : Emit) (he : e ≠ savePanic) : Same n (emit n e) :=
  ⟨rfl, rfl, rfl, rfl, by
    intro h; simp only [emit, List.mem_append, List.mem_singleton] at h
    rcases h with h | h
    · exact h
    · exact absurd h.symm he⟩

theorem same_signAddVote (n : Node) (t : Nat) (bid : VoteSet.BlockID) : Same n (signAddVote n t bid) := by
  unfold signAddVote
  split
  · dsimp only
    split <;> exact ⟨rfl, rfl, rfl, rfl, id⟩
  · exact Same.rfl' n

theorem same_doPrevote (n : Node) : Same n (doPrevote n) := by
  unfold doPrevote
  split
  · exact same_signAddVote _ _ _
  · split
    · exact same_signAddVote _ _ _
    · split <;> exact same_signAddVote _ _ _

theorem same_enterPrevote (n : Node) (h r : Int) : Same n (enterPrevote n h r) := by
  unfold enterPrevote
  split
  · exact Same.rfl' n
  · exact (same_doPrevote n).trans ⟨rfl, rfl, rfl, rfl, id⟩

theorem same_enterPrevoteWait (n : Node) (h r : Int) : Same n (enterPrevoteWait n h r) := by
  unfold enterPrevoteWait
  split
  · exact Same.rfl' n
  · split
    · exact same_emit _ _ (by simp [savePanic])
    · exact (same_emit n (.timeout h r .prevoteWait) (by simp [savePanic])).trans ⟨rfl, rfl, rfl, rfl, id⟩

theorem same_enterPrecommitWait (n : Node) (h r : Int) : Same n (enterPrecommitWait n h r) := by
  unfold enterPrecommitWait
  split
  · exact Same.rfl' n
  · split
    · exact same_emit _ _ (by simp [savePanic])
    · exact (same_emit n (.timeout h r .precommitWait) (by simp [savePanic])).trans ⟨rfl, rfl, rfl, rfl, id⟩

theorem same_decideProposal (n : Node) (h r : Int) : Same n (decideProposal n h r) := by
  unfold decideProposal
  extract_lets own block pol p res m
  have hm : Same n m := by
    unfold m
    split <;> exact ⟨rfl, rfl, rfl, rfl, id⟩
  split
  · split
    · exact hm.trans ⟨rfl, rfl, rfl, rfl, id⟩
    · exact ⟨rfl, rfl, rfl, rfl, id⟩
  · exact ⟨rfl, rfl, rfl, rfl, id⟩

theorem same_setRound (n : Node) (r : Int) : Same n (setRound n r) := by
  unfold setRound
  split
  · exact ⟨rfl, rfl, rfl, rfl, by
      intro h; simp only [List.mem_append, List.mem_singleton] at h
      rcases h with h | h
      · exact h
      · simp [savePanic] at h⟩
  · exact ⟨rfl, rfl, rfl, rfl, id⟩

theorem same_enterPropose (n : Node) (h r : Int) : Same n (enterPropose n h r) := by
  unfold enterPropose
  split
  · exact Same.rfl' n
  · extract_lets n1 n2 n3
    have s1 : Same n n1 := same_emit _ _ (by simp [savePanic])
    have s2 : Same n n2 := by
      unfold n2
      split
      · split
        · exact s1.trans (same_decideProposal _ _ _)
        · exact s1
      · exact s1
    have s3 : Same n n3 := s2.trans ⟨rfl, rfl, rfl, rfl, id⟩
    split
    · exact s3.trans (same_enterPrevote _ _ _)
    · exact s3
theorem good_enterNewRound (n : Node) (h r : Int) (g : Good n) : Good (enterNewRound n h r) := by
  unfold enterNewRound
  split
  · exact g
  · dsimp only
    apply Good.of_same _ (same_enterPropose _ _ _)
    apply Good.of_same _ (same_setRound _ _)
    split
    · exact ⟨g.c1, g.c2, g.asm, g.nsp⟩
    · exact ⟨g.c1, g.c2, by intro b hb; simp at hb, g.nsp⟩

theorem good_fin (n : Node) (r : Int) (g : Good n) : Good { n with round := r, step := Step.precommit } :=
  ⟨g.c1, g.c2, g.asm, g.nsp⟩

theorem good_enterPrecommit (n : Node) (h r : Int) (g : Good n) : Good (enterPrecommit n h r) := by
  unfold enterPrecommit
  split
  · exact g
  · dsimp only
    split
    · exact good_fin _ _ (g.of_same (same_signAddVote _ _ _))
    · split
      · exact good_fin _ _ (g.of_same (same_emit _ _ (by simp [savePanic])))
      · split
        · apply good_fin
          apply Good.of_same _ (same_signAddVote _ _ _)
          split
          · exact ⟨g.c1, g.c2, g.asm, g.nsp⟩
          · exact g
        · split
          · apply good_fin
            apply Good.of_same _ (same_signAddVote _ _ _)
            exact ⟨g.c1, g.c2, g.asm, g.nsp⟩
          · split
            · split
              · exact good_fin _ _ (g.of_same (same_emit _ _ (by simp [savePanic])))
              · apply good_fin
                apply Good.of_same _ (same_signAddVote _ _ _)
                exact ⟨g.c1, g.c2, g.asm, g.nsp⟩
            · apply good_fin
              apply Good.of_same _ (same_signAddVote _ _ _)
              split
              · exact ⟨g.c1, g.c2, g.asm, g.nsp⟩
              · exact ⟨g.c1, g.c2, by intro b hb; simp [unlock] at hb, g.nsp⟩

theorem good_finalizeCommit (n : Node) (h : Int) (g : Good n) : Good (finalizeCommit n h) := by
  unfold finalizeCommit
  split
  · exact g
  · split
    · rename_i bid b hm hp
      split
      · exact g.of_same (same_emit _ _ (by simp [savePanic]))
      · split
        · exact g.of_same (same_emit _ _ (by simp [savePanic]))
        · split
          · exact g.of_same (same_emit _ _ (by simp [savePanic]))
          · split
            · rename_i hc
              have := (g.asm b hp).1
              simp [this] at hc
            · dsimp only
              refine ⟨g.c1, g.c2, by intro b hb; simp [emit] at hb, ?_⟩
              intro hh
              simp only [emit, List.mem_append, List.mem_singleton] at hh
              rcases hh with (hh | hh) | hh
              · exact g.nsp hh
              · simp [savePanic] at hh
              · simp [savePanic] at hh
    · exact g.of_same (same_emit _ _ (by simp [savePanic]))

theorem good_tryFinalizeCommit (n : Node) (h : Int) (g : Good n) : Good (tryFinalizeCommit n h) := by
  unfold tryFinalizeCommit
  split
  · exact g.of_same (same_emit _ _ (by simp [savePanic]))
  · split
    · exact g
    · split
      · exact g
      · split
        · exact g
        · exact good_finalizeCommit _ _ g

theorem hashesTo_some {blk : Option Name} {h : Bytes} (hh : hashesTo blk h = true) : blk = some h := by
  unfold hashesTo at hh
  split at hh
  · rename_i b
    simp at hh
    rw [hh.2]
  · simp at hh

theorem good_enterCommit (n : Node) (h cr : Int) (g : Good n) : Good (enterCommit n h cr) := by
  unfold enterCommit
  split
  · exact g
  · split
    · exact g.of_same (same_emit _ _ (by simp [savePanic]))
    · rename_i bid hm
      dsimp only
      apply good_tryFinalizeCommit
      -- the two adjustments, then step/commitRound
      have g1 : Good (if hashesTo n.lockedBlock bid.hash = true then
          { n with proposalBlock := n.lockedBlock, proposalParts := n.lockedBlock, partsComplete := true } else n) := by
        split
        · exact ⟨g.c1, g.c2, by intro b hb; exact ⟨rfl, hb⟩, g.nsp⟩
        · exact g
      generalize (if hashesTo n.lockedBlock bid.hash = true then
          { n with proposalBlock := n.lockedBlock, proposalParts := n.lockedBlock, partsComplete := true } else n) = m at g1 ⊢
      have g2 : Good (if (!hashesTo m.proposalBlock bid.hash) = true ∧ m.proposalParts ≠ some (nameOf bid) then
          { m with proposalBlock := none, proposalParts := some (nameOf bid), partsComplete := false } else m) := by
        split
        · exact ⟨g1.c1, g1.c2, by intro b hb; simp at hb, g1.nsp⟩
        · exact g1
      generalize (if (!hashesTo m.proposalBlock bid.hash) = true ∧ m.proposalParts ≠ some (nameOf bid) then
          { m with proposalBlock := none, proposalParts := some (nameOf bid), partsComplete := false } else m) = m2 at g2 ⊢
      exact ⟨g2.c1, g2.c2, g2.asm, g2.nsp⟩

theorem good_setProposal (n : Node) (p : Proposal) (signer : Nat) (bad : Bool) (g : Good n) :
    Good (setProposal n p signer bad) := by
  unfold setProposal
  split
  · exact g
  · split
    · exact g
    · split
      · exact g
      · split
        · exact g
        · split
          · exact g
          · split
            · exact ⟨g.c1, g.c2, g.asm, g.nsp⟩
            · rename_i hk
              refine ⟨g.c1, g.c2, ?_, g.nsp⟩
              intro b hb
              -- an assembled block means a part set is there, and the repaired code keeps it
              have hb' : n.proposalBlock = some b := hb
              have := (g.asm b hb').2
              exact absurd ⟨g.c2, by simp [this]⟩ hk

theorem good_addParts (n : Node) (height : Int) (block : Name) (own : Bool) (g : Good n) :
    Good (addParts n height block own) := by
  unfold addParts
  split
  · exact g
  · split
    · exact g
    · split
      · exact g
      · split
        · exact g
        · rename_i h1 h2 h3 h4
          have hpp : n.proposalParts = some block := by
            by_cases hq : n.proposalParts = some block
            · exact hq
            · exfalso; apply h4; refine ⟨hq, ?_⟩
              left; exact g.c1
          have g1 : Good { n with proposalBlock := some block, partsComplete := true } :=
            ⟨g.c1, g.c2, by intro b hb; simp at hb; subst hb; exact ⟨rfl, hpp⟩, g.nsp⟩
          dsimp only
          split
          · exact g1.of_same (same_enterPrevote _ _ _)
          · split
            · exact good_tryFinalizeCommit _ _ g1
            · exact g1

theorem same_hvsAddVote (n : Node) (v : VoteSet.Vote) (sigok : Bool) (peer : String) :
    Same n (hvsAddVote n v sigok peer).1 := by
  unfold hvsAddVote
  split
  · exact Same.rfl' n
  · split
    rename_i n' known heq
    have s : Same n n' := by
      split at heq
      · cases heq; exact Same.rfl' n
      · dsimp only at heq
        split at heq
        · cases heq; exact ⟨rfl, rfl, rfl, rfl, id⟩
        · cases heq; exact Same.rfl' n
    split
    · exact s
    · split
      · exact s
      · exact s.trans ⟨rfl, rfl, rfl, rfl, id⟩

theorem good_unlock (n : Node) (g : Good n) : Good (unlock n) := ⟨g.c1, g.c2, g.asm, g.nsp⟩

theorem good_addVote (n : Node) (v : VoteSet.Vote) (sigok : Bool) (peer : String) (g : Good n) :
    Good (addVote n v sigok peer) := by
  unfold addVote
  split
  · split
    · exact g
    · split
      · split
        · exact g
        · exact g.of_same (same_emit _ _ (by simp [savePanic]))
      · dsimp only
        split
        · exact good_enterNewRound _ _ _ ⟨g.c1, g.c2, g.asm, g.nsp⟩
        · exact ⟨g.c1, g.c2, g.asm, g.nsp⟩
  · split
    · dsimp only
      have g0 : Good (hvsAddVote n v sigok peer).1 := g.of_same (same_hvsAddVote _ _ _ _)
      generalize hvsAddVote n v sigok peer = res at g0 ⊢
      obtain ⟨m, o⟩ := res
      dsimp only at g0 ⊢
      split
      · exact g0
      · split
        · skip
          have g1 : Good (if m.lockedBlock.isSome = true ∧ m.lockedRound < v.round ∧ v.round ≤ m.round then
              match maj23 (prevotes m v.round) with
              | some b => if (!hashesTo m.lockedBlock b.hash) = true then unlock m else m
              | none => m
            else m) := by
            split
            · split
              · split
                · exact good_unlock _ g0
                · exact g0
              · exact g0
            · exact g0
          generalize (if m.lockedBlock.isSome = true ∧ m.lockedRound < v.round ∧ v.round ≤ m.round then
              match maj23 (prevotes m v.round) with
              | some b => if (!hashesTo m.lockedBlock b.hash) = true then unlock m else m
              | none => m
            else m) = m1 at g1 ⊢
          split
          · skip
            split
            · exact good_enterPrecommit _ _ _ (good_enterNewRound _ _ _ g1)
            · exact ((good_enterNewRound _ _ _ g1).of_same (same_enterPrevote _ _ _)).of_same (same_enterPrevoteWait _ _ _)
          · split
            · split
              · exact g1.of_same (same_enterPrevote _ _ _)
              · exact g1
            · exact g1
        · skip
          split
          · split
            · exact good_enterNewRound _ _ _ g0
            · skip
              have g3 := good_enterCommit _ n.height v.round
                (good_enterPrecommit _ n.height v.round (good_enterNewRound _ n.height v.round g0))
              split
              · exact good_enterNewRound _ _ _ g3
              · exact g3
          · split
            · exact (good_enterPrecommit _ _ _ (good_enterNewRound _ _ _ g0)).of_same (same_enterPrecommitWait _ _ _)
            · exact g0
    · exact g

theorem good_handleTimeout (n : Node) (h r : Int) (s : Step) (g : Good n) : Good (handleTimeout n h r s) := by
  unfold handleTimeout
  split
  · exact g
  · split
    · exact good_enterNewRound _ _ _ g
    · exact g.of_same (same_enterPrevote _ _ _)
    · exact good_enterPrecommit _ _ _ g
    · exact good_enterNewRound _ _ _ g
    · exact g.of_same (same_emit _ _ (by simp [savePanic]))

theorem good_handleMsg (n : Node) (m : Msg) (peer : String) (g : Good n) : Good (handleMsg n m peer) := by
  unfold handleMsg
  split
  · exact good_setProposal _ _ _ _ g
  · exact good_addParts _ _ _ _ g
  · exact good_addVote _ _ _ _ g

theorem same_setPeerMaj23 (n : Node) (height round : Int) (type : Nat) (peer : String) (bid : VoteSet.BlockID) :
    Same n (setPeerMaj23 n height round type peer bid) := by
  unfold setPeerMaj23
  split
  · exact Same.rfl' n
  · split
    · exact Same.rfl' n
    · split
      · exact Same.rfl' n
      · exact ⟨rfl, rfl, rfl, rfl, id⟩

/-- what reaches the consensus state: a peer's message, the head of its own queue, a timeout -
    and a peer's +2/3 claim, which the reactor applies to the vote sets directly -/
inductive In where
  | msg (m : Msg) (peer : String)
  | own
  | timeout (h r : Int) (s : Step)
  | maj23 (height round : Int) (type : Nat) (peer : String) (bid : VoteSet.BlockID)

def stepIn (n : Node) : In → Node
  | .msg m peer => handleMsg n m peer
  | .own => match n.queue with
            | [] => n
            | m :: rest => handleMsg { n with queue := rest } m ""
  | .timeout h r s => handleTimeout n h r s
  | .maj23 h r t peer bid => setPeerMaj23 n h r t peer bid

theorem good_stepIn (n : Node) (i : In) (g : Good n) : Good (stepIn n i) := by
  cases i with
  | msg m peer => exact good_handleMsg _ _ _ g
  | own =>
    show Good (match n.queue with | [] => n | m :: rest => handleMsg { n with queue := rest } m "")
    split
    · exact g
    · exact good_handleMsg _ _ _ ⟨g.c1, g.c2, g.asm, g.nsp⟩
  | timeout h r s => exact good_handleTimeout _ _ _ _ g
  | maj23 h r t peer bid => exact g.of_same (same_setPeerMaj23 _ _ _ _ _ _)

theorem run_good (ins : List In) : ∀ (n : Node), Good n → Good (ins.foldl stepIn n) := by
  induction ins with
  | nil => intro n g; exact g
  | cons i rest ih => intro n g; exact ih _ (good_stepIn n i g)

theorem init_good (height : Int) (vals : ValSet.ValSet) (me : Option Nat) (skip : Bool) :
    Good (init repaired height vals me skip) :=
  ⟨rfl, rfl, by intro b hb; simp [init] at hb, by simp [init]⟩

end AnnVerif.Node
