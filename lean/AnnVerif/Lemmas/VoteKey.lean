import AnnVerif.Lemmas.Wire0
import AnnVerif.Model.VoteSet
namespace AnnVerif.VoteSet
open AnnVerif

theorem wireVarint_append_inj (a c : Int) (X Y : Bytes) (ha : a.natAbs < 2 ^ 64) (hc : c.natAbs < 2 ^ 64)
    (h : wireVarint a ++ X = wireVarint c ++ Y) : a = c ∧ X = Y := by
  unfold wireVarint at h
  by_cases ha0 : a < 0 <;> by_cases hc0 : c < 0
  · simp only [ha0, hc0, if_true, List.cons_append, List.cons.injEq] at h
    obtain ⟨hh, ht⟩ := h
    have hs : uvarintSize a.natAbs = uvarintSize c.natAbs := by
      have := UInt8_ofNat_inj (by have := uvarintSize_le a.natAbs; omega)
        (by have := uvarintSize_le c.natAbs; omega) hh
      omega
    rw [← hs] at ht
    have hl := List.append_inj ht (by simp [beBytes_length])
    have := beBytes_inj (uvarintSize a.natAbs) a.natAbs c.natAbs (uvarintSize_bound _ ha)
      (by rw [hs]; exact uvarintSize_bound _ hc) hl.1
    exact ⟨by omega, hl.2⟩
  · exfalso
    simp only [ha0, hc0, if_true, if_false, wireVarintNat, List.cons_append, List.cons.injEq] at h
    have := UInt8_ofNat_inj (by have := uvarintSize_le a.natAbs; omega)
      (by have := uvarintSize_le c.toNat; omega) h.1
    have := uvarintSize_le c.toNat
    omega
  · exfalso
    simp only [ha0, hc0, if_true, if_false, wireVarintNat, List.cons_append, List.cons.injEq] at h
    have := UInt8_ofNat_inj (by have := uvarintSize_le a.toNat; omega)
      (by have := uvarintSize_le c.natAbs; omega) h.1
    have := uvarintSize_le a.toNat
    omega
  · simp only [ha0, hc0, if_false] at h
    have := wireVarintNat_append_inj a.toNat c.toNat X Y (by omega) (by omega) h
    exact ⟨by omega, this.2⟩

/-- a BlockID is wire-sized: what any decoded or locally built BlockID satisfies -/
def BlockID.Small (b : BlockID) : Prop :=
  b.hash.length < 2 ^ 64 ∧ b.total.natAbs < 2 ^ 64 ∧ b.phash.length < 2 ^ 64

/-- C15 (repaired): `BlockID.Key()` is injective -/
theorem key_injective (b b' : BlockID) (hb : b.Small) (hb' : b'.Small)
    (h : b.key repaired = b'.key repaired) : b = b' := by
  unfold BlockID.key at h
  simp only [repaired, if_true] at h
  rw [List.append_assoc, List.append_assoc] at h
  obtain ⟨h1, h⟩ := wireByteSlice_append_inj _ _ _ _ hb.1 hb'.1 h
  obtain ⟨h2, h⟩ := wireVarint_append_inj _ _ _ _ hb.2.1 hb'.2.1 h
  have h3 := wireByteSlice_inj _ _ hb.2.2 hb'.2.2 h
  cases b; cases b'; simp_all

/-- C15 AS FOUND: `Key()` is NOT injective — {Hash: nil, Parts{1,[00]}} and {Hash: [01 01], Parts{1,nil}}. -/
theorem key_not_injective_asFound :
    (⟨[], 1, [0]⟩ : BlockID) ≠ ⟨[1, 1], 1, []⟩ ∧
    (⟨[], 1, [0]⟩ : BlockID).key asFound = (⟨[1, 1], 1, []⟩ : BlockID).key asFound := by
  constructor
  · decide
  · decide

end AnnVerif.VoteSet
