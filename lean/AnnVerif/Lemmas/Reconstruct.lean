/-
  Lemmas for C13.S7: `reconstructLastCommit` succeeds on every commit `VerifyCommit` (with the slot
  check) accepts. The loop invariant `RInv` says what the vote set looks like after the first j slots.
-/
import AnnVerif.Model.Sync
import AnnVerif.Lemmas.BlockValid
namespace AnnVerif.Sync
open AnnVerif AnnVerif.VoteSet AnnVerif.Sync

/-- state of `reconstructLastCommit` after the first `j` slots of the commit -/
structure RInv (vals : List Validator) (pre : List (Option Vote)) (j : Nat) (vs : VoteSet) : Prop where
  len : vs.votes.length = vals.length
  valsEq : vs.vals = vals
  entryLen : ∀ k bv, lookup vs.byBlock k = some bv → bv.votes.length = vals.length
  slotsFree : ∀ i, j ≤ i → i < vals.length → vs.votes[i]? = some none
  entriesFree : ∀ k bv, lookup vs.byBlock k = some bv → ∀ i, j ≤ i → i < vals.length → bv.votes[i]? = some none
  complete : ∀ i v, i < j → pre[i]? = some (some v) →
    ∃ bv, lookup vs.byBlock (v.bid.key VoteSet.repaired) = some bv ∧ bv.votes[i]? = some (some v)

theorem add_votes (bv : BlockVotes) (j : Nat) (v : Vote) (p : Int) (h : bv.votes[j]? = some none) :
    (bv.add j v p).votes = bv.votes.set j (some v) := by
  unfold BlockVotes.add; rw [h]

theorem RInv.weaken {vals : List Validator} {pre : List (Option Vote)} {j : Nat} {vs : VoteSet}
    (h : RInv vals pre j vs) (hj : pre[j]? = some none ∨ pre[j]? = none) : RInv vals pre (j + 1) vs := by
  refine ⟨h.len, h.valsEq, h.entryLen, fun i hi => h.slotsFree i (by omega),
    fun k bv hl i hi => h.entriesFree k bv hl i (by omega), ?_⟩
  intro i v hi hp
  by_cases e : i = j
  · subst e; rcases hj with hj | hj <;> rw [hj] at hp <;> simp at hp
  · exact h.complete i v (by omega) hp

/-- what the new state looks like after a slot's vote went through `addVerifiedVote` -/
theorem applied_inv {vals : List Validator} {pre : List (Option Vote)} {j : Nat} {vs : VoteSet}
    (h : RInv vals pre j vs) (hj : j < vals.length) (v : Vote) (hpre : pre[j]? = some (some v))
    (power : Int) (bv : BlockVotes)
    (hbv : lookup vs.byBlock (v.bid.key VoteSet.repaired) = some bv ∨
      (lookup vs.byBlock (v.bid.key VoteSet.repaired) = none ∧
        bv = { peerMaj23 := false, votes := List.replicate vs.vals.length none, sum := 0 })) :
    RInv vals pre (j + 1)
      (applyTally { vs with votes := vs.votes.set j (some v), sum := vs.sum + power }
        (v.bid.key VoteSet.repaired) bv j v power) := by
  -- facts about the tally entry the vote goes to
  have bvLen : bv.votes.length = vals.length := by
    rcases hbv with hl | ⟨_, rfl⟩
    · exact h.entryLen _ _ hl
    · simp [h.valsEq]
  have bvFree : ∀ i, j ≤ i → i < vals.length → bv.votes[i]? = some none := by
    intro i hi hn
    rcases hbv with hl | ⟨_, rfl⟩
    · exact h.entriesFree _ _ hl i hi hn
    · simp [h.valsEq, List.getElem?_replicate, hn]
  have hadd := add_votes bv j v power (bvFree j (Nat.le_refl _) hj)
  have newEntry : ∀ i, i ≠ j → (bv.add j v power).votes[i]? = bv.votes[i]? := by
    intro i hi; rw [hadd, List.getElem?_set_ne (Ne.symm hi)]
  have newAt : (bv.add j v power).votes[j]? = some (some v) := by
    rw [hadd, List.getElem?_set_self (by rw [bvLen]; exact hj)]
  have newLen : (bv.add j v power).votes.length = vals.length := by rw [hadd, List.length_set, bvLen]
  -- both branches of applyTally share the by-block map
  have common : ∀ (votes' : List (Option Vote)) (mj : Option BlockID),
      votes'.length = vals.length →
      (∀ i, j + 1 ≤ i → i < vals.length → votes'[i]? = some none) →
      RInv vals pre (j + 1)
        { vs with votes := votes', sum := vs.sum + power, maj23 := mj,
                  byBlock := insert vs.byBlock (v.bid.key VoteSet.repaired) (bv.add j v power) } := by
    intro votes' mj hlen hfree
    refine ⟨hlen, h.valsEq, ?_, hfree, ?_, ?_⟩
    · intro k bv' hl
      by_cases e : k = v.bid.key VoteSet.repaired
      · subst e; rw [lookup_insert_self] at hl; cases hl; exact newLen
      · rw [lookup_insert_ne _ _ _ _ e] at hl; exact h.entryLen k bv' hl
    · intro k bv' hl i hi hn
      by_cases e : k = v.bid.key VoteSet.repaired
      · subst e; rw [lookup_insert_self] at hl; cases hl
        rw [newEntry i (by omega)]; exact bvFree i (by omega) hn
      · rw [lookup_insert_ne _ _ _ _ e] at hl; exact h.entriesFree k bv' hl i (by omega) hn
    · intro i w hi hp
      by_cases e : i = j
      · subst e
        rw [hpre] at hp; simp at hp; subst hp
        exact ⟨_, lookup_insert_self _ _ _, newAt⟩
      · obtain ⟨bvo, hlo, hvo⟩ := h.complete i w (by omega) hp
        by_cases ek : w.bid.key VoteSet.repaired = v.bid.key VoteSet.repaired
        · rw [ek] at hlo ⊢
          refine ⟨_, lookup_insert_self _ _ _, ?_⟩
          rcases hbv with hl | ⟨hn, _⟩
          · rw [hl] at hlo; cases hlo
            rw [newEntry i e]; exact hvo
          · rw [hn] at hlo; cases hlo
        · exact ⟨bvo, by rw [lookup_insert_ne _ _ _ _ ek]; exact hlo, hvo⟩
  have setFree : ∀ i, j + 1 ≤ i → i < vals.length → (vs.votes.set j (some v))[i]? = some none := by
    intro i hi hn
    rw [List.getElem?_set_ne (by omega)]; exact h.slotsFree i (by omega) hn
  unfold applyTally
  split
  · -- quorum reached: the block's votes are copied over the primary slots
    apply common
    · rw [overlay_length, List.length_set, h.len]
    · intro i hi hn
      rw [overlay_get _ _ _ (by rw [newLen, List.length_set, h.len])]
      rw [newEntry i (by omega), bvFree i (by omega) hn]
      simpa using setFree i hi hn
  · apply common
    · rw [List.length_set, h.len]
    · exact setFree

theorem getVote_none_of_free (vs : VoteSet) (j : Nat) (key : Bytes) (hs : vs.votes[j]? = some none)
    (he : ∀ bv, lookup vs.byBlock key = some bv → bv.votes[j]? = some none) :
    getVote VoteSet.repaired vs j key = none := by
  unfold getVote
  rw [hs]
  simp only [Option.join]
  cases hl : lookup vs.byBlock key with
  | none => rfl
  | some bv => simp [he bv hl]

/-- one non-nil slot of a verified commit is added -/
theorem step_some {vals : List Validator} {pre : List (Option Vote)} {j : Nat} {vs : VoteSet}
    (h : RInv vals pre j vs) (hj : j < vals.length) (v : Vote) (hpre : pre[j]? = some (some v))
    (val : Validator) (hval : vals[j]? = some val) (hidx : v.idx = (j : Int)) (haddr : val.addr = v.addr)
    (hne : v.addr ≠ []) (hh : v.height = vs.height) (hr : v.round = vs.round) (ht : v.type = vs.type) :
    ∃ vs', addVote VoteSet.repaired vs v true = (vs', .added) ∧ RInv vals pre (j + 1) vs' := by
  have hfree := h.slotsFree j (Nat.le_refl _) hj
  have hnew := getVote_none_of_free vs j (v.bid.key VoteSet.repaired) hfree
    (fun bv hl => h.entriesFree _ bv hl j (Nat.le_refl _) hj)
  rw [addVote_eq_addVerified VoteSet.repaired vs v j val hidx (by rw [h.valsEq]; exact hval) haddr hne hh hr ht hnew]
  unfold addVerified
  rw [primary_first VoteSet.repaired vs v j _ _ hfree]
  simp only
  unfold selectEntry
  simp only
  cases hl : lookup vs.byBlock (v.bid.key VoteSet.repaired) with
  | some bv =>
    simp only [Bool.false_and, Bool.false_eq_true, if_false, Option.isSome_none]
    exact ⟨_, rfl, applied_inv h hj v hpre val.power bv (Or.inl hl)⟩
  | none =>
    simp only [Bool.false_eq_true, if_false, Option.isSome_none]
    exact ⟨_, rfl, applied_inv h hj v hpre val.power _ (Or.inr ⟨hl, rfl⟩)⟩

/-- what `VerifyCommit` (with the slot check) has established about every non-nil slot -/
def SlotsVerified (sigok : Nat → Vote → Bool) (vals : List Validator) (height R : Int)
    (pre : List (Option Vote)) : Prop :=
  ∀ (j : Nat) (v : Vote), pre[j]? = some (some v) →
    v.height = height ∧ v.round = R ∧ v.type = 2 ∧ sigok j v = true ∧ v.idx = (j : Int) ∧
    ∃ val, vals[j]? = some val ∧ val.addr = v.addr

theorem loop_ok (sigok : Nat → Vote → Bool) (vals : List Validator)
    (hpos : ∀ val ∈ vals, 0 ≤ val.power) (haddr : ∀ val ∈ vals, val.addr ≠ [])
    (height R : Int) (pre : List (Option Vote)) (hlen : pre.length = vals.length)
    (hs : SlotsVerified sigok vals height R pre) :
    ∀ (rest : List (Option Vote)) (j : Nat) (vs : VoteSet) (hist : Hist),
      rest = pre.drop j → RInv vals pre j vs → Inv VoteSet.repaired hist vs →
      SameParams (VoteSet.new height R 2 vals) vs →
      ∃ vs' hist', reconstructLoop VoteSet.repaired sigok rest vs = some vs' ∧
        RInv vals pre pre.length vs' ∧ Inv VoteSet.repaired hist' vs' ∧
        SameParams (VoteSet.new height R 2 vals) vs' := by
  intro rest
  induction rest with
  | nil =>
    intro j vs hist hrest hr hinv hsp
    have hj : pre.length ≤ j := by
      have := congrArg List.length hrest
      simp at this; omega
    refine ⟨vs, hist, rfl, ?_, hinv, hsp⟩
    refine ⟨hr.len, hr.valsEq, hr.entryLen, fun i hi hn => hr.slotsFree i (by omega) hn,
      fun k bv hl i hi hn => hr.entriesFree k bv hl i (by omega) hn, ?_⟩
    intro i v hi hp
    have : i < j := by omega
    exact hr.complete i v this hp
  | cons x t ih =>
    intro j vs hist hrest hr hinv hsp
    have hjlt : j < pre.length := by
      have := congrArg List.length hrest
      simp at this; omega
    have hx : pre[j]? = some x := by
      have : (pre.drop j)[0]? = some x := by rw [← hrest]; rfl
      simpa using this
    have ht : t = pre.drop (j + 1) := by
      have : (pre.drop j).tail = t := by rw [← hrest]; rfl
      rw [← this, List.tail_drop]
    cases x with
    | none =>
      simp only [reconstructLoop]
      exact ih (j + 1) vs hist ht (hr.weaken (Or.inl hx)) hinv hsp
    | some v =>
      obtain ⟨a1, a2, a3, a4, a5, val, hval, hva⟩ := hs j v hx
      have hne : v.addr ≠ [] := by
        rw [← hva]; exact haddr val (List.mem_of_getElem? hval)
      obtain ⟨p1, p2, p3, p4⟩ := hsp
      have hvh : v.height = vs.height := by rw [a1, ← p1]; rfl
      have hvr : v.round = vs.round := by rw [a2, ← p2]; rfl
      have hvt : v.type = vs.type := by rw [a3, ← p3]; rfl
      obtain ⟨vs', hadd, hr'⟩ := step_some hr (by omega) v hx val hval a5 hva hne hvh hvr hvt
      have hidx : v.idx.toNat = j := by omega
      simp only [reconstructLoop, hidx, a4, hadd]
      have hposvs : ∀ val ∈ vs.vals, 0 ≤ val.power := by rw [hr.valsEq]; exact hpos
      have hi := addVote_inv (cfg := VoteSet.repaired) (hist := hist) v true hposvs hinv
      rw [hadd] at hi
      exact ih (j + 1) vs' _ ht hr' hi.1 (SameParams.trans ⟨p1, p2, p3, p4⟩ hi.2)

/-- power of the slots voting for `b` is at most the tally of any vote list that has a vote wherever
    the commit has one for `b` -/
theorem tallyB_le_tally (b : BlockID) : ∀ (ps : List Int), (∀ p ∈ ps, 0 ≤ p) →
    ∀ (slots bvv : List (Option Vote)), slots.length = bvv.length →
    (∀ (j : Nat) (v : Vote), slots[j]? = some (some v) → v.bid = b → ∃ w, bvv[j]? = some (some w)) →
    tallyB b ps slots ≤ tally ps bvv := by
  intro ps
  induction ps with
  | nil => intro _ slots bvv _ _; cases slots <;> cases bvv <;> simp [tallyB, tally]
  | cons q qs ih =>
    intro hp slots bvv hl h
    have hq := hp q (by simp)
    have hqs : ∀ p ∈ qs, 0 ≤ p := fun p hp' => hp p (by simp [hp'])
    cases slots with
    | nil => simp [tallyB]; exact tally_nonneg _ _ hp
    | cons s ss =>
      cases bvv with
      | nil => simp at hl
      | cons y ys =>
        have ih' := ih hqs ss ys (by simpa using hl)
          (fun j v hv hb => by simpa using h (j + 1) v (by simpa using hv) hb)
        cases s with
        | none =>
          cases y with
          | none => simpa [tallyB, tally] using ih'
          | some w => simp only [tallyB, tally]; omega
        | some v =>
          by_cases hb : b = v.bid
          · obtain ⟨w, hw⟩ := h 0 v (by simp) hb.symm
            simp at hw; subst hw
            subst hb
            simp only [tallyB, tally, if_true]; omega
          · cases y with
            | none => simp only [tallyB, tally, hb, if_false]; omega
            | some w => simp only [tallyB, tally, hb, if_false]; omega

theorem tallyB_pos_exists (b : BlockID) : ∀ (ps : List Int) (slots : List (Option Vote)),
    0 < tallyB b ps slots → ∃ (j : Nat) (v : Vote), slots[j]? = some (some v) ∧ v.bid = b := by
  intro ps
  induction ps with
  | nil => intro slots h; cases slots <;> simp [tallyB] at h
  | cons q qs ih =>
    intro slots h
    cases slots with
    | nil => simp [tallyB] at h
    | cons s ss =>
      cases s with
      | none =>
        simp only [tallyB] at h
        obtain ⟨j, v, hj, hb⟩ := ih ss h
        exact ⟨j + 1, v, by simpa using hj, hb⟩
      | some v =>
        by_cases hb : b = v.bid
        · exact ⟨0, v, by simp, hb.symm⟩
        · simp only [tallyB, hb, if_false] at h
          obtain ⟨j, w, hj, hw⟩ := ih ss (by omega)
          exact ⟨j + 1, w, by simpa using hj, hw⟩

theorem firstPrecommit_none_tallyB (b : BlockID) (ps : List Int) (slots : List (Option Vote))
    (h : firstPrecommit slots = none) : tallyB b ps slots = 0 := by
  induction slots generalizing ps with
  | nil => cases ps <;> simp [tallyB]
  | cons s t ih =>
    cases s with
    | some v => simp [firstPrecommit] at h
    | none =>
      simp [firstPrecommit] at h
      cases ps <;> simp [tallyB, ih _ h]

/-- `seenCommit.Round()` -/
def commitRound (pre : List (Option Vote)) : Int :=
  match firstPrecommit pre with
  | some f => f.round
  | none => 0

theorem reconstruct_eq (cfg : VoteSet.Cfg) (sigok : Nat → Vote → Bool) (vals : List Validator) (height : Int)
    (c : Commit) :
    reconstruct cfg sigok vals height c =
      (match reconstructLoop cfg sigok c.precommits (VoteSet.new height (commitRound c.precommits) 2 vals) with
       | some vs => vs.maj23.isSome
       | none => false) := rfl


end AnnVerif.Sync
