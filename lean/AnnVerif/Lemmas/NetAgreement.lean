/-
  C01 layer 2: AGREEMENT FOR A NETWORK OF NODE MODELS.

  A system is a list of honest nodes (each a `Node`, the model of one ConsensusState) run by an
  adversarial scheduler: every global step hands one node one input - any message from any peer
  (proposals, parts, votes with any content and any signature bit), an own queued message, a
  timeout it has scheduled, a peer's majority claim. Byzantine validators are not modelled as
  processes: whatever they sign simply appears as input. The one constraint on inputs is
  UNFORGEABILITY: a vote that verifies under the key of an HONEST validator was signed by that
  validator's node earlier (`Auth`). Under it, and with less than a third of the power outside the
  honest nodes, no two nodes ever commit different blocks at one height (`agreement_net`).

  The proof discharges the hypotheses A1-A3 of the timed agreement theorem (AgreementT) from the run
  invariants of the node model (`Full`: L8, L10, L11 and their frozen forms for finished heights,
  plus C15's vote-set invariant for every vote set the node holds), with global step numbers as
  time: a polka in a node's vote set consists of votes delivered earlier, each signed earlier still.
-/
import AnnVerif.Lemmas.NodePast
import AnnVerif.Lemmas.AgreementT
import AnnVerif.Lemmas.VoteKey
namespace AnnVerif.Net
open AnnVerif.Node AnnVerif.Fairness AnnVerif.Agreement
open Classical

/-! ### the timed agreement theorem with integer rounds (the form the node model produces) -/

structure ZHistory (Block : Type) where
  prevote : Nat → Int → Option Block → Nat → Prop
  precommit : Nat → Int → Option Block → Nat → Prop

section
variable {Block : Type} (N : Nat) (w : Nat → Int) (F : Nat → Prop) (H : ZHistory Block)

def PolkaBefore (r : Int) (x : Option Block) (t : Nat) : Prop :=
  3 * pow N w (fun j => ∃ s, s < t ∧ H.prevote j r x s) > 2 * S N w

def CommitQuorum (r : Int) (b : Block) : Prop :=
  3 * pow N w (fun j => ∃ s, H.precommit j r (some b) s) > 2 * S N w

structure HonestRules : Prop where
  precommit_unique : ∀ j r x y s s', ¬ F j → H.precommit j r x s → H.precommit j r y s' → x = y
  precommit_polka : ∀ j r b t, ¬ F j → H.precommit j r (some b) t → ∃ t', PolkaBefore N w H r (some b) t'
  lock : ∀ j r b t r' x t', ¬ F j → H.precommit j r (some b) t → r < r' → H.prevote j r' x t' → x ≠ some b →
    ∃ r'' y, r < r'' ∧ r'' ≤ r' ∧ y ≠ some b ∧ PolkaBefore N w H r'' y t'

theorem no_later_polka (hw : ∀ j, j < N → 0 ≤ w j) (hF : 3 * pow N w F < S N w)
    (rules : HonestRules N w F H) (r : Int) (b : Block) (hq : CommitQuorum N w H r b) :
    ∀ t : Nat, ∀ r' : Int, r < r' → ∀ y, y ≠ some b → ¬ PolkaBefore N w H r' y t := by
  intro t
  induction t using Nat.strongRecOn with
  | _ t ih =>
    intro r' hlt y hy hpolka
    obtain ⟨j, _, ⟨s0, hpc⟩, ⟨s, hs, hpv⟩, hf⟩ := quorum_intersection N w hw F _ _ hF hq hpolka
    obtain ⟨r'', z, h1, _, hz, hp⟩ := rules.lock j r b s0 r' y s hf hpc hlt hpv hy
    exact ih s hs r'' h1 z hz hp

theorem agreementZ (hw : ∀ j, j < N → 0 ≤ w j) (hF : 3 * pow N w F < S N w)
    (rules : HonestRules N w F H) (r r' : Int) (b b' : Block)
    (hq : CommitQuorum N w H r b) (hq' : CommitQuorum N w H r' b') : b = b' := by
  rcases Int.lt_trichotomy r r' with hlt | heq | hgt
  · obtain ⟨j, _, ⟨s, hpc'⟩, _, hf⟩ := quorum_intersection N w hw F _ _ hF hq' hq'
    obtain ⟨t', hp⟩ := rules.precommit_polka j r' b' s hf hpc'
    by_cases hbb : (some b' : Option Block) = some b
    · injection hbb with h; exact h.symm
    · exact absurd hp (no_later_polka N w F H hw hF rules r b hq t' r' hlt (some b') hbb)
  · subst heq
    obtain ⟨j, _, ⟨s, hpc⟩, ⟨s', hpc'⟩, hf⟩ := quorum_intersection N w hw F _ _ hF hq hq'
    have := rules.precommit_unique j r _ _ s s' hf hpc hpc'
    injection this
  · obtain ⟨j, _, ⟨s, hpc⟩, _, hf⟩ := quorum_intersection N w hw F _ _ hF hq hq
    obtain ⟨t', hp⟩ := rules.precommit_polka j r b s hf hpc
    by_cases hbb : (some b : Option Block) = some b'
    · injection hbb
    · exact absurd hp (no_later_polka N w F H hw hF rules r' b' hq' t' r hgt (some b) hbb)
end

/-! ### from a vote set's tally to the voting power of a set of validators -/

def wOf (V : List VoteSet.Validator) (i : Nat) : Int := ((V[i]?).map (·.power)).getD 0

theorem S_shift (n : Nat) (f : Nat → Int) : S (n + 1) f = f 0 + S n (fun j => f (j + 1)) := by
  induction n with
  | zero => simp [S]
  | succ k ih =>
    have e : S (k + 1 + 1) f = S (k + 1) f + f (k + 1) := rfl
    have e' : S (k + 1) (fun j => f (j + 1)) = S k (fun j => f (j + 1)) + f (k + 1) := rfl
    rw [e, ih, e']; omega

theorem wOf_cons (a : VoteSet.Validator) (V : List VoteSet.Validator) (j : Nat) : wOf (a :: V) (j + 1) = wOf V j := by
  simp [wOf]

theorem total_eq_S (V : List VoteSet.Validator) : VoteSet.total V = S V.length (wOf V) := by
  induction V with
  | nil => simp [VoteSet.total, S]
  | cons a V ih =>
    rw [List.length_cons, S_shift]
    have : (fun j => wOf (a :: V) (j + 1)) = wOf V := funext (wOf_cons a V)
    rw [this, ← ih]
    simp [VoteSet.total, wOf]

theorem wOf_nonneg (V : List VoteSet.Validator) (pos : ∀ val ∈ V, 0 ≤ val.power) (j : Nat) : 0 ≤ wOf V j := by
  unfold wOf
  cases h : V[j]? with
  | none => simp
  | some v => simp; exact pos v (List.mem_of_getElem? h)

theorem tally_le_pow (V : List VoteSet.Validator) (pos : ∀ val ∈ V, 0 ≤ val.power) :
    ∀ (slots : List (Option VoteSet.Vote)) (P : Nat → Prop), (∀ i v, slots[i]? = some (some v) → P i) →
      VoteSet.tally (VoteSet.powers V) slots ≤ pow V.length (wOf V) P := by
  induction V with
  | nil => intro slots P _; simp [VoteSet.powers, VoteSet.tally, pow, S]
  | cons a V ih =>
    intro slots P hP
    have pos' : ∀ val ∈ V, 0 ≤ val.power := fun v hv => pos v (List.mem_cons_of_mem _ hv)
    have ha : 0 ≤ a.power := pos a (by simp)
    unfold pow
    rw [List.length_cons, S_shift]
    have e : (fun j => if P (j + 1) then wOf (a :: V) (j + 1) else 0) = (fun j => if P (j + 1) then wOf V j else 0) :=
      funext (fun j => by rw [wOf_cons])
    rw [e]
    have w0 : wOf (a :: V) 0 = a.power := by simp [wOf]
    cases slots with
    | nil =>
      have h1 := pow_nonneg V.length (wOf V) (fun j _ => wOf_nonneg V pos' j) (fun j => P (j + 1))
      unfold pow at h1
      simp only [] at h1
      simp only [VoteSet.powers, List.map_cons, VoteSet.tally]
      by_cases h0 : P 0 <;> simp [h0, w0] <;> omega
    | cons s ss =>
      have h1 := ih pos' ss (fun j => P (j + 1)) (fun i v hv => hP (i + 1) v (by simpa using hv))
      unfold pow at h1
      simp only [] at h1
      cases s with
      | none =>
        simp only [VoteSet.powers, List.map_cons, VoteSet.tally] at h1 ⊢
        by_cases h0 : P 0 <;> simp [h0, w0] <;> omega
      | some v =>
        have h0 : P 0 := hP 0 v (by simp)
        simp only [VoteSet.powers, List.map_cons, VoteSet.tally] at h1 ⊢
        simp [h0, w0]; omega

/-- validator `i` has, among the votes offered to the node with a verifying signature, a vote of
    (height, round, type) for `bid` -/
def Offered (hist : VoteSet.Hist) (h r : Int) (t : Nat) (bid : VoteSet.BlockID) (i : Nat) : Prop :=
  ∃ v, (v, true) ∈ hist ∧ v.idx = (i : Int) ∧ v.height = h ∧ v.round = r ∧ v.type = t ∧ v.bid = bid

/-- a majority reported by a vote set that satisfies the C15 invariant: more than two thirds of the
    power belongs to validators whose validly signed vote for exactly that block was offered -/
theorem maj_offered (V : List VoteSet.Validator) (pos : ∀ val ∈ V, 0 ≤ val.power) (hist : VoteSet.Hist)
    (hsmall : ∀ x ∈ hist, x.1.bid.Small) (vs : VoteSet.VoteSet) (h r : Int) (t : Nat)
    (inv : VoteSet.Inv VoteSet.repaired hist vs) (sp : VoteSet.SameParams (VoteSet.new h r t V) vs)
    (bid : VoteSet.BlockID) (hb : bid.Small) (hm : vs.maj23 = some bid) :
    3 * pow V.length (wOf V) (Offered hist h r t bid) > 2 * S V.length (wOf V) := by
  obtain ⟨bv, hl, hq, _⟩ := inv.majSound bid hm
  have hv : vs.vals = V := sp.2.2.2.symm
  have hsum := inv.entrySum _ _ hl
  rw [hv] at hsum hq
  have hle := tally_le_pow V pos bv.votes (Offered hist h r t bid) (by
    intro i v hiv
    obtain ⟨g, hk, _⟩ := inv.entrySlot _ _ hl i v hiv
    have e : v.bid = bid := VoteSet.key_injective _ _ (hsmall _ g.offered) hb hk
    exact ⟨v, g.offered, g.idx, by rw [g.h]; exact sp.1.symm, by rw [g.r]; exact sp.2.1.symm,
      by rw [g.t]; exact sp.2.2.1.symm, e⟩)
  have hg := VoteSet.quorum_gt (VoteSet.total V)
  rw [← total_eq_S]
  omega

end AnnVerif.Net
