/-
  C01 layer 2: AGREEMENT FOR A NETWORK OF NODE MODELS.

  A system is a list of honest nodes (each a `Node`, the model of one ConsensusState) run by an
  adversarial scheduler: every global step hands one node one input - any message from any peer
  (proposals, parts, votes with any content and any signature bit), an own queued message, a
  timeout it has scheduled, a peer's majority claim. Byzantine validators are not modelled as
  processes: whatever they sign simply appears as input. The one constraint on inputs is
  UNFORGEABILITY: a vote that verifies under the key of an HONEST validator was signed by that
  validator's node earlier (`Auth`). Under it, and with less than a third of the power outside the
  honest nodes, no two nodes ever commit different blocks at one height (`agreement_net`).

  The proof discharges the hypotheses A1-A3 of the timed agreement theorem (AgreementT) from the run
  invariants of the node model (`Full`: L8, L10, L11 and their frozen forms for finished heights,
  plus C15's vote-set invariant for every vote set the node holds), with global step numbers as
  time: a polka in a node's vote set consists of votes delivered earlier, each signed earlier still.
-/
import AnnVerif.Lemmas.NodePast
import AnnVerif.Lemmas.AgreementT
import AnnVerif.Lemmas.VoteKey
namespace AnnVerif.Net
open AnnVerif.Node AnnVerif.Fairness AnnVerif.Agreement
open Classical

/-! ### the timed agreement theorem with integer rounds (the form the node model produces) -/

structure ZHistory (Block : Type) where
  prevote : Nat → Int → Option Block → Nat → Prop
  precommit : Nat → Int → Option Block → Nat → Prop

section
variable {Block : Type} (N : Nat) (w : Nat → Int) (F : Nat → Prop) (H : ZHistory Block)

def PolkaBefore (r : Int) (x : Option Block) (t : Nat) : Prop :=
  3 * pow N w (fun j => ∃ s, s < t ∧ H.prevote j r x s) > 2 * S N w

def CommitQuorum (r : Int) (b : Block) : Prop :=
  3 * pow N w (fun j => ∃ s, H.precommit j r (some b) s) > 2 * S N w

structure HonestRules : Prop where
  precommit_unique : ∀ j r x y s s', ¬ F j → H.precommit j r x s → H.precommit j r y s' → x = y
  precommit_polka : ∀ j r b t, ¬ F j → H.precommit j r (some b) t → ∃ t', PolkaBefore N w H r (some b) t'
  lock : ∀ j r b t r' x t', ¬ F j → H.precommit j r (some b) t → r < r' → H.prevote j r' x t' → x ≠ some b →
    ∃ r'' y, r < r'' ∧ r'' ≤ r' ∧ y ≠ some b ∧ PolkaBefore N w H r'' y t'

theorem no_later_polka (hw : ∀ j, j < N → 0 ≤ w j) (hF : 3 * pow N w F < S N w)
    (rules : HonestRules N w F H) (r : Int) (b : Block) (hq : CommitQuorum N w H r b) :
    ∀ t : Nat, ∀ r' : Int, r < r' → ∀ y, y ≠ some b → ¬ PolkaBefore N w H r' y t := by
  intro t
  induction t using Nat.strongRecOn with
  | _ t ih =>
    intro r' hlt y hy hpolka
    obtain ⟨j, _, ⟨s0, hpc⟩, ⟨s, hs, hpv⟩, hf⟩ := quorum_intersection N w hw F _ _ hF hq hpolka
    obtain ⟨r'', z, h1, _, hz, hp⟩ := rules.lock j r b s0 r' y s hf hpc hlt hpv hy
    exact ih s hs r'' h1 z hz hp

theorem agreementZ (hw : ∀ j, j < N → 0 ≤ w j) (hF : 3 * pow N w F < S N w)
    (rules : HonestRules N w F H) (r r' : Int) (b b' : Block)
    (hq : CommitQuorum N w H r b) (hq' : CommitQuorum N w H r' b') : b = b' := by
  rcases Int.lt_trichotomy r r' with hlt | heq | hgt
  · obtain ⟨j, _, ⟨s, hpc'⟩, _, hf⟩ := quorum_intersection N w hw F _ _ hF hq' hq'
    obtain ⟨t', hp⟩ := rules.precommit_polka j r' b' s hf hpc'
    by_cases hbb : (some b' : Option Block) = some b
    · injection hbb with h; exact h.symm
    · exact absurd hp (no_later_polka N w F H hw hF rules r b hq t' r' hlt (some b') hbb)
  · subst heq
    obtain ⟨j, _, ⟨s, hpc⟩, ⟨s', hpc'⟩, hf⟩ := quorum_intersection N w hw F _ _ hF hq hq'
    have := rules.precommit_unique j r _ _ s s' hf hpc hpc'
    injection this
  · obtain ⟨j, _, ⟨s, hpc⟩, _, hf⟩ := quorum_intersection N w hw F _ _ hF hq hq
    obtain ⟨t', hp⟩ := rules.precommit_polka j r b s hf hpc
    by_cases hbb : (some b : Option Block) = some b'
    · injection hbb
    · exact absurd hp (no_later_polka N w F H hw hF rules r' b' hq' t' r hgt (some b) hbb)
end

/-! ### from a vote set's tally to the voting power of a set of validators -/

def wOf (V : List VoteSet.Validator) (i : Nat) : Int := ((V[i]?).map (·.power)).getD 0

theorem S_shift (n : Nat) (f : Nat → Int) : S (n + 1) f = f 0 + S n (fun j => f (j + 1)) := by
  induction n with
  | zero => simp [S]
  | succ k ih =>
    have e : S (k + 1 + 1) f = S (k + 1) f + f (k + 1) := rfl
    have e' : S (k + 1) (fun j => f (j + 1)) = S k (fun j => f (j + 1)) + f (k + 1) := rfl
    rw [e, ih, e']; omega

theorem wOf_cons (a : VoteSet.Validator) (V : List VoteSet.Validator) (j : Nat) : wOf (a :: V) (j + 1) = wOf V j := by
  simp [wOf]

theorem total_eq_S (V : List VoteSet.Validator) : VoteSet.total V = S V.length (wOf V) := by
  induction V with
  | nil => simp [VoteSet.total, S]
  | cons a V ih =>
    rw [List.length_cons, S_shift]
    have : (fun j => wOf (a :: V) (j + 1)) = wOf V := funext (wOf_cons a V)
    rw [this, ← ih]
    simp [VoteSet.total, wOf]

theorem wOf_nonneg (V : List VoteSet.Validator) (pos : ∀ val ∈ V, 0 ≤ val.power) (j : Nat) : 0 ≤ wOf V j := by
  unfold wOf
  cases h : V[j]? with
  | none => simp
  | some v => simp; exact pos v (List.mem_of_getElem? h)

theorem tally_le_pow (V : List VoteSet.Validator) (pos : ∀ val ∈ V, 0 ≤ val.power) :
    ∀ (slots : List (Option VoteSet.Vote)) (P : Nat → Prop), (∀ i v, slots[i]? = some (some v) → P i) →
      VoteSet.tally (VoteSet.powers V) slots ≤ pow V.length (wOf V) P := by
  induction V with
  | nil => intro slots P _; simp [VoteSet.powers, VoteSet.tally, pow, S]
  | cons a V ih =>
    intro slots P hP
    have pos' : ∀ val ∈ V, 0 ≤ val.power := fun v hv => pos v (List.mem_cons_of_mem _ hv)
    have ha : 0 ≤ a.power := pos a (by simp)
    unfold pow
    rw [List.length_cons, S_shift]
    have e : (fun j => if P (j + 1) then wOf (a :: V) (j + 1) else 0) = (fun j => if P (j + 1) then wOf V j else 0) :=
      funext (fun j => by rw [wOf_cons])
    rw [e]
    have w0 : wOf (a :: V) 0 = a.power := by simp [wOf]
    cases slots with
    | nil =>
      have h1 := pow_nonneg V.length (wOf V) (fun j _ => wOf_nonneg V pos' j) (fun j => P (j + 1))
      unfold pow at h1
      simp only [] at h1
      simp only [VoteSet.powers, List.map_cons, VoteSet.tally]
      by_cases h0 : P 0 <;> simp [h0, w0] <;> omega
    | cons s ss =>
      have h1 := ih pos' ss (fun j => P (j + 1)) (fun i v hv => hP (i + 1) v (by simpa using hv))
      unfold pow at h1
      simp only [] at h1
      cases s with
      | none =>
        simp only [VoteSet.powers, List.map_cons, VoteSet.tally] at h1 ⊢
        by_cases h0 : P 0 <;> simp [h0, w0] <;> omega
      | some v =>
        have h0 : P 0 := hP 0 v (by simp)
        simp only [VoteSet.powers, List.map_cons, VoteSet.tally] at h1 ⊢
        simp [h0, w0]; omega

/-- validator `i` has, among the votes offered to the node with a verifying signature, a vote of
    (height, round, type) for `bid` -/
def Offered (hist : VoteSet.Hist) (h r : Int) (t : Nat) (bid : VoteSet.BlockID) (i : Nat) : Prop :=
  ∃ v, (v, true) ∈ hist ∧ v.idx = (i : Int) ∧ v.height = h ∧ v.round = r ∧ v.type = t ∧ v.bid = bid

/-- a majority reported by a vote set that satisfies the C15 invariant: more than two thirds of the
    power belongs to validators whose validly signed vote for exactly that block was offered -/
theorem maj_offered (V : List VoteSet.Validator) (pos : ∀ val ∈ V, 0 ≤ val.power) (hist : VoteSet.Hist)
    (hsmall : ∀ x ∈ hist, x.1.bid.Small) (vs : VoteSet.VoteSet) (h r : Int) (t : Nat)
    (inv : VoteSet.Inv VoteSet.repaired hist vs) (sp : VoteSet.SameParams (VoteSet.new h r t V) vs)
    (bid : VoteSet.BlockID) (hb : bid.Small) (hm : vs.maj23 = some bid) :
    3 * pow V.length (wOf V) (Offered hist h r t bid) > 2 * S V.length (wOf V) := by
  obtain ⟨bv, hl, hq, _⟩ := inv.majSound bid hm
  have hv : vs.vals = V := sp.2.2.2.symm
  have hsum := inv.entrySum _ _ hl
  rw [hv] at hsum hq
  have hle := tally_le_pow V pos bv.votes (Offered hist h r t bid) (by
    intro i v hiv
    obtain ⟨g, hk, _⟩ := inv.entrySlot _ _ hl i v hiv
    have e : v.bid = bid := VoteSet.key_injective _ _ (hsmall _ g.offered) hb hk
    exact ⟨v, g.offered, g.idx, by rw [g.h]; exact sp.1.symm, by rw [g.r]; exact sp.2.1.symm,
      by rw [g.t]; exact sp.2.2.1.symm, e⟩)
  have hg := VoteSet.quorum_gt (VoteSet.total V)
  rw [← total_eq_S]
  omega


/-! ### the system: honest nodes `k < K` under an adversarial scheduler -/

structure Act where
  k : Nat
  i : In

/-- the nodes, and for each the (ghost) history of votes offered to it so far -/
structure G where
  node : Nat → Node
  hist : Nat → VoteSet.Hist

def step (g : G) (a : Act) : G :=
  { node := fun k => if k = a.k then stepIn (g.node k) a.i else g.node k,
    hist := fun k => if k = a.k then g.hist k ++ offered (g.node k) a.i else g.hist k }

/-- the state after the first `s` actions of the schedule -/
def stateAt (g0 : G) (as : List Act) (s : Nat) : G := (as.take s).foldl step g0

theorem stateAt_succ (g0 : G) (as : List Act) (s : Nat) (hs : s < as.length) :
    stateAt g0 as (s + 1) = step (stateAt g0 as s) as[s] := by
  unfold stateAt
  rw [List.take_succ, List.foldl_append]
  simp [List.getElem?_eq_getElem hs]

theorem stateAt_ge (g0 : G) (as : List Act) (s : Nat) (hs : as.length ≤ s) :
    stateAt g0 as (s + 1) = stateAt g0 as s := by
  unfold stateAt
  rw [List.take_of_length_le (by omega), List.take_of_length_le hs]

def SameContent (w v : VoteSet.Vote) : Prop :=
  w.height = v.height ∧ w.round = v.round ∧ w.type = v.type ∧ w.bid = v.bid

/-- UNFORGEABILITY: a vote that verifies under the key of the honest validator run by node `k'` has
    been signed by that node -/
def Auth (K : Nat) (g : G) (i : In) : Prop :=
  ∀ v peer, i = .msg (.vote v true) peer → ∀ k' (j : Nat), k' < K → (g.node k').me = some j → v.idx = (j : Int) →
    ∃ w ∈ (g.node k').signed, SameContent w v

structure Valid (K : Nat) (g : G) (a : Act) : Prop where
  k : a.k < K
  wt : WellTimed (g.node a.k) a.i
  auth : Auth K g a.i
  small : ∀ x ∈ offered (g.node a.k) a.i, x.1.bid.Small

def ValidRun (K : Nat) (g0 : G) (as : List Act) : Prop :=
  ∀ s (hs : s < as.length), Valid K (stateAt g0 as s) as[s]

theorem signed_prefix_stepIn (n : Node) (i : In) (hw : WellTimed n i) : n.signed <+: (stepIn n i).signed := by
  have key : ∀ m : Node, Ext n m → n.signed <+: m.signed := fun m e => by
    obtain ⟨ex, h, _⟩ := e.queue; exact ⟨ex, h.symm⟩
  cases i with
  | msg m peer => exact key _ (ext_handleMsg _ _ _)
  | own =>
    show n.signed <+: (match n.queue with | [] => n | m :: rest => handleMsg { n with queue := rest } m "").signed
    split
    · exact List.prefix_refl _
    · rename_i m rest _
      obtain ⟨ex, h, _⟩ := (ext_handleMsg { n with queue := rest } m "").queue
      exact ⟨ex, h.symm⟩
  | timeout h r s => exact key _ (ext_handleTimeout _ _ _ _ hw)
  | maj23 h r t peer bid => exact key _ (ext_setPeerMaj23 _ _ _ _ _ _)

section
variable (K : Nat) (V : List VoteSet.Validator) (me0 : Nat → Option Nat) (g0 : G) (as : List Act)

/-- what is assumed of the system: every node satisfies the run invariants at the start (a freshly
    started node does: `start_full`), no two nodes run the same validator, inputs are authentic -/
structure Setting : Prop where
  init : ∀ k, k < K → Full V (me0 k) (g0.node k) (g0.hist k) ∧ g0.hist k = []
  dist : ∀ k k' (j : Nat), k < K → k' < K → me0 k = some j → me0 k' = some j → k = k'
  run : ValidRun K g0 as

variable {K V me0 g0 as}

theorem gi (S : Setting K V me0 g0 as) : ∀ s k, k < K →
    Full V (me0 k) ((stateAt g0 as s).node k) ((stateAt g0 as s).hist k) ∧
    ∀ x ∈ (stateAt g0 as s).hist k, x.1.bid.Small := by
  intro s
  induction s with
  | zero =>
    intro k hk
    obtain ⟨f, he⟩ := S.init k hk
    refine ⟨f, ?_⟩
    show ∀ x ∈ g0.hist k, _
    rw [he]; simp
  | succ s ih =>
    intro k hk
    by_cases hs : s < as.length
    · rw [stateAt_succ g0 as s hs]
      have v := S.run s hs
      obtain ⟨f, sm⟩ := ih k hk
      unfold step
      dsimp only
      by_cases hka : k = as[s].k
      · rw [if_pos hka, if_pos hka]
        subst hka
        refine ⟨full_stepIn _ _ f v.wt, ?_⟩
        intro x hx
        rcases List.mem_append.mp hx with hx | hx
        · exact sm x hx
        · exact v.small x hx
      · rw [if_neg hka, if_neg hka]; exact ⟨f, sm⟩
    · rw [stateAt_ge g0 as s (by omega)]; exact ih k hk

theorem signed_prefix (S : Setting K V me0 g0 as) (k : Nat) (hk : k < K) : ∀ d s,
    ((stateAt g0 as s).node k).signed <+: ((stateAt g0 as (s + d)).node k).signed := by
  intro d
  induction d with
  | zero => intro s; exact List.prefix_refl _
  | succ d ih =>
    intro s
    refine (ih s).trans ?_
    show _ <+: ((stateAt g0 as (s + d + 1)).node k).signed
    by_cases hs : s + d < as.length
    · rw [stateAt_succ g0 as _ hs]
      unfold step
      dsimp only
      by_cases hka : k = as[s + d].k
      · rw [if_pos hka]
        have v := S.run _ hs
        subst hka
        exact signed_prefix_stepIn _ _ v.wt
      · rw [if_neg hka]; exact List.prefix_refl _
    · rw [stateAt_ge g0 as _ (by omega)]; exact List.prefix_refl _

theorem signed_mono (S : Setting K V me0 g0 as) (k : Nat) (hk : k < K) (s s' : Nat) (h : s ≤ s') (w : VoteSet.Vote)
    (hw : w ∈ ((stateAt g0 as s).node k).signed) : w ∈ ((stateAt g0 as s').node k).signed := by
  obtain ⟨d, rfl⟩ := Nat.exists_eq_add_of_le h
  exact (signed_prefix S k hk d s).subset hw

/-- TIMED AUTHENTICITY: a validly signed vote of an honest validator in any node's history of
    offered votes at time `s` was signed by that validator's node strictly before `s` -/
theorem offered_was_signed (S : Setting K V me0 g0 as) : ∀ s k, k < K → ∀ v, (v, true) ∈ (stateAt g0 as s).hist k →
    ∀ k' (j : Nat), k' < K → me0 k' = some j → v.idx = (j : Int) →
      ∃ s', s' < s ∧ ∃ w ∈ ((stateAt g0 as s').node k').signed, SameContent w v := by
  intro s
  induction s with
  | zero =>
    intro k hk v hv
    have : (stateAt g0 as 0).hist k = g0.hist k := rfl
    rw [this, (S.init k hk).2] at hv
    simp at hv
  | succ s ih =>
    intro k hk v hv k' j hk' hme hidx
    by_cases hs : s < as.length
    · rw [stateAt_succ g0 as s hs] at hv
      unfold step at hv
      dsimp only at hv
      by_cases hka : k = as[s].k
      · rw [if_pos hka] at hv
        rcases List.mem_append.mp hv with hv | hv
        · obtain ⟨s', h1, h2⟩ := ih k hk v hv k' j hk' hme hidx
          exact ⟨s', by omega, h2⟩
        · have vld := S.run s hs
          refine ⟨s, by omega, ?_⟩
          have fk' := (gi S s k' hk').1
          cases hi : as[s].i with
          | msg m peer =>
            rw [hi] at hv
            cases m with
            | vote v' ok =>
              simp only [offered, offeredMsg, List.mem_singleton, Prod.mk.injEq] at hv
              obtain ⟨rfl, rfl⟩ := hv
              exact vld.auth v peer hi k' j hk' (by rw [fk'.hme]; exact hme) hidx
            | proposal p sg bad => simp [offered, offeredMsg] at hv
            | parts h r b => simp [offered, offeredMsg] at hv
          | own =>
            rw [hi] at hv
            have fk := (gi S s k hk).1
            have hv' : (v, true) ∈ (match ((stateAt g0 as s).node k).queue with
                | m :: _ => offeredMsg m | [] => []) := hv
            cases hq : ((stateAt g0 as s).node k).queue with
            | nil => rw [hq] at hv'; simp at hv'
            | cons m rest =>
              rw [hq] at hv'
              cases m with
              | vote v' ok =>
                simp only [offeredMsg, List.mem_singleton, Prod.mk.injEq] at hv'
                obtain ⟨rfl, rfl⟩ := hv'
                have hmem : Msg.vote v true ∈ ((stateAt g0 as s).node k).queue := by rw [hq]; simp
                have hsig := (fk.qs v true hmem).1
                obtain ⟨i, hi1, hi2⟩ := fk.sm v hsig
                rw [fk.hme] at hi1
                have hij : i = j := by omega
                subst hij
                have hkk : k = k' := S.dist k k' i hk hk' hi1 hme
                subst hkk
                exact ⟨v, hsig, rfl, rfl, rfl, rfl⟩
              | proposal p sg bad => simp [offeredMsg] at hv'
              | parts h r b => simp [offeredMsg] at hv'
          | timeout h r st => rw [hi] at hv; simp [offered] at hv
          | maj23 h r t peer bid => rw [hi] at hv; simp [offered] at hv
      · rw [if_neg hka] at hv
        obtain ⟨s', h1, h2⟩ := ih k hk v hv k' j hk' hme hidx
        exact ⟨s', by omega, h2⟩
    · rw [stateAt_ge g0 as s (by omega)] at hv
      obtain ⟨s', h1, h2⟩ := ih k hk v hv k' j hk' hme hidx
      exact ⟨s', by omega, h2⟩

end

/-! ### the vote history of one height, with global step numbers as time -/

section
variable (K : Nat) (V : List VoteSet.Validator) (me0 : Nat → Option Nat) (g0 : G) (as : List Act) (h : Int)

/-- validator `j` is run by one of the nodes -/
def Honest (j : Nat) : Prop := ∃ k, k < K ∧ me0 k = some j

def optOf (bid : VoteSet.BlockID) : Option Bytes := if bid.hash.isEmpty then none else some bid.hash

/-- by time `s` validator `j` has signed a vote of type `t` for `x` in round `r` of height `h`
    (for a validator outside the honest nodes: anything, at any time) -/
def voteAt (t : Nat) (j : Nat) (r : Int) (x : Option Bytes) (s : Nat) : Prop :=
  ¬ Honest K me0 j ∨ ∃ k, k < K ∧ me0 k = some j ∧ ∃ w ∈ ((stateAt g0 as s).node k).signed,
    w.height = h ∧ w.round = r ∧ w.type = t ∧ optOf w.bid = x

def Hs : ZHistory Bytes := ⟨voteAt K me0 g0 as h 1, voteAt K me0 g0 as h 2⟩

variable {K V me0 g0 as h}

theorem optOf_some {bid : VoteSet.BlockID} {b : Bytes} (e : optOf bid = some b) : bid.hash = b ∧ bid.hash.isEmpty = false := by
  unfold optOf at e
  split at e
  · cases e
  · rename_i hne
    exact ⟨by injection e, by simpa using hne⟩

theorem optOf_eq_of_hash {a b : VoteSet.BlockID} (e : a.hash = b.hash) : optOf a = optOf b := by
  unfold optOf; rw [e]

/-- the core: a majority reported by a vote set of node `k` at time `s` consists, to more than two
    thirds of the power, of validators that had signed exactly that vote strictly before `s` -/
theorem maj_lift (st : Setting K V me0 g0 as) (s k : Nat) (hk : k < K) (t : Nat) (r : Int) (vs : VoteSet.VoteSet)
    (inv : VoteSet.Inv VoteSet.repaired ((stateAt g0 as s).hist k) vs)
    (sp : VoteSet.SameParams (VoteSet.new h r t V) vs)
    (moff : ∀ b, vs.maj23 = some b → ∃ v, (v, true) ∈ (stateAt g0 as s).hist k ∧ v.bid = b)
    (bid : VoteSet.BlockID) (hm : vs.maj23 = some bid) :
    3 * pow V.length (wOf V) (fun j => ∃ s', s' < s ∧ voteAt K me0 g0 as h t j r (optOf bid) s') > 2 * Fairness.S V.length (wOf V) := by
  obtain ⟨f, small⟩ := gi st s k hk
  have pos := f.vsi.pos
  obtain ⟨v0, hv0, e0⟩ := moff bid hm
  have hb : bid.Small := e0 ▸ small _ hv0
  have big := maj_offered V pos _ small vs h r t inv sp bid hb hm
  have mono := pow_mono V.length (wOf V) (fun j _ => wOf_nonneg V pos j)
    (Offered ((stateAt g0 as s).hist k) h r t bid)
    (fun j => ∃ s', s' < s ∧ voteAt K me0 g0 as h t j r (optOf bid) s') (by
      intro j ⟨v, hv, hidx, hh, hr, ht, hbb⟩
      by_cases hon : Honest K me0 j
      · obtain ⟨k', hk', hme⟩ := hon
        obtain ⟨s', hlt, w, hw, sc⟩ := offered_was_signed st s k hk v hv k' j hk' hme hidx
        exact ⟨s', hlt, Or.inr ⟨k', hk', hme, w, hw, sc.1.trans hh, sc.2.1.trans hr, sc.2.2.1.trans ht,
          by rw [sc.2.2.2, hbb]⟩⟩
      · have hs0 : s ≠ 0 := by
          intro e
          subst e
          have : (stateAt g0 as 0).hist k = g0.hist k := rfl
          rw [this, (st.init k hk).2] at hv
          simp at hv
        exact ⟨0, by omega, Or.inl hon⟩)
  omega

theorem find_prevotes {rs : List RoundVotes} {r : Int} {bid : VoteSet.BlockID}
    (hm : maj23 (prevotesOf rs r) = some bid) : ∃ rv ∈ rs, rv.round = r ∧ rv.prevotes.maj23 = some bid := by
  unfold maj23 prevotesOf at hm
  cases hf : rs.find? (·.round = r) with
  | none => rw [hf] at hm; simp at hm
  | some rv =>
    rw [hf] at hm
    have := List.find?_some hf
    exact ⟨rv, List.mem_of_find?_eq_some hf, by simpa using this, by simpa using hm⟩

theorem find_precommits {rs : List RoundVotes} {r : Int} {bid : VoteSet.BlockID}
    (hm : maj23 (precommitsOf rs r) = some bid) : ∃ rv ∈ rs, rv.round = r ∧ rv.precommits.maj23 = some bid := by
  unfold maj23 precommitsOf at hm
  cases hf : rs.find? (·.round = r) with
  | none => rw [hf] at hm; simp at hm
  | some rv =>
    rw [hf] at hm
    have := List.find?_some hf
    exact ⟨rv, List.mem_of_find?_eq_some hf, by simpa using this, by simpa using hm⟩

/-- a prevote majority in a set of vote sets of height `h` that satisfies `SetsOK` at time `s` -/
theorem polka_lift (st : Setting K V me0 g0 as) (s k : Nat) (hk : k < K) (rs : List RoundVotes)
    (ok : SetsOK V ((stateAt g0 as s).hist k) h rs) (r : Int) (bid : VoteSet.BlockID)
    (hm : maj23 (prevotesOf rs r) = some bid) :
    PolkaBefore V.length (wOf V) (Hs K me0 g0 as h) r (optOf bid) s := by
  obtain ⟨rv, hmem, hr, hmaj⟩ := find_prevotes hm
  obtain ⟨i1, _, p1, _, o1, _⟩ := ok rv hmem
  rw [hr] at p1
  exact maj_lift st s k hk 1 r rv.prevotes i1 p1 o1 bid hmaj

theorem eq_of_uniq (l : List VoteSet.Vote)
    (hu : ∀ (i j : Nat) (_ : i < j) (hj : j < l.length),
      ¬ ((l[i]'(by omega)).height = (l[j]).height ∧ (l[i]'(by omega)).round = (l[j]).round ∧ (l[i]'(by omega)).type = (l[j]).type))
    (a b : VoteSet.Vote) (ha : a ∈ l) (hb : b ∈ l)
    (e : a.height = b.height ∧ a.round = b.round ∧ a.type = b.type) : a = b := by
  obtain ⟨i, hi, rfl⟩ := List.getElem_of_mem ha
  obtain ⟨j, hj, rfl⟩ := List.getElem_of_mem hb
  rcases Nat.lt_trichotomy i j with h | h | h
  · exact absurd e (hu i j h hj)
  · subst h; rfl
  · exact absurd ⟨e.1.symm, e.2.1.symm, e.2.2.symm⟩ (hu j i h hi)

/-- A1-A3 for the history of height `h` of ANY valid run of the system -/
theorem honest_rules (st : Setting K V me0 g0 as) :
    HonestRules V.length (wOf V) (fun j => ¬ Honest K me0 j) (Hs K me0 g0 as h) := by
  refine ⟨?_, ?_, ?_⟩
  · -- A1: one precommit per round
    intro j r x y s s' hf h1 h2
    rcases h1 with h1 | ⟨k1, hk1, hm1, w1, hw1, a1, b1, c1, d1⟩
    · exact absurd h1 hf
    rcases h2 with h2 | ⟨k2, hk2, hm2, w2, hw2, a2, b2, c2, d2⟩
    · exact absurd h2 hf
    have hkk : k1 = k2 := st.dist k1 k2 j hk1 hk2 hm1 hm2
    subst hkk
    have m1 := signed_mono st k1 hk1 s (max s s') (Nat.le_max_left _ _) w1 hw1
    have m2 := signed_mono st k1 hk1 s' (max s s') (Nat.le_max_right _ _) w2 hw2
    have f := (gi st (max s s') k1 hk1).1
    have e := eq_of_uniq _ f.a3.uniq w1 w2 m1 m2 ⟨a1.trans a2.symm, b1.trans b2.symm, c1.trans c2.symm⟩
    rw [← d1, ← d2, e]
  · -- A2: a precommit for a block comes with a polka
    intro j r b t hf hp
    rcases hp with hp | ⟨k, hk, hm, w, hw, a, b1, c, d⟩
    · exact absurd hp hf
    obtain ⟨hhash, hne⟩ := optOf_some d
    have f := (gi st t k hk).1
    have hle := (f.a3.hr w hw).1
    refine ⟨t, ?_⟩
    rw [← d, ← b1]
    by_cases hcur : ((stateAt g0 as t).node k).height = h
    · have hmaj := (f.qj w hw).2 c (by rw [a, hcur]) hne
      have ok := f.vsi.cur
      rw [hcur] at ok
      exact polka_lift st t k hk _ ok w.round w.bid hmaj
    · obtain ⟨e, he, h1⟩ := f.past.cover w hw (by omega)
      have hmaj := (f.past.ok e he).2.just w hw h1.symm c hne
      have ok := f.vsi.old e he
      rw [h1, a] at ok
      exact polka_lift st t k hk _ ok w.round w.bid hmaj
  · -- A3: the lock rule
    intro j r b t r' x t' hf hpc hlt hpv hx
    rcases hpc with hpc | ⟨k1, hk1, hm1, w1, hw1, a1, b1, c1, d1⟩
    · exact absurd hpc hf
    rcases hpv with hpv | ⟨k2, hk2, hm2, w2, hw2, a2, b2, c2, d2⟩
    · exact absurd hpv hf
    have hkk : k1 = k2 := st.dist k1 k2 j hk1 hk2 hm1 hm2
    subst hkk
    obtain ⟨hhash, hne⟩ := optOf_some d1
    -- both votes in the signing history at the later of the two times
    have pre := signed_prefix st k1 hk1 (max t t' - t') t'
    have eT : t' + (max t t' - t') = max t t' := by have := Nat.le_max_right t t'; omega
    rw [eT] at pre
    have m1 := signed_mono st k1 hk1 t (max t t') (Nat.le_max_left _ _) w1 hw1
    have fT := (gi st (max t t') k1 hk1).1
    obtain ⟨i1, hi1, e1⟩ := List.getElem_of_mem m1
    obtain ⟨j2, hj2, e2⟩ := List.getElem_of_mem hw2
    have hj2T : j2 < ((stateAt g0 as (max t t')).node k1).signed.length := Nat.lt_of_lt_of_le hj2 pre.length_le
    have e2T : ((stateAt g0 as (max t t')).node k1).signed[j2] = w2 := by
      rw [← pre.getElem hj2]; exact e2
    -- the precommit comes first
    have hord : i1 < j2 := by
      rcases Nat.lt_trichotomy i1 j2 with hh | hh | hh
      · exact hh
      · exfalso
        subst hh
        rw [e1] at e2T
        rw [e2T] at c1
        omega
      · exfalso
        have := fT.a3.srt j2 i1 hh hi1
        rw [e2T, e1] at this
        have := this.2 (a2.trans a1.symm)
        omega
    have hi1' : i1 < ((stateAt g0 as t').node k1).signed.length := by omega
    have e1' : ((stateAt g0 as t').node k1).signed[i1] = w1 := by
      rw [pre.getElem hi1']; exact e1
    -- the lock rule at the time the prevote is known to be signed
    have f := (gi st t' k1 hk1).1
    have hle := (f.a3.hr w2 hw2).1
    have hhne : w2.bid.hash ≠ w1.bid.hash := by
      intro e
      apply hx
      rw [← d2, ← d1]
      exact optOf_eq_of_hash e
    have fin : ∀ (rs : List RoundVotes), SetsOK V ((stateAt g0 as t').hist k1) h rs →
        (∃ r'' bid'', w1.round < r'' ∧ r'' ≤ w2.round ∧ maj23 (prevotesOf rs r'') = some bid'' ∧ bid''.hash ≠ w1.bid.hash) →
        ∃ r'' y, r < r'' ∧ r'' ≤ r' ∧ y ≠ some b ∧ PolkaBefore V.length (wOf V) (Hs K me0 g0 as h) r'' y t' := by
      intro rs ok ⟨r'', bid'', h1, h2, h3, h4⟩
      refine ⟨r'', optOf bid'', by omega, by omega, ?_, polka_lift st t' k1 hk1 rs ok r'' bid'' h3⟩
      intro e
      have := (optOf_some e).1
      exact h4 (by rw [this, hhash])
    by_cases hcur : ((stateAt g0 as t').node k1).height = h
    · have ok := f.vsi.cur
      rw [hcur] at ok
      refine fin _ ok ?_
      have := f.a3.g3 i1 j2 hord hj2 (by rw [e1']; exact ⟨c1, hne, by rw [a1, hcur]⟩) (by rw [e2]; exact c2)
        (by rw [e2, a2, hcur]) (by rw [e1', e2]; omega) (by rw [e1', e2]; exact hhne)
      rw [e1', e2] at this
      exact this
    · obtain ⟨e, he, h1⟩ := f.past.cover w2 hw2 (by omega)
      have ok := f.vsi.old e he
      rw [h1, a2] at ok
      refine fin _ ok ?_
      have := (f.past.ok e he).2.lock i1 j2 hord hj2 (by rw [e1']; exact c1) (by rw [e1']; exact hne)
        (by rw [e1', a1, h1, a2]) (by rw [e2]; exact c2) (by rw [e2, h1]) (by rw [e1', e2]; omega)
        (by rw [e1', e2]; exact hhne)
      rw [e1', e2] at this
      exact this

/-- A1 for both vote types (the agreement proof needs it for precommits only): an honest validator
    signs at most one vote of a type per round of a height, over the whole run -/
theorem one_vote_per_round (st : Setting K V me0 g0 as) (t : Nat) (j : Nat) (r : Int) (x y : Option Bytes) (s s' : Nat)
    (hf : Honest K me0 j) (h1 : voteAt K me0 g0 as h t j r x s) (h2 : voteAt K me0 g0 as h t j r y s') : x = y := by
  rcases h1 with h1 | ⟨k1, hk1, hm1, w1, hw1, a1, b1, c1, d1⟩
  · exact absurd hf h1
  rcases h2 with h2 | ⟨k2, hk2, hm2, w2, hw2, a2, b2, c2, d2⟩
  · exact absurd hf h2
  have hkk : k1 = k2 := st.dist k1 k2 j hk1 hk2 hm1 hm2
  subst hkk
  have m1 := signed_mono st k1 hk1 s (max s s') (Nat.le_max_left _ _) w1 hw1
  have m2 := signed_mono st k1 hk1 s' (max s s') (Nat.le_max_right _ _) w2 hw2
  have f := (gi st (max s s') k1 hk1).1
  have e := eq_of_uniq _ f.a3.uniq w1 w2 m1 m2 ⟨a1.trans a2.symm, b1.trans b2.symm, c1.trans c2.symm⟩
  rw [← d1, ← d2, e]

/-- C01, LAYER 2: in every valid run of the system - any schedule, any messages, unforgeable
    signatures, less than one third of the power outside the honest nodes - two nodes never commit
    different blocks at one height -/
theorem agreement_net (st : Setting K V me0 g0 as)
    (hF : 3 * pow V.length (wOf V) (fun j => ¬ Honest K me0 j) < Fairness.S V.length (wOf V))
    (s s' k k' : Nat) (hk : k < K) (hk' : k' < K) (b b' : Bytes) (hb : b ≠ []) (hb' : b' ≠ [])
    (hc : Emit.commit h b ∈ ((stateAt g0 as s).node k).out)
    (hc' : Emit.commit h b' ∈ ((stateAt g0 as s').node k').out) : b = b' := by
  have quorum : ∀ (s k : Nat) (hk : k < K) (b : Bytes), b ≠ [] → Emit.commit h b ∈ ((stateAt g0 as s).node k).out →
      ∃ cr, CommitQuorum V.length (wOf V) (Hs K me0 g0 as h) cr b := by
    intro s k hk b hb hc
    obtain ⟨f, _⟩ := gi st s k hk
    obtain ⟨e, he, h1, cr, bid, hmaj, hbid⟩ := f.cm h b hc
    obtain ⟨rv, hmem, hr, hm⟩ := find_precommits hmaj
    have ok := f.vsi.old e he
    rw [h1] at ok
    obtain ⟨_, i2, _, p2, _, o2⟩ := ok rv hmem
    rw [hr] at p2
    have big := maj_lift st s k hk 2 cr rv.precommits i2 p2 o2 bid hm
    have eo : optOf bid = some b := by
      unfold optOf
      rw [hbid]
      have : b.isEmpty = false := by cases b <;> simp_all
      simp [this]
    rw [eo] at big
    refine ⟨cr, ?_⟩
    have mono := pow_mono V.length (wOf V) (fun j _ => wOf_nonneg V f.vsi.pos j)
      (fun j => ∃ s', s' < s ∧ voteAt K me0 g0 as h 2 j cr (some b) s')
      (fun j => ∃ s', (Hs K me0 g0 as h).precommit j cr (some b) s') (fun j ⟨s', _, hv⟩ => ⟨s', hv⟩)
    unfold CommitQuorum
    omega
  obtain ⟨cr, q⟩ := quorum s k hk b hb hc
  obtain ⟨cr', q'⟩ := quorum s' k' hk' b' hb' hc'
  have pos := (gi st 0 k hk).1.vsi.pos
  exact agreementZ V.length (wOf V) _ (Hs K me0 g0 as h) (fun j _ => wOf_nonneg V pos j) hF
    (honest_rules st) cr cr' b b' q q'

end
end AnnVerif.Net
