import AnnVerif.Model.Pool
namespace AnnVerif.Pool

abbrev Sorted (q : Queue) : Prop := q.Pairwise (fun a b => a.nonce < b.nonce)

/-! ### qInsert -/

theorem qInsert_length (q : Queue) (t : Tx) : (qInsert q t).length = q.length + 1 := by
  induction q with
  | nil => rfl
  | cons x r ih => unfold qInsert; split <;> simp [ih]

theorem mem_qInsert (q : Queue) (t x : Tx) : x ∈ qInsert q t ↔ x = t ∨ x ∈ q := by
  induction q with
  | nil => simp [qInsert]
  | cons y r ih =>
    unfold qInsert
    split
    · simp
    · simp [ih]; constructor
      · rintro (h | h | h) <;> simp [h]
      · rintro (h | h | h) <;> simp [h]

theorem qHas_iff (q : Queue) (n : Nat) : qHas q n = true ↔ ∃ x ∈ q, x.nonce = n := by
  unfold qHas
  simp [List.any_eq_true]

theorem qInsert_sorted (q : Queue) (t : Tx) (hs : Sorted q) (hn : qHas q t.nonce = false) :
    Sorted (qInsert q t) := by
  induction q with
  | nil => simp [qInsert, Sorted]
  | cons y r ih =>
    have hy : y.nonce ≠ t.nonce := by
      intro e
      have : qHas (y :: r) t.nonce = true := (qHas_iff _ _).mpr ⟨y, by simp, e⟩
      rw [hn] at this; cases this
    have hr : qHas r t.nonce = false := by
      cases h : qHas r t.nonce with
      | false => rfl
      | true =>
        obtain ⟨x, hx, e⟩ := (qHas_iff _ _).mp h
        have : qHas (y :: r) t.nonce = true := (qHas_iff _ _).mpr ⟨x, by simp [hx], e⟩
        rw [hn] at this; cases this
    rw [Sorted, List.pairwise_cons] at hs
    unfold qInsert
    split
    · rename_i hlt
      rw [Sorted, List.pairwise_cons]
      refine ⟨?_, by rw [List.pairwise_cons]; exact hs⟩
      intro b hb
      rcases List.mem_cons.mp hb with rfl | hb'
      · exact hlt
      · have := hs.1 b hb'; omega
    · rename_i hge
      rw [Sorted, List.pairwise_cons]
      refine ⟨?_, ih hs.2 hr⟩
      intro b hb
      rcases (mem_qInsert r t b).mp hb with rfl | hb'
      · omega
      · exact hs.1 b hb'

/-! ### readyRun / qReadyN / qForward -/

theorem readyRun_prefix : ∀ (q : Queue) (n c : Nat), ∃ r, q = readyRun q n c ++ r := by
  intro q
  induction q with
  | nil => intro n c; exact ⟨[], by simp [readyRun]⟩
  | cons x r ih =>
    intro n c
    cases c with
    | zero => exact ⟨x :: r, by simp [readyRun]⟩
    | succ c =>
      unfold readyRun
      split
      · obtain ⟨r', hr'⟩ := ih (n + 1) c
        exact ⟨r', by simp; exact hr'⟩
      · exact ⟨x :: r, by simp⟩

theorem readyRun_length_le : ∀ (q : Queue) (n c : Nat), (readyRun q n c).length ≤ c := by
  intro q
  induction q with
  | nil => intro n c; simp [readyRun]
  | cons x r ih =>
    intro n c
    cases c with
    | zero => simp [readyRun]
    | succ c =>
      unfold readyRun
      split
      · simp; exact ih (n + 1) c
      · simp

/-- `ReadyN` splits the queue: what it hands out followed by what stays -/
theorem qReadyN_split (q : Queue) (start count : Nat) :
    q = (qReadyN q start count).2 ++ (qReadyN q start count).1 ∧ (qReadyN q start count).2.length ≤ count := by
  unfold qReadyN
  cases q with
  | nil => simp
  | cons x r =>
    simp only
    split
    · simp
    · simp only
      obtain ⟨r', hr'⟩ := readyRun_prefix (x :: r) x.nonce count
      refine ⟨?_, readyRun_length_le _ _ _⟩
      have hd : (x :: r).drop (readyRun (x :: r) x.nonce count).length = r' := by
        conv => lhs; arg 2; rw [hr']
        simp
      rw [hd]
      exact hr'

theorem mem_qForward_keep (q : Queue) (th : Nat) (x : Tx) : x ∈ (qForward q th).1 ↔ x ∈ q ∧ th ≤ x.nonce := by
  simp [qForward]

theorem mem_qForward_old (q : Queue) (th : Nat) (x : Tx) : x ∈ (qForward q th).2 ↔ x ∈ q ∧ x.nonce < th := by
  simp [qForward]

theorem filter_sorted (q : Queue) (f : Tx → Bool) (hs : Sorted q) : Sorted (q.filter f) :=
  List.Pairwise.sublist List.filter_sublist hs

/-! ### account maps -/

theorem mSet_same (m : AccMap) (a : Nat) (q : Queue) : mSet m a q a = q := by simp [mSet]
theorem mSet_other (m : AccMap) (a b : Nat) (q : Queue) (h : b ≠ a) : mSet m a q b = m b := by simp [mSet, h]

theorem sum_update (l : List Nat) (hnd : l.Nodup) (f g : Nat → Nat) (a : Nat) (ha : a ∈ l)
    (hfg : ∀ b, b ≠ a → g b = f b) : (l.map g).sum + f a = (l.map f).sum + g a := by
  induction l with
  | nil => simp at ha
  | cons x r ih =>
    rw [List.nodup_cons] at hnd
    simp only [List.map_cons, List.sum_cons]
    rcases List.mem_cons.mp ha with rfl | ha'
    · have : (r.map g) = (r.map f) := by
        apply List.map_congr_left
        intro b hb
        exact hfg b (fun e => hnd.1 (e ▸ hb))
      rw [this]; omega
    · have hx : x ≠ a := fun e => hnd.1 (e ▸ ha')
      rw [hfg x hx]
      have := ih hnd.2 ha'
      omega

theorem accounts_nodup : accounts.Nodup := by decide

/-- counting after one account's queue was replaced -/
theorem mCount_mSet (m : AccMap) (a : Nat) (q : Queue) (ha : a ∈ accounts) :
    mCount (mSet m a q) + (m a).length = mCount m + q.length := by
  unfold mCount
  have := sum_update accounts accounts_nodup (fun b => (m b).length) (fun b => (mSet m a q b).length) a ha
    (fun b hb => by simp [mSet, hb])
  simpa [mSet] using this

end AnnVerif.Pool
