/-
  Non-vacuity of C01 layer 2: freshly started nodes satisfy what `Setting` asks of the initial
  state (`start_full`), a Boolean checker decides `ValidRun` for concrete schedules (`validRun_of_B`),
  and a concrete system - four equal validators, three of them honest nodes, the fourth Byzantine
  and silent - runs a schedule in which all three nodes commit block "b" at height 1.
-/
import AnnVerif.Lemmas.NetAgreement
import AnnVerif.Lemmas.NodeStart
namespace AnnVerif.Net
open AnnVerif.Node

theorem start_full (V : List VoteSet.Validator) (pos : ∀ val ∈ V, 0 ≤ val.power) (cfg : Cfg) (height : Int)
    (vals : ValSet.ValSet) (hV : vsVals vals = V) (i : Nat) (skip : Bool) (tab : List (Name × Int × Bool)) :
    Full V (some i) (Node.start cfg height vals (some i) skip tab) [] := by
  refine ⟨start_qj cfg height vals (some i) skip tab, start_a3 cfg height vals (some i) skip tab, ⟨?_, ?_⟩,
    ⟨pos, hV, hV, ?_, ?_⟩, ?_, ?_, rfl, ?_⟩
  · intro e he; simp [Node.start, Node.init] at he
  · intro w hw; simp [Node.start, Node.init] at hw
  · intro rv hm
    simp only [Node.start, Node.init, List.mem_singleton] at hm
    subst hm
    exact setsOK_fresh [] height _ pos ⟨0, by simp [newRoundVotes, hV]⟩
  · intro e he; simp [Node.start, Node.init] at he
  · intro v ok hm; simp [Node.start, Node.init] at hm
  · intro w hw; simp [Node.start, Node.init] at hw
  · intro h b hm; simp [Node.start, Node.init] at hm

/-! ### deciding `ValidRun` for a concrete schedule -/

def sameContentB (w v : VoteSet.Vote) : Bool :=
  w.height == v.height && w.round == v.round && w.type == v.type && decide (w.bid = v.bid)

def authB (K : Nat) (g : G) : In → Bool
  | .msg (.vote v true) _ =>
    (List.range K).all fun k' =>
      match (g.node k').me with
      | some j => if v.idx = (j : Int) then (g.node k').signed.any (fun w => sameContentB w v) else true
      | none => true
  | _ => true

def wellTimedB (n : Node) : In → Bool
  | .timeout h r _ => decide (h = n.height → r ≤ n.round)
  | _ => true

instance (b : VoteSet.BlockID) : Decidable b.Small := by unfold VoteSet.BlockID.Small; exact inferInstance

def validB (K : Nat) : G → List Act → Bool
  | _, [] => true
  | g, a :: rest =>
    decide (a.k < K) && wellTimedB (g.node a.k) a.i && authB K g a.i &&
      (offered (g.node a.k) a.i).all (fun x => decide x.1.bid.Small) && validB K (step g a) rest

theorem auth_of_B (K : Nat) (g : G) (i : In) (h : authB K g i = true) : Auth K g i := by
  intro v peer hi k' j hk' hme hidx
  subst hi
  simp only [authB, List.all_eq_true, List.mem_range] at h
  have := h k' hk'
  rw [hme] at this
  simp only [hidx, if_true, List.any_eq_true] at this
  obtain ⟨w, hw, hs⟩ := this
  simp only [sameContentB, Bool.and_eq_true, beq_iff_eq, decide_eq_true_eq] at hs
  exact ⟨w, hw, hs.1.1.1, hs.1.1.2, hs.1.2, hs.2⟩

theorem wellTimed_of_B (n : Node) (i : In) (h : wellTimedB n i = true) : WellTimed n i := by
  cases i with
  | timeout hh r s =>
    show hh = n.height → r ≤ n.round
    exact of_decide_eq_true h
  | msg m p => trivial
  | own => trivial
  | maj23 a b c d e => trivial

theorem stateAt_cons (g : G) (a : Act) (rest : List Act) (s : Nat) :
    stateAt g (a :: rest) (s + 1) = stateAt (step g a) rest s := by
  unfold stateAt; simp

theorem validRun_of_B (K : Nat) (as : List Act) : ∀ g : G, validB K g as = true → ValidRun K g as := by
  induction as with
  | nil => intro g _ s hs; simp at hs
  | cons a rest ih =>
    intro g h s hs
    simp only [validB, Bool.and_eq_true, decide_eq_true_eq, List.all_eq_true] at h
    obtain ⟨⟨⟨⟨h1, h2⟩, h3⟩, h4⟩, h5⟩ := h
    cases s with
    | zero =>
      exact ⟨h1, wellTimed_of_B _ _ h2, auth_of_B _ _ _ h3, fun x hx => by simpa using h4 x hx⟩
    | succ s =>
      rw [stateAt_cons]
      have := ih (step g a) h5 s (by simpa using hs)
      simpa using this

/-! ### a concrete system -/

def V4 : List VoteSet.Validator := [⟨[1], 1⟩, ⟨[2], 1⟩, ⟨[3], 1⟩, ⟨[4], 1⟩]
def vals4 : ValSet.ValSet := ValSet.newValSet ValSet.repaired [⟨[1], 1, 0⟩, ⟨[2], 1, 0⟩, ⟨[3], 1, 0⟩, ⟨[4], 1, 0⟩]

/-- nodes 0, 1, 2 run validators 0, 1, 2; validator 3 is Byzantine (and says nothing); block "b"
    is valid -/
def g4 : G where
  node k := Node.start repaired 1 vals4 (some k) false [([0x62], 1, true)]
  hist _ := []

def pv (i : Nat) : VoteSet.Vote := ⟨i, [UInt8.ofNat (i + 1)], 1, 0, 1, bidOf [0x62], 0⟩
def pc (i : Nat) : VoteSet.Vote := ⟨i, [UInt8.ofNat (i + 1)], 1, 0, 2, bidOf [0x62], 0⟩

/-- every node: start round 0, proposal and parts of "b" (from a peer; whoever the proposer is, the
    nodes only need to accept it - here it is sent with the signature of the round's proposer),
    own prevote, the two other prevotes, own precommit, the two other precommits -/
def sched4 : List Act :=
  let start (k : Nat) : List Act :=
    [⟨k, .timeout 1 0 .newHeight⟩, ⟨k, .msg (.proposal ⟨1, 0, [0x62], -1, []⟩ 0 false) "p"⟩, ⟨k, .msg (.parts 1 0 [0x62]) "p"⟩,
     ⟨k, .own⟩, ⟨k, .own⟩, ⟨k, .own⟩]
  start 0 ++ start 1 ++ start 2 ++
  [⟨0, .msg (.vote (pv 1) true) "n1"⟩, ⟨0, .msg (.vote (pv 2) true) "n2"⟩, ⟨0, .own⟩,
   ⟨1, .msg (.vote (pv 0) true) "n0"⟩, ⟨1, .msg (.vote (pv 2) true) "n2"⟩, ⟨1, .own⟩,
   ⟨2, .msg (.vote (pv 0) true) "n0"⟩, ⟨2, .msg (.vote (pv 1) true) "n1"⟩, ⟨2, .own⟩,
   ⟨0, .msg (.vote (pc 1) true) "n1"⟩, ⟨0, .msg (.vote (pc 2) true) "n2"⟩,
   ⟨1, .msg (.vote (pc 0) true) "n0"⟩, ⟨1, .msg (.vote (pc 2) true) "n2"⟩,
   ⟨2, .msg (.vote (pc 0) true) "n0"⟩, ⟨2, .msg (.vote (pc 1) true) "n1"⟩]

def final4 : G := stateAt g4 sched4 sched4.length

theorem setting4 : Setting 3 V4 (fun k => some k) g4 sched4 := by
  refine ⟨?_, ?_, validRun_of_B 3 sched4 g4 (by decide)⟩
  · intro k _
    exact ⟨start_full V4 (by decide) repaired 1 vals4 (by decide) k false _, rfl⟩
  · intro k k' j _ _ h1 h2
    injection h1 with h1; injection h2 with h2; omega

/-- the hypotheses of `agreement_net` are met by this system and the Byzantine validator holds less
    than a third: 3 * 1 < 4 -/
example : 3 * Agreement.pow V4.length (wOf V4) (fun j => ¬ Honest 3 (fun k => some k) j) < Fairness.S V4.length (wOf V4) := by
  have e : ∀ j, (¬ Honest 3 (fun k => some k) j) ↔ ¬ j < 3 := by
    intro j
    constructor
    · intro h hj; exact h ⟨j, hj, rfl⟩
    · intro h ⟨k, hk, hm⟩; injection hm with hm; omega
  unfold Agreement.pow
  simp only [e]
  simp [Fairness.S, V4, wOf]

/-- ... and in it all three honest nodes commit "b" at height 1 -/
example : ∀ k, k < 3 → Emit.commit 1 [0x62] ∈ ((stateAt g4 sched4 sched4.length).node k).out := by decide

end AnnVerif.Net
