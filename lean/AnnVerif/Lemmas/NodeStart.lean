/-
  The run invariants of the node model hold from a fresh node WHATEVER the validity oracle says:
  `validTab` (which blocks `ValidateBlock` accepts) is an input of the model, not something the
  node computes; `Node.init` starts with an empty table (only the node's own blocks become valid),
  `start` with any table.
-/
import AnnVerif.Lemmas.NodeA3

namespace AnnVerif.Node

/-- a fresh node with an arbitrary validity oracle, and the timeout every node schedules when it is
    started (`scheduleRound0`: NewHeight of round 0) -/
def start (cfg : Cfg) (height : Int) (vals : ValSet.ValSet) (me : Option Nat) (skip : Bool)
    (tab : List (Name × Int × Bool)) : Node :=
  { init cfg height vals me skip with validTab := tab, out := [.timeout height 0 .newHeight] }

theorem start_good (height : Int) (vals : ValSet.ValSet) (me : Option Nat) (skip : Bool)
    (tab : List (Name × Int × Bool)) : Good (start repaired height vals me skip tab) :=
  ⟨rfl, rfl, by intro b hb; simp [start, init] at hb, by simp [start, init, savePanic]⟩

theorem start_qj (cfg : Cfg) (height : Int) (vals : ValSet.ValSet) (me : Option Nat) (skip : Bool)
    (tab : List (Name × Int × Bool)) : QJ (start cfg height vals me skip tab) := by
  intro m hm; simp [start, init] at hm

theorem start_sched (cfg : Cfg) (height : Int) (vals : ValSet.ValSet) (me : Option Nat) (skip : Bool)
    (tab : List (Name × Int × Bool)) : Sched (start cfg height vals me skip tab) := by
  intro e he
  simp only [start, List.mem_singleton] at he
  subst he
  exact Or.inr ⟨rfl, Int.le_refl _⟩

theorem start_lj (cfg : Cfg) (height : Int) (vals : ValSet.ValSet) (me : Option Nat) (skip : Bool)
    (tab : List (Name × Int × Bool)) : LJ (start cfg height vals me skip tab) := LJ.of_none rfl

theorem start_a3 (cfg : Cfg) (height : Int) (vals : ValSet.ValSet) (me : Option Nat) (skip : Bool)
    (tab : List (Name × Int × Bool)) : A3Inv (start cfg height vals me skip tab) := by
  refine ⟨?_, ?_, ?_, ?_, ?_, ?_, ?_, ?_⟩
  · intro v hv; simp [start, init] at hv
  · intro p hp; simp [start, init] at hp
  · intro hl; simp [start, init] at hl
  · intro p hp; simp [start, init] at hp
  · intro a b _ hb; simp [start, init] at hb
  · intro p hp; simp [start, init] at hp
  · intro a b _ hb; simp [start, init] at hb
  · intro a b _ hb; simp [start, init] at hb

/-- everything at once, for every run from a fresh node with any validity oracle whose timeouts
    are scheduled ones -/
theorem run_invariants (height : Int) (vals : ValSet.ValSet) (me : Option Nat) (skip : Bool)
    (tab : List (Name × Int × Bool)) (ins : List In)
    (hs : Scheduled (start repaired height vals me skip tab) ins) :
    let n := ins.foldl stepIn (start repaired height vals me skip tab)
    Good n ∧ QJ n ∧ LJ n ∧ A3Inv n ∧ Sched n ∧ Le (start repaired height vals me skip tab) n := by
  have ok := runOK_of_scheduled ins _ (start_sched repaired height vals me skip tab) hs
  exact ⟨run_good ins _ (start_good height vals me skip tab),
         run_qj ins _ (start_qj repaired height vals me skip tab) ok,
         lj_run ins _ (start_lj repaired height vals me skip tab),
         a3_run ins _ (start_a3 repaired height vals me skip tab) ok,
         sched_run ins _ (start_sched repaired height vals me skip tab),
         le_run ins _⟩

/-! ### a run in which everything happens (non-vacuity): node 1 of 4 receives the proposal for "b"
    (valid by the oracle) and its parts, prevotes it, sees two more prevotes, precommits and locks;
    round 0 times out, round 1 starts and the node prevotes its lock again -/

def v4s : ValSet.ValSet := ValSet.newValSet ValSet.repaired
  [⟨[1], 1, 0⟩, ⟨[2], 1, 0⟩, ⟨[3], 1, 0⟩, ⟨[4], 1, 0⟩]

def happyIns : List In :=
  [ .timeout 1 0 .newHeight,
    .msg (.proposal ⟨1, 0, [0x62], -1, []⟩ 0 false) "p0",
    .msg (.parts 1 0 [0x62]) "p0",
    .own,
    .msg (.vote ⟨0, [1], 1, 0, 1, bidOf [0x62], 1⟩ true) "p0",
    .msg (.vote ⟨2, [3], 1, 0, 1, bidOf [0x62], 2⟩ true) "p2",
    .own,
    .msg (.vote ⟨0, [1], 1, 0, 2, bidOf [], 3⟩ true) "p0",
    .msg (.vote ⟨2, [3], 1, 0, 2, bidOf [], 4⟩ true) "p2",
    .timeout 1 0 .precommitWait,
    .timeout 1 1 .propose ]

def happy : Node := happyIns.foldl stepIn (start repaired 1 v4s (some 1) false [([0x62], 1, true)])

def scheduledB : Node → List In → Bool
  | _, [] => true
  | n, i :: rest =>
    (match i with | .timeout h r s => decide (Emit.timeout h r s ∈ n.out) | _ => true) && scheduledB (stepIn n i) rest

theorem scheduled_of_B (ins : List In) : ∀ n : Node, scheduledB n ins = true → Scheduled n ins := by
  induction ins with
  | nil => intro _ _; trivial
  | cons i rest ih =>
    intro n h
    simp only [scheduledB, Bool.and_eq_true] at h
    refine ⟨?_, ih _ h.2⟩
    cases i with
    | timeout hh r s => simpa using h.1
    | msg m peer => trivial
    | own => trivial
    | maj23 a b c d e => trivial

example : Scheduled (start repaired 1 v4s (some 1) false [([0x62], 1, true)]) happyIns :=
  scheduled_of_B _ _ (by decide)

example : happy.signed.map (fun v => (v.type, v.round, v.bid.hash)) =
    [(1, 0, [0x62]), (2, 0, [0x62]), (1, 1, [0x62])] ∧ happy.lockedBlock = some [0x62] ∧ happy.round = 1 := by
  decide

end AnnVerif.Node
