/-
  `delete` on the Merkle Patricia trie model: the deleted key is gone, every other terminated key
  reads as before, and the trie stays well formed - including the collapse of a branch node that is
  left with a single child and the merge of a short node with a short child.  This needs one more
  invariant than `insert` does: every branch node has at least two children (`Br`), which `insert`
  keeps as well.
-/
import AnnVerif.Lemmas.TrieMap
set_option linter.unusedSimpArgs false
namespace AnnVerif.Trie

/-! ### the non-empty children of a branch node -/

theorem isEmpty_eq {n : Node} (h : n.isEmpty = true) : n = .empty := by
  cases n <;> simp [Node.isEmpty] at h ⊢

theorem ne_mem : ∀ (cs : Children) (j i : Nat), i < cs.length → (cs.get i).isEmpty = false →
    (j + i) ∈ cs.nonEmpty j
  | .nil, _, _, h, _ => by simp [Children.length] at h
  | .cons n r, j, 0, _, h => by
    simp only [Children.get] at h
    simp [Children.nonEmpty, h]
  | .cons n r, j, i + 1, hl, h => by
    simp only [Children.get] at h
    simp only [Children.nonEmpty, List.mem_append]
    right
    have := ne_mem r (j + 1) i (by simp [Children.length] at hl; omega) h
    rwa [show j + 1 + i = j + (i + 1) by omega] at this

theorem ne_mem_inv : ∀ (cs : Children) (j x : Nat), x ∈ cs.nonEmpty j →
    ∃ i, x = j + i ∧ i < cs.length ∧ (cs.get i).isEmpty = false
  | .nil, _, _, h => by simp [Children.nonEmpty] at h
  | .cons n r, j, x, h => by
    simp only [Children.nonEmpty, List.mem_append] at h
    rcases h with h | h
    · by_cases hn : n.isEmpty
      · simp [hn] at h
      · simp [hn] at h
        exact ⟨0, by omega, by simp [Children.length], by simpa [Children.get] using hn⟩
    · obtain ⟨i, hx, hl, hg⟩ := ne_mem_inv r (j + 1) x h
      exact ⟨i + 1, by omega, by simp [Children.length]; omega, by simpa [Children.get] using hg⟩

theorem ne_pairwise : ∀ (cs : Children) (j : Nat), List.Pairwise (· < ·) (cs.nonEmpty j)
  | .nil, _ => by simp [Children.nonEmpty]
  | .cons n r, j => by
    simp only [Children.nonEmpty]
    by_cases hn : n.isEmpty
    · simp only [hn, if_true, List.nil_append]; exact ne_pairwise r (j + 1)
    · simp only [hn, Bool.false_eq_true, if_false, List.singleton_append, List.pairwise_cons]
      refine ⟨?_, ne_pairwise r (j + 1)⟩
      intro x hx
      obtain ⟨i, rfl, _, _⟩ := ne_mem_inv r (j + 1) x hx
      omega

theorem get_nonempty_lt {cs : Children} {i : Nat} (h : (cs.get i).isEmpty = false) : i < cs.length := by
  by_cases hl : i < cs.length
  · exact hl
  · rw [Children.get_of_ge cs i (by omega)] at h; simp [Node.isEmpty] at h

/-- a branch node left with exactly one child -/
theorem ne_singleton {cs : Children} {pos : Nat} (h : cs.nonEmpty 0 = [pos]) :
    pos < cs.length ∧ (cs.get pos).isEmpty = false ∧ ∀ i, i ≠ pos → cs.get i = .empty := by
  obtain ⟨i, hx, hl, hg⟩ := ne_mem_inv cs 0 pos (by rw [h]; simp)
  have : i = pos := by omega
  subst this
  refine ⟨hl, hg, ?_⟩
  intro j hj
  cases hje : (cs.get j).isEmpty with
  | true => exact isEmpty_eq hje
  | false =>
    have := ne_mem cs 0 j (get_nonempty_lt hje) hje
    rw [h] at this; simp at this; omega

/-- at least two children -/
def Two (cs : Children) : Prop :=
  ∃ i j, i ≠ j ∧ (cs.get i).isEmpty = false ∧ (cs.get j).isEmpty = false

theorem two_of_ne {cs : Children} (h0 : cs.nonEmpty 0 ≠ []) (h1 : ∀ pos, cs.nonEmpty 0 ≠ [pos]) : Two cs := by
  have hp := ne_pairwise cs 0
  match hl : cs.nonEmpty 0, h0, h1 with
  | [], h0, _ => exact absurd rfl h0
  | [x], _, h1 => exact absurd rfl (h1 x)
  | x :: y :: l, _, _ =>
    rw [hl] at hp
    have hxy : x < y := by
      have := (List.pairwise_cons.mp hp).1 y (by simp)
      exact this
    obtain ⟨i, hi, _, hgi⟩ := ne_mem_inv cs 0 x (by rw [hl]; simp)
    obtain ⟨j, hj, _, hgj⟩ := ne_mem_inv cs 0 y (by rw [hl]; simp)
    exact ⟨i, j, by omega, hgi, hgj⟩

theorem Children.get_set (cs : Children) (i j : Nat) (x : Node) :
    (cs.set i x).get j = if i = j ∧ i < cs.length then x else cs.get j := by
  by_cases hij : i = j
  · subst hij
    by_cases hl : i < cs.length
    · rw [Children.get_set_same cs i x hl, if_pos ⟨rfl, hl⟩]
    · rw [if_neg (fun h => hl h.2), Children.get_of_ge _ _ (by rw [Children.length_set]; omega),
        Children.get_of_ge _ _ (by omega)]
  · rw [Children.get_set_other cs i j x hij, if_neg (fun h => hij h.1)]

theorem two_set {cs : Children} {i : Nat} {x : Node} (h : Two cs) (hx : x.isEmpty = false) : Two (cs.set i x) := by
  obtain ⟨a, b, hab, ha, hb⟩ := h
  refine ⟨a, b, hab, ?_, ?_⟩
  · rw [Children.get_set]; split <;> assumption
  · rw [Children.get_set]; split <;> assumption

/-! ### every branch node has two children -/

mutual
  def Br : Node → Prop
    | .short _ c => Br c
    | .full cs => Two cs ∧ BrC cs
    | _ => True
  def BrC : Children → Prop
    | .nil => True
    | .cons n r => Br n ∧ BrC r
end

theorem brc_get : ∀ (cs : Children) (i : Nat), BrC cs → Br (cs.get i)
  | .nil, _, _ => by simp [Children.get, Br]
  | .cons _ _, 0, h => by simp only [BrC] at h; exact h.1
  | .cons _ r, i + 1, h => by simp only [BrC] at h; exact brc_get r i h.2

theorem brc_set : ∀ (cs : Children) (i : Nat) (x : Node), BrC cs → Br x → BrC (cs.set i x)
  | .nil, _, _, h, _ => h
  | .cons _ _, 0, x, h, hx => by simp only [BrC] at h; simp only [Children.set, BrC]; exact ⟨hx, h.2⟩
  | .cons _ r, i + 1, x, h, hx => by
    simp only [BrC] at h; simp only [Children.set, BrC]; exact ⟨h.1, brc_set r i x h.2 hx⟩

theorem brc_replicate : ∀ n, BrC (Children.replicate n)
  | 0 => by simp [Children.replicate, BrC]
  | n + 1 => by simp only [Children.replicate, BrC]; exact ⟨by simp [Br], brc_replicate n⟩

theorem insert_nonempty (t : Node) (k : Key) (v : Bytes) (f : Nat) : (insert t k v (f + 1)).isEmpty = false := by
  cases k with
  | nil => rw [insert_nil_key]; rfl
  | cons a r =>
    cases t with
    | empty => rfl
    | value w => rfl
    | full cs => rfl
    | short key c =>
      have : insert (.short key c) (a :: r) v (f + 1) =
        (let m := prefixLen (a :: r) key
         if m = key.length then Node.short key (insert c ((a :: r).drop m) v f)
         else
          let branch := (Children.replicate 17).set (key.getD m 0)
            (if (key.drop (m + 1)).isEmpty then c else .short (key.drop (m + 1)) c)
          let branch := branch.set ((a :: r).getD m 0) (insert .empty ((a :: r).drop (m + 1)) v f)
          if m = 0 then .full branch else .short ((a :: r).take m) (.full branch)) := rfl
      rw [this]
      simp only
      split
      · rfl
      · split <;> rfl

theorem insert_br : ∀ (f : Nat) (t : Node) (k : Key) (v : Bytes), WF t → Br t → TermKey k → k.length < f →
    Br (insert t k v f) := by
  intro f
  induction f with
  | zero => intro t k v _ _ _ h; omega
  | succ f ih =>
    intro t k v ht hb hk hf
    cases t with
    | empty =>
      cases k with
      | nil => exact absurd rfl (tk_ne_nil hk)
      | cons a r => rw [insert_empty]; simp [Br]
    | value w => simp [WF] at ht
    | full cs =>
      cases k with
      | nil => exact absurd rfl (tk_ne_nil hk)
      | cons i r =>
        rw [insert_full]
        simp only [WF] at ht
        simp only [Br] at hb ⊢
        have hlen := wfc_length cs 0 ht
        cases f with
        | zero => simp only [List.length_cons] at hf; omega
        | succ f =>
          refine ⟨two_set hb.1 (insert_nonempty _ _ _ _), brc_set _ _ _ hb.2 ?_⟩
          rcases tk_cons.mp hk with ⟨rfl, rfl⟩ | ⟨hi, hr⟩
          · rw [insert_nil_key]; simp [Br]
          · have hs := wfc_get cs 0 i ht (by omega)
            simp only [Nat.zero_add, slotOK, if_neg (show ¬ i = 16 by omega)] at hs
            exact ih _ r v hs (brc_get cs i hb.2) hr (by simp only [List.length_cons] at hf; omega)
    | short key c =>
      rcases key_split k key with ⟨rest, rfl⟩ | ⟨b, key1, rfl⟩ | ⟨p, a, k1, b, key1, hab, rfl, rfl⟩
      · rw [insert_short_prefix _ _ _ _ _ (tk_ne_nil hk)]
        have hkl : 0 < key.length := List.length_pos_iff.mpr (wf_short_key_ne ht)
        simp only [Br] at hb ⊢
        rcases wf_short ht with ⟨hkey, w, rfl⟩ | ⟨hkey, cs, rfl, hc⟩
        · have := tk_prefix_eq hkey hk (List.prefix_append _ _)
          have hr : rest = [] := by simpa using this.symm
          subst hr
          cases f with
          | zero => simp only [List.length_append, List.length_cons, List.length_nil] at hf; omega
          | succ f => rw [insert_nil_key]; simp [Br]
        · exact ih (.full cs) rest v (by simpa only [WF] using hc) hb (tk_rest hk hkey.2)
            (by simp only [List.length_append, List.length_cons, List.length_nil] at hf; omega)
      · exact (no_strict_prefix hk ht).elim
      · rw [insert_short_split _ _ _ _ _ _ _ _ hab]
        obtain ⟨_, hb17, _, _⟩ := split_old ht
        have hak := ((tk_append (by simp)).mp hk).2
        obtain ⟨_, ha17, hY⟩ := split_new v hak (f := f)
          (by simp only [List.length_append, List.length_cons, List.length_nil] at hf; omega)
        simp only [Br] at hb
        have hYb : Br (insert .empty k1 v f) ∧ (insert .empty k1 v f).isEmpty = false := by
          rcases hY with ⟨_, _, hY⟩ | ⟨_, _, hY⟩ <;> rw [hY] <;> simp [Br, Node.isEmpty]
        have hXb : Br (if key1.isEmpty then c else .short key1 c) ∧
            (if key1.isEmpty then c else Node.short key1 c).isEmpty = false := by
          split
          · refine ⟨hb, ?_⟩
            rcases wf_short ht with ⟨_, w, rfl⟩ | ⟨_, cs, rfl, _⟩ <;> rfl
          · exact ⟨by simpa only [Br] using hb, rfl⟩
        have hfull : Br (.full (((Children.replicate 17).set b (if key1.isEmpty then c else .short key1 c)).set a
            (insert .empty k1 v f))) := by
          simp only [Br]
          refine ⟨⟨a, b, hab, ?_, ?_⟩, brc_set _ _ _ (brc_set _ _ _ (brc_replicate 17) hXb.1) hYb.1⟩
          · rw [Children.get_set_same _ _ _ (by rw [Children.length_set, Children.length_replicate]; exact ha17)]
            exact hYb.2
          · rw [Children.get_set_other _ _ _ _ hab,
              Children.get_set_same _ _ _ (by rw [Children.length_replicate]; exact hb17)]
            exact hXb.2
        split
        · exact hfull
        · simpa only [Br] using hfull

/-! ### `delete`: unfolding -/

theorem delete_empty (k : Key) (f : Nat) : delete .empty k f = .empty := by
  cases f <;> rfl

theorem delete_value (v : Bytes) (k : Key) (f : Nat) : delete (.value v) k (f + 1) = .empty := rfl

/-- what a branch node with the single child `pos` turns into -/
def collapse (cs : Children) (pos : Nat) : Node :=
  if pos ≠ 16 then
    match cs.get pos with
    | .short ck cv => .short (pos :: ck) cv
    | c => .short [pos] c
  else .short [pos] (cs.get pos)

theorem delete_full_eq (cs : Children) (i : Nat) (r : Key) (f : Nat) :
    delete (.full cs) (i :: r) (f + 1) =
      match (cs.set i (delete (cs.get i) r f)).nonEmpty 0 with
      | [pos] => collapse (cs.set i (delete (cs.get i) r f)) pos
      | _ => .full (cs.set i (delete (cs.get i) r f)) := rfl

theorem delete_full_shape (cs : Children) (i : Nat) (r : Key) (f : Nat) :
    (∃ key c, delete (.full cs) (i :: r) (f + 1) = .short key c) ∨
    (∃ cs', delete (.full cs) (i :: r) (f + 1) = .full cs') := by
  rw [delete_full_eq]
  split
  · left
    unfold collapse
    split
    · split
      · exact ⟨_, _, rfl⟩
      · exact ⟨_, _, rfl⟩
    · exact ⟨_, _, rfl⟩
  · right; exact ⟨_, rfl⟩

theorem delete_short_eq (key : Key) (c : Node) (k : Key) (f : Nat) :
    delete (.short key c) k (f + 1) =
      (let m := prefixLen k key
       if m < key.length then .short key c
       else if m = k.length then .empty
       else
        match delete c (k.drop key.length) f with
        | .short ck cv => .short (key ++ ck) cv
        | c' => .short key c') := rfl

theorem delete_short_prefix (key : Key) (c : Node) (rest : Key) (f : Nat) :
    delete (.short key c) (key ++ rest) (f + 1) =
      if rest = [] then .empty
      else
        match delete c rest f with
        | .short ck cv => .short (key ++ ck) cv
        | c' => .short key c' := by
  rw [delete_short_eq]
  simp only [prefixLen_append_left, Nat.lt_irrefl, if_false, List.length_append, List.drop_left]
  by_cases hr : rest = []
  · subst hr; simp
  · have : ¬ key.length = key.length + rest.length := by
      have := List.length_pos_iff.mpr hr; omega
    rw [if_neg this, if_neg hr]

theorem delete_short_split (p : Key) (a b : Nat) (k1 key1 : Key) (c : Node) (f : Nat) (hab : a ≠ b) :
    delete (.short (p ++ b :: key1) c) (p ++ a :: k1) (f + 1) = .short (p ++ b :: key1) c := by
  rw [delete_short_eq]
  simp only [prefixLen_split p a b k1 key1 hab]
  rw [if_pos (by simp)]

/-! ### collapse and merge read like the nodes they replace -/

theorem collapse_ok {cs : Children} {pos : Nat} (hw : WFC cs 0) (hb : BrC cs) (h : cs.nonEmpty 0 = [pos]) :
    WF (collapse cs pos) ∧ Br (collapse cs pos) ∧ ∀ k, getN (collapse cs pos) k = getN (.full cs) k := by
  obtain ⟨hl, hg, hoth⟩ := ne_singleton h
  have hlen := wfc_length cs 0 hw
  have hs := wfc_get cs 0 pos hw hl
  simp only [Nat.zero_add] at hs
  by_cases h16 : pos = 16
  · subst h16
    simp only [slotOK, if_true] at hs
    have hc : collapse cs 16 = .short [16] (cs.get 16) := by unfold collapse; simp
    rw [hc]
    cases hn : cs.get 16 with
    | empty => rw [hn] at hg; simp [Node.isEmpty] at hg
    | short _ _ => rw [hn] at hs; simp [SlotVal] at hs
    | full _ => rw [hn] at hs; simp [SlotVal] at hs
    | value w =>
      have hwf : WF (.short [16] (.value w)) := by simp only [WF]; exact ⟨[], rfl, nk_nil⟩
      refine ⟨hwf, by simp [Br], ?_⟩
      intro k
      rw [getN_short hwf]
      cases k with
      | nil => simp [getN_full_nil]
      | cons j s =>
        rw [getN_full_cons]
        by_cases hj : j = 16
        · subst hj; rw [hn, if_pos (by simp)]; rfl
        · rw [hoth j hj, getN_empty, if_neg (by rw [List.cons_prefix_cons]; exact fun h => hj h.1.symm)]
  · simp only [slotOK, if_neg h16] at hs
    have hbn := brc_get cs pos hb
    cases hn : cs.get pos with
    | empty => rw [hn] at hg; simp [Node.isEmpty] at hg
    | value _ => rw [hn] at hs; simp [WF] at hs
    | short ck cv =>
      rw [hn] at hs hbn
      have hc : collapse cs pos = .short (pos :: ck) cv := by unfold collapse; rw [if_pos h16, hn]
      rw [hc]
      have hwf : WF (.short (pos :: ck) cv) := by
        rcases wf_short hs with ⟨hk, w, rfl⟩ | ⟨hk, cs2, rfl, hc2⟩
        · simp only [WF]; exact tk_cons.mpr (Or.inr ⟨by omega, hk⟩)
        · simp only [WF]; exact ⟨⟨by simp, nk_cons.mpr ⟨by omega, hk.2⟩⟩, hc2⟩
      refine ⟨hwf, by simpa only [Br] using hbn, ?_⟩
      intro k
      rw [getN_short hwf]
      cases k with
      | nil => simp [getN_full_nil]
      | cons j s =>
        rw [getN_full_cons]
        by_cases hj : j = pos
        · subst hj
          rw [hn, getN_short hs]
          simp only [List.cons_prefix_cons, true_and, List.length_cons, List.drop_succ_cons]
        · rw [hoth j hj, getN_empty, if_neg (by rw [List.cons_prefix_cons]; exact fun h => hj h.1.symm)]
    | full cs2 =>
      rw [hn] at hs hbn
      have hc : collapse cs pos = .short [pos] (.full cs2) := by unfold collapse; rw [if_pos h16, hn]
      rw [hc]
      have hwf : WF (.short [pos] (.full cs2)) := by
        simp only [WF] at hs ⊢
        exact ⟨⟨by simp, nk_cons.mpr ⟨by omega, nk_nil⟩⟩, hs⟩
      refine ⟨hwf, by simpa only [Br] using hbn, ?_⟩
      intro k
      rw [getN_short hwf]
      cases k with
      | nil => simp [getN_full_nil]
      | cons j s =>
        rw [getN_full_cons]
        by_cases hj : j = pos
        · subst hj; rw [hn, if_pos (by simp)]; simp
        · rw [hoth j hj, getN_empty, if_neg (by rw [List.cons_prefix_cons]; exact fun h => hj h.1.symm)]

theorem merge_ok {key ck : Key} {cv : Node} (hkey : ExtKey key) (hw : WF (.short ck cv)) :
    WF (.short (key ++ ck) cv) ∧
    ∀ k, getN (.short (key ++ ck) cv) k =
      if key <+: k then getN (.short ck cv) (k.drop key.length) else none := by
  have hwf : WF (.short (key ++ ck) cv) := by
    rcases wf_short hw with ⟨hk, w, rfl⟩ | ⟨hk, cs2, rfl, hc2⟩
    · simp only [WF]; exact (tk_append (tk_ne_nil hk)).mpr ⟨hkey.2, hk⟩
    · simp only [WF]; exact ⟨⟨by simp [hkey.1], nk_append.mpr ⟨hkey.2, hk.2⟩⟩, hc2⟩
  refine ⟨hwf, ?_⟩
  intro k
  rw [getN_short hwf]
  by_cases hp : key <+: k
  · obtain ⟨s, rfl⟩ := hp
    rw [if_pos (List.prefix_append _ _), List.drop_left, getN_short hw]
    have hd : (key ++ s).drop (key ++ ck).length = s.drop ck.length := by
      rw [List.length_append, ← List.drop_drop, List.drop_left]
    rw [hd]
    by_cases hq : ck <+: s
    · rw [if_pos hq, if_pos ((List.prefix_append_right_inj key).mpr hq)]
    · rw [if_neg hq, if_neg (fun h => hq ((List.prefix_append_right_inj key).mp h))]
  · rw [if_neg hp, if_neg (fun h => hp ((List.prefix_append key ck).trans h))]

/-! ### `delete` is correct -/

theorem delete_ok : ∀ (f : Nat) (t : Node) (k : Key), WF t → Br t → TermKey k → k.length < f →
    WF (delete t k f) ∧ Br (delete t k f) ∧ getN (delete t k f) k = none ∧
    ∀ k', TermKey k' → k' ≠ k → getN (delete t k f) k' = getN t k' := by
  intro f
  induction f with
  | zero => intro t k _ _ _ h; omega
  | succ f ih =>
    intro t k ht hb hk hf
    cases t with
    | empty =>
      rw [delete_empty]
      exact ⟨by simp [WF], by simp [Br], getN_empty _, fun _ _ _ => rfl⟩
    | value w => simp [WF] at ht
    | full cs =>
      cases k with
      | nil => exact absurd rfl (tk_ne_nil hk)
      | cons i r =>
        simp only [WF] at ht
        simp only [Br] at hb
        have hlen := wfc_length cs 0 ht
        -- the child after the deletion below it
        have hx : slotOK i (delete (cs.get i) r f) ∧ Br (delete (cs.get i) r f) ∧
            getN (delete (cs.get i) r f) r = none ∧
            ∀ r', TermKey (i :: r') → r' ≠ r → getN (delete (cs.get i) r f) r' = getN (cs.get i) r' := by
          rcases tk_cons.mp hk with ⟨rfl, rfl⟩ | ⟨hi, hr⟩
          · have hs := wfc_get cs 0 16 ht (by omega)
            simp only [Nat.zero_add, slotOK, if_true] at hs
            have he : delete (cs.get 16) [] f = .empty := by
              cases f with
              | zero => simp only [List.length_cons, List.length_nil] at hf; omega
              | succ f =>
                cases hn : cs.get 16 with
                | empty => rfl
                | value w => rfl
                | short _ _ => rw [hn] at hs; simp [SlotVal] at hs
                | full _ => rw [hn] at hs; simp [SlotVal] at hs
            rw [he]
            refine ⟨by simp [slotOK, SlotVal], by simp [Br], getN_empty _, ?_⟩
            intro r' hr' hne
            rcases tk_cons.mp hr' with ⟨_, rfl⟩ | ⟨h, _⟩
            · exact absurd rfl hne
            · omega
          · have hs := wfc_get cs 0 i ht (by omega)
            simp only [Nat.zero_add, slotOK, if_neg (show ¬ i = 16 by omega)] at hs
            obtain ⟨h1, h2, h3, h4⟩ := ih (cs.get i) r hs (brc_get cs i hb.2) hr
              (by simp only [List.length_cons] at hf; omega)
            refine ⟨by simpa only [slotOK, if_neg (show ¬ i = 16 by omega)] using h1, h2, h3, ?_⟩
            intro r' hr' hne
            rcases tk_cons.mp hr' with ⟨h, _⟩ | ⟨_, hr''⟩
            · omega
            · exact h4 r' hr'' hne
        obtain ⟨hx1, hx2, hx3, hx4⟩ := hx
        have hwc : WFC (cs.set i (delete (cs.get i) r f)) 0 := wfc_set cs 0 i _ ht (by simpa using hx1)
        have hbc : BrC (cs.set i (delete (cs.get i) r f)) := brc_set cs i _ hb.2 hx2
        have hi17 : i < cs.length := by
          rcases tk_cons.mp hk with ⟨rfl, _⟩ | ⟨hi, _⟩ <;> omega
        have hsame : getN (.full (cs.set i (delete (cs.get i) r f))) (i :: r) = none := by
          rw [getN_full_cons, Children.get_set_same _ _ _ hi17]; exact hx3
        have hother : ∀ k', TermKey k' → k' ≠ i :: r →
            getN (.full (cs.set i (delete (cs.get i) r f))) k' = getN (.full cs) k' := by
          intro k' hk' hne
          cases k' with
          | nil => rfl
          | cons i' r' =>
            rw [getN_full_cons, getN_full_cons]
            by_cases hii : i = i'
            · subst hii
              rw [Children.get_set_same _ _ _ hi17]
              exact hx4 r' hk' (by intro h; exact hne (by rw [h]))
            · rw [Children.get_set_other _ _ _ _ hii]
        rw [delete_full_eq]
        split
        · rename_i pos hpos
          obtain ⟨c1, c2, c3⟩ := collapse_ok hwc hbc hpos
          refine ⟨c1, c2, by rw [c3]; exact hsame, ?_⟩
          intro k' hk' hne; rw [c3]; exact hother k' hk' hne
        · rename_i hnot
          refine ⟨by simpa only [WF] using hwc, ?_, hsame, hother⟩
          simp only [Br]
          refine ⟨two_of_ne ?_ (fun pos h => hnot pos h), hbc⟩
          obtain ⟨a, b, hab, ha, hb'⟩ := hb.1
          by_cases hai : a = i
          · have hbi : i ≠ b := by omega
            have := ne_mem (cs.set i (delete (cs.get i) r f)) 0 b
              (by rw [Children.length_set]; exact get_nonempty_lt hb')
              (by rw [Children.get_set_other _ _ _ _ hbi]; exact hb')
            intro h; rw [h] at this; simp at this
          · have := ne_mem (cs.set i (delete (cs.get i) r f)) 0 a
              (by rw [Children.length_set]; exact get_nonempty_lt ha)
              (by rw [Children.get_set_other _ _ _ _ (fun h => hai h.symm)]; exact ha)
            intro h; rw [h] at this; simp at this
    | short key c =>
      rcases key_split k key with ⟨rest, rfl⟩ | ⟨b, key1, rfl⟩ | ⟨p, a, k1, b, key1, hab, rfl, rfl⟩
      · rw [delete_short_prefix]
        have hkl : 0 < key.length := List.length_pos_iff.mpr (wf_short_key_ne ht)
        rcases wf_short ht with ⟨hkey, w, rfl⟩ | ⟨hkey, cs, rfl, hc⟩
        · have := tk_prefix_eq hkey hk (List.prefix_append _ _)
          have hr : rest = [] := by simpa using this.symm
          subst hr
          rw [if_pos rfl]
          refine ⟨by simp [WF], by simp [Br], getN_empty _, ?_⟩
          intro k' hk' hne
          rw [getN_empty, List.append_nil] at *
          exact (getN_short_value_other hkey hk' hne w).symm
        · have hr := tk_rest hk hkey.2
          rw [if_neg (tk_ne_nil hr)]
          have hfl : rest.length < f := by
            simp only [List.length_append, List.length_cons, List.length_nil] at hf; omega
          simp only [Br] at hb
          obtain ⟨d1, d2, d3, d4⟩ := ih (.full cs) rest (by simpa only [WF] using hc) (by simpa only [Br] using hb) hr hfl
          -- the node that replaces the short node reads through `key` into the new child
          have hR : ∃ R, (match delete (.full cs) rest f with
                | .short ck cv => Node.short (key ++ ck) cv
                | c' => .short key c') = R ∧ WF R ∧ Br R ∧
              ∀ k, getN R k = if key <+: k then getN (delete (.full cs) rest f) (k.drop key.length) else none := by
            cases rest with
            | nil => exact absurd rfl (tk_ne_nil hr)
            | cons i r =>
              cases f with
              | zero => omega
              | succ f =>
                rcases delete_full_shape cs i r f with ⟨ck, cv, hd⟩ | ⟨cs2, hd⟩
                · rw [hd] at d1 d2 ⊢
                  obtain ⟨m1, m2⟩ := merge_ok hkey d1
                  exact ⟨_, rfl, m1, by simpa only [Br] using d2, m2⟩
                · rw [hd] at d1 d2 ⊢
                  have hwf : WF (.short key (.full cs2)) := by
                    simp only [WF] at d1 ⊢; exact ⟨hkey, d1⟩
                  exact ⟨_, rfl, hwf, by simpa only [Br] using d2, fun k => getN_short hwf k⟩
          obtain ⟨R, hRe, hRw, hRb, hRg⟩ := hR
          rw [hRe]
          refine ⟨hRw, hRb, ?_, ?_⟩
          · rw [hRg, if_pos (List.prefix_append _ _), List.drop_left]; exact d3
          · intro k' hk' hne
            rw [hRg, getN_short ht]
            by_cases hp : key <+: k'
            · obtain ⟨rest', rfl⟩ := hp
              rw [if_pos (List.prefix_append _ _), if_pos (List.prefix_append _ _), List.drop_left]
              exact d4 rest' (tk_rest hk' hkey.2) (by intro h; exact hne (by rw [h]))
            · rw [if_neg hp, if_neg hp]
      · exact (no_strict_prefix hk ht).elim
      · rw [delete_short_split _ _ _ _ _ _ _ hab]
        refine ⟨ht, hb, ?_, fun _ _ _ => rfl⟩
        rw [getN_short ht, if_neg]
        rw [List.prefix_append_right_inj, List.cons_prefix_cons]
        exact fun h => hab h.1.symm

end AnnVerif.Trie
