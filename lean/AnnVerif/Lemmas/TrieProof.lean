/-
  Merkle proofs: for every well-formed trie, every terminated key and every hash function with
  32-byte output, `verify` run on the proof `prove` builds returns exactly what `get` returns -
  the stored value or its absence - unless the hash function collides on two nodes of the proof.
-/
import AnnVerif.Model.TrieProof
import AnnVerif.Lemmas.TrieCompact
import AnnVerif.Lemmas.Rlp
set_option linter.unusedSimpArgs false
namespace AnnVerif.Trie

section
variable (H : Bytes → Bytes)

/-! ### encodings of nodes -/

theorem enc_short (key : Key) (c : Node) : enc H (.short key c) = .list [.str (hexToCompact key), ref H c] := by
  rw [enc]
theorem enc_full (cs : Children) : enc H (.full cs) = .list (encChildren H cs) := by
  rw [enc]
theorem ref_empty : ref H .empty = .str [] := by rw [ref]
theorem ref_value (v : Bytes) : ref H (.value v) = .str v := by rw [ref]

theorem ref_short (key : Key) (c : Node) : ref H (.short key c) =
    if (Rlp.encode (enc H (.short key c))).length < 32 then enc H (.short key c)
    else .str (H (Rlp.encode (enc H (.short key c)))) := by
  rw [ref, enc_short]
theorem ref_full (cs : Children) : ref H (.full cs) =
    if (Rlp.encode (enc H (.full cs))).length < 32 then enc H (.full cs)
    else .str (H (Rlp.encode (enc H (.full cs)))) := by
  rw [ref, enc_full]

theorem encChildren_length : ∀ cs : Children, (encChildren H cs).length = cs.length
  | .nil => by rw [encChildren]; rfl
  | .cons n r => by rw [encChildren]; simp [Children.length, encChildren_length r]

theorem encChildren_getD : ∀ (cs : Children) (i : Nat) (d : Rlp.Item), i < cs.length →
    (encChildren H cs).getD i d = ref H (cs.get i)
  | .nil, _, _, h => by simp [Children.length] at h
  | .cons n r, 0, d, _ => by rw [encChildren]; rfl
  | .cons n r, i + 1, d, h => by
    rw [encChildren]
    simp only [List.getD_cons_succ, Children.get]
    exact encChildren_getD r i d (by simp [Children.length] at h; omega)

theorem hasTerm_tk {k : Key} (h : TermKey k) : hasTerm k = true := by
  obtain ⟨pre, rfl, _⟩ := h
  simp [hasTerm]

theorem hasTerm_nk {k : Key} (h : NK k) : hasTerm k = false := by
  unfold hasTerm
  cases hg : k.getLast? with
  | none => rfl
  | some x =>
    have := h x (List.mem_of_getLast? hg)
    simp; omega

theorem mismatch_iff (key k : Key) : (k.length < key.length ∨ k.take key.length ≠ key) ↔ ¬ key <+: k := by
  constructor
  · intro h hp
    have hl := hp.length_le
    have ht := (List.prefix_iff_eq_take.mp hp).symm
    rcases h with h | h
    · omega
    · exact h ht
  · intro hp
    by_cases hl : k.length < key.length
    · exact Or.inl hl
    · right; intro ht; exact hp (List.prefix_iff_eq_take.mpr ht.symm)

theorem match_of_prefix {key k : Key} (hp : key <+: k) : ¬ (k.length < key.length ∨ k.take key.length ≠ key) :=
  fun h => (mismatch_iff key k).mp h hp

/-! ### the proof elements below a node: fuel independence and unfolding -/

theorem here_empty : here H .empty = [] := rfl
theorem here_value (v : Bytes) : here H (.value v) = [] := rfl

theorem proveBelow_zero (n : Node) (k : Key) : proveBelow H 0 n k = [] := by
  cases n <;> rfl
theorem proveBelow_empty (f : Nat) (k : Key) : proveBelow H f .empty k = [] := by
  cases f <;> rfl
theorem proveBelow_value (f : Nat) (v : Bytes) (k : Key) : proveBelow H f (.value v) k = [] := by
  cases f <;> rfl
theorem proveBelow_short (f : Nat) (key : Key) (c : Node) (k : Key) :
    proveBelow H (f + 1) (.short key c) k =
      if key <+: k then here H c ++ proveBelow H f c (k.drop key.length) else [] := by
  have : proveBelow H (f + 1) (.short key c) k =
      if k.length < key.length ∨ k.take key.length ≠ key then []
      else here H c ++ proveBelow H f c (k.drop key.length) := rfl
  rw [this]
  by_cases hp : key <+: k
  · rw [if_pos hp, if_neg (match_of_prefix hp)]
  · rw [if_neg hp, if_pos ((mismatch_iff key k).mpr hp)]
theorem proveBelow_full_nil (f : Nat) (cs : Children) : proveBelow H f (.full cs) [] = [] := by
  cases f <;> rfl
theorem proveBelow_full_cons (f : Nat) (cs : Children) (i : Nat) (r : Key) :
    proveBelow H (f + 1) (.full cs) (i :: r) = here H (cs.get i) ++ proveBelow H f (cs.get i) r := rfl

theorem proveBelow_fuel : ∀ (f g : Nat) (t : Node) (k : Key), WFv t → k.length < f → k.length < g →
    proveBelow H f t k = proveBelow H g t k := by
  intro f
  induction f with
  | zero => intro g t k _ h; omega
  | succ f ih =>
    intro g t k ht hf hg
    cases g with
    | zero => omega
    | succ g =>
      cases t with
      | empty => rw [proveBelow_empty, proveBelow_empty]
      | value v => rw [proveBelow_value, proveBelow_value]
      | short key c =>
        have hw : WF (.short key c) := by
          rcases ht with h | ⟨v, h⟩
          · exact h
          · cases h
        rw [proveBelow_short, proveBelow_short]
        split
        · rename_i hp
          have hl := hp.length_le
          have : 0 < key.length := List.length_pos_iff.mpr (wf_short_key_ne hw)
          rw [ih g c _ (wf_short_child hw) (by simp; omega) (by simp; omega)]
        · rfl
      | full cs =>
        have hw : WF (.full cs) := by
          rcases ht with h | ⟨v, h⟩
          · exact h
          · cases h
        cases k with
        | nil => rw [proveBelow_full_nil, proveBelow_full_nil]
        | cons i r =>
          rw [proveBelow_full_cons, proveBelow_full_cons,
            ih g _ r (wf_full_child hw i) (by simp at hf; omega) (by simp at hg; omega)]

/-- the proof elements below `n`, with as much fuel as any path can use -/
def pbN (n : Node) (k : Key) : List Bytes := proveBelow H (k.length + 1) n k

theorem pbN_empty (k : Key) : pbN H .empty k = [] := proveBelow_empty H _ _
theorem pbN_value (v : Bytes) (k : Key) : pbN H (.value v) k = [] := proveBelow_value H _ _ _

theorem pbN_short {key : Key} {c : Node} (hw : WF (.short key c)) (k : Key) :
    pbN H (.short key c) k = if key <+: k then here H c ++ pbN H c (k.drop key.length) else [] := by
  unfold pbN
  rw [proveBelow_short]
  split
  · rename_i hp
    have hl := hp.length_le
    have : 0 < key.length := List.length_pos_iff.mpr (wf_short_key_ne hw)
    rw [proveBelow_fuel H k.length ((k.drop key.length).length + 1) c _ (wf_short_child hw) (by simp; omega) (by simp)]
  · rfl

theorem pbN_full_cons (cs : Children) (i : Nat) (r : Key) :
    pbN H (.full cs) (i :: r) = here H (cs.get i) ++ pbN H (cs.get i) r := rfl

/-! ### every encoding in the trie decodes back (sizes fit 64 bits) -/

mutual
  def SmallT : Node → Prop
    | .short key c => Rlp.smallOne (enc H (.short key c)) ∧ SmallT c
    | .full cs => Rlp.smallOne (enc H (.full cs)) ∧ SmallC cs
    | _ => True
  def SmallC : Children → Prop
    | .nil => True
    | .cons n r => SmallT n ∧ SmallC r
end

theorem smallc_get : ∀ (cs : Children) (i : Nat), SmallC H cs → SmallT H (cs.get i)
  | .nil, _, _ => by simp [Children.get, SmallT]
  | .cons _ _, 0, h => by simp only [SmallC] at h; exact h.1
  | .cons _ r, i + 1, h => by simp only [SmallC] at h; exact smallc_get r i h.2

/-! ### the verifier's walk through one decoded node agrees with the prover's tree -/

/-- what the walk through the node stored at a reference must satisfy -/
def RefSpec (c : Node) (rest : Key) : Walk → Prop
  | .absent => getN c rest = none ∧ here H c ++ pbN H c rest = []
  | .found v => getN c rest = some v ∧ here H c ++ pbN H c rest = []
  | .next h r2 => ∃ c2, hashed H c2 = true ∧ h = H (Rlp.encode (enc H c2)) ∧ WF c2 ∧ TermKey r2 ∧
      r2.length ≤ rest.length ∧ getN c rest = getN c2 r2 ∧
      here H c ++ pbN H c rest = Rlp.encode (enc H c2) :: pbN H c2 r2 ∧ SmallT H c2
  | .bad => False

/-- what the walk through a node must satisfy -/
def NodeSpec (n : Node) (k : Key) : Walk → Prop
  | .absent => getN n k = none ∧ pbN H n k = []
  | .found v => getN n k = some v ∧ pbN H n k = []
  | .next h r2 => ∃ c2, hashed H c2 = true ∧ h = H (Rlp.encode (enc H c2)) ∧ WF c2 ∧ TermKey r2 ∧
      r2.length < k.length ∧ getN n k = getN c2 r2 ∧
      pbN H n k = Rlp.encode (enc H c2) :: pbN H c2 r2 ∧ SmallT H c2
  | .bad => False

theorem hashed_ne {c : Node} (h : hashed H c = true) : c.isEmpty = false := by
  cases c <;> simp [hashed, Node.isEmpty] at h ⊢

/-- a child reference: nothing, an embedded node (walk on), or a hash (the next proof element) -/
theorem walkRef_spec (Hlen : ∀ x, (H x).length = 32) (f : Nat)
    (ih : ∀ (n : Node) (k : Key), WF n → n.isEmpty = false → TermKey k → k.length < f → SmallT H n →
      getN n k ≠ some [] → NodeSpec H n k (walk f (enc H n) k))
    (c : Node) (rest : Key) (hw : WF c) (hk : TermKey rest) (hf : rest.length < f) (hs : SmallT H c)
    (hnv : getN c rest ≠ some []) :
    RefSpec H c rest (walkRef (fun it r => walk f it r) (ref H c) rest) := by
  cases c with
  | empty =>
    rw [ref_empty]
    simp only [walkRef, RefSpec]
    exact ⟨getN_empty _, by rw [here_empty, pbN_empty]; rfl⟩
  | value v => simp [WF] at hw
  | short key c' =>
    rw [ref_short]
    by_cases hemb : (Rlp.encode (enc H (.short key c'))).length < 32
    · rw [if_pos hemb]
      have hnh : here H (.short key c') = [] := by simp [here, hashed, hemb]
      have hwalk : walkRef (fun it r => walk f it r) (enc H (.short key c')) rest =
          walk f (enc H (.short key c')) rest := by rw [enc_short]; rfl
      rw [hwalk]
      have := ih (.short key c') rest hw rfl hk hf hs hnv
      cases hwk : walk f (enc H (.short key c')) rest with
      | absent =>
        rw [hwk] at this; simp only [RefSpec, NodeSpec] at this ⊢
        rw [hnh, List.nil_append]; exact this
      | found v =>
        rw [hwk] at this; simp only [RefSpec, NodeSpec] at this ⊢
        rw [hnh, List.nil_append]; exact this
      | bad => rw [hwk] at this; exact this
      | next h r2 =>
        rw [hwk] at this
        obtain ⟨c2, h1, h2, h3, h4, h5, h6, h7, h8⟩ := this
        exact ⟨c2, h1, h2, h3, h4, by omega, h6, by rw [hnh, List.nil_append]; exact h7, h8⟩
    · rw [if_neg hemb]
      have hh : hashed H (.short key c') = true := by simp [hashed, hemb]
      have hl := Hlen (Rlp.encode (enc H (.short key c')))
      cases hx : H (Rlp.encode (enc H (.short key c'))) with
      | nil => rw [hx] at hl; simp at hl
      | cons x xs =>
        have : walkRef (fun it r => walk f it r) (.str (x :: xs)) rest = .next (x :: xs) rest := by
          simp only [walkRef]; rw [← hx, hl]; simp
        rw [this]
        refine ⟨.short key c', hh, hx.symm, hw, hk, Nat.le_refl _, rfl, ?_, hs⟩
        simp [here, hh]
  | full cs =>
    rw [ref_full]
    by_cases hemb : (Rlp.encode (enc H (.full cs))).length < 32
    · rw [if_pos hemb]
      have hnh : here H (.full cs) = [] := by simp [here, hashed, hemb]
      have hwalk : walkRef (fun it r => walk f it r) (enc H (.full cs)) rest =
          walk f (enc H (.full cs)) rest := by rw [enc_full]; rfl
      rw [hwalk]
      have := ih (.full cs) rest hw rfl hk hf hs hnv
      cases hwk : walk f (enc H (.full cs)) rest with
      | absent =>
        rw [hwk] at this; simp only [RefSpec, NodeSpec] at this ⊢
        rw [hnh, List.nil_append]; exact this
      | found v =>
        rw [hwk] at this; simp only [RefSpec, NodeSpec] at this ⊢
        rw [hnh, List.nil_append]; exact this
      | bad => rw [hwk] at this; exact this
      | next h r2 =>
        rw [hwk] at this
        obtain ⟨c2, h1, h2, h3, h4, h5, h6, h7, h8⟩ := this
        exact ⟨c2, h1, h2, h3, h4, by omega, h6, by rw [hnh, List.nil_append]; exact h7, h8⟩
    · rw [if_neg hemb]
      have hh : hashed H (.full cs) = true := by simp [hashed, hemb]
      have hl := Hlen (Rlp.encode (enc H (.full cs)))
      cases hx : H (Rlp.encode (enc H (.full cs))) with
      | nil => rw [hx] at hl; simp at hl
      | cons x xs =>
        have : walkRef (fun it r => walk f it r) (.str (x :: xs)) rest = .next (x :: xs) rest := by
          simp only [walkRef]; rw [← hx, hl]; simp
        rw [this]
        refine ⟨.full cs, hh, hx.symm, hw, hk, Nat.le_refl _, rfl, ?_, hs⟩
        simp [here, hh]

theorem walk_spec (Hlen : ∀ x, (H x).length = 32) : ∀ (f : Nat) (n : Node) (k : Key), WF n →
    n.isEmpty = false → TermKey k → k.length < f → SmallT H n → getN n k ≠ some [] →
    NodeSpec H n k (walk f (enc H n) k) := by
  intro f
  induction f with
  | zero => intro n k _ _ _ h; omega
  | succ f ih =>
    intro n k hw hne hk hf hs hnv
    cases n with
    | empty => simp [Node.isEmpty] at hne
    | value v => simp [WF] at hw
    | short key c =>
      rw [enc_short]
      have hkey : TermKey key ∨ ExtKey key := by
        rcases wf_short hw with ⟨h, _⟩ | ⟨h, _⟩
        · exact Or.inl h
        · exact Or.inr h
      have hwalk : walk (f + 1) (.list [.str (hexToCompact key), ref H c]) k =
          (if k.length < key.length ∨ k.take key.length ≠ key then Walk.absent
           else if hasTerm key then
             match ref H c with
             | .str v => .found v
             | _ => .bad
           else walkRef (fun it r => walk f it r) (ref H c) (k.drop key.length)) := by
        simp only [walk, List.length_cons, List.length_nil]
        rw [if_neg (by omega)]
        simp only [compact_roundtrip key hkey]
        rfl
      rw [hwalk]
      by_cases hp : key <+: k
      · rw [if_neg (match_of_prefix hp)]
        obtain ⟨rest, rfl⟩ := hp
        have hkl : 0 < key.length := List.length_pos_iff.mpr (wf_short_key_ne hw)
        rw [List.drop_left]
        rcases wf_short hw with ⟨hkt, w, rfl⟩ | ⟨hke, cs, rfl, hc⟩
        · rw [if_pos (hasTerm_tk hkt), ref_value]
          simp only [NodeSpec]
          rw [getN_short_append hw, pbN_short H hw, if_pos (List.prefix_append _ _), List.drop_left, here_value,
            pbN_value]
          exact ⟨rfl, rfl⟩
        · rw [if_neg (by rw [hasTerm_nk hke.2]; simp)]
          have hrest := tk_rest hk hke.2
          simp only [SmallT] at hs
          have hnv' : getN (.full cs) rest ≠ some [] := by rwa [getN_short_append hw] at hnv
          have := walkRef_spec H Hlen f ih (.full cs) rest (by simpa only [WF] using hc) hrest
            (by simp only [List.length_append] at hf; omega) (by simpa only [SmallT] using hs.2) hnv'
          have hpb : pbN H (.short key (.full cs)) (key ++ rest) = here H (.full cs) ++ pbN H (.full cs) rest := by
            rw [pbN_short H hw, if_pos (List.prefix_append _ _), List.drop_left]
          cases hwk : walkRef (fun it r => walk f it r) (ref H (.full cs)) rest with
          | absent =>
            rw [hwk] at this; simp only [RefSpec, NodeSpec] at this ⊢
            rw [getN_short_append hw, hpb]; exact this
          | found v =>
            rw [hwk] at this; simp only [RefSpec, NodeSpec] at this ⊢
            rw [getN_short_append hw, hpb]; exact this
          | bad => rw [hwk] at this; exact this
          | next h r2 =>
            rw [hwk] at this
            obtain ⟨c2, h1, h2, h3, h4, h5, h6, h7, h8⟩ := this
            exact ⟨c2, h1, h2, h3, h4, by simp only [List.length_append]; omega,
              by rw [getN_short_append hw]; exact h6, by rw [hpb]; exact h7, h8⟩
      · rw [if_pos ((mismatch_iff key k).mpr hp)]
        simp only [NodeSpec]
        rw [getN_short hw, if_neg hp, pbN_short H hw, if_neg hp]
        exact ⟨rfl, rfl⟩
    | full cs =>
      rw [enc_full]
      have hwc : WFC cs 0 := by simpa only [WF] using hw
      have hlen := wfc_length cs 0 hwc
      cases k with
      | nil => exact absurd rfl (tk_ne_nil hk)
      | cons i r =>
        have hwalk : walk (f + 1) (.list (encChildren H cs)) (i :: r) =
            (if i = 16 then
              match (encChildren H cs).getD 16 (.str []) with
              | .str v => if v.isEmpty then Walk.absent else .found v
              | _ => .bad
             else walkRef (fun it r => walk f it r) ((encChildren H cs).getD i (.str [])) r) := by
          simp only [walk]
          rw [if_pos (by rw [encChildren_length]; omega)]
          rfl
        rw [hwalk]
        simp only [SmallT] at hs
        rcases tk_cons.mp hk with ⟨rfl, rfl⟩ | ⟨hi, hr⟩
        · rw [if_pos rfl, encChildren_getD H cs 16 _ (by omega)]
          have hsl := wfc_get cs 0 16 hwc (by omega)
          simp only [Nat.zero_add, slotOK, if_true] at hsl
          rw [getN_full_cons] at hnv
          cases hn : cs.get 16 with
          | short _ _ => rw [hn] at hsl; simp [SlotVal] at hsl
          | full _ => rw [hn] at hsl; simp [SlotVal] at hsl
          | empty =>
            rw [ref_empty]
            simp only [List.isEmpty_nil, if_true, NodeSpec]
            rw [getN_full_cons, pbN_full_cons, hn, here_empty, pbN_empty, getN_empty]
            exact ⟨rfl, rfl⟩
          | value w =>
            rw [ref_value]
            rw [hn] at hnv
            have hwne : w.isEmpty = false := by
              cases w with
              | nil => exact absurd rfl hnv
              | cons _ _ => rfl
            simp only [hwne, Bool.false_eq_true, if_false, NodeSpec]
            rw [getN_full_cons, pbN_full_cons, hn, here_value, pbN_value]
            exact ⟨rfl, rfl⟩
        · rw [if_neg (by omega), encChildren_getD H cs i _ (by omega)]
          have hsl := wfc_get cs 0 i hwc (by omega)
          simp only [Nat.zero_add, slotOK, if_neg (show ¬ i = 16 by omega)] at hsl
          have hnv' : getN (cs.get i) r ≠ some [] := by rwa [getN_full_cons] at hnv
          have := walkRef_spec H Hlen f ih (cs.get i) r hsl hr
            (by simp only [List.length_cons] at hf; omega) (smallc_get H cs i hs.2) hnv'
          cases hwk : walkRef (fun it r => walk f it r) (ref H (cs.get i)) r with
          | absent =>
            rw [hwk] at this; simp only [RefSpec, NodeSpec] at this ⊢
            rw [getN_full_cons, pbN_full_cons]; exact this
          | found v =>
            rw [hwk] at this; simp only [RefSpec, NodeSpec] at this ⊢
            rw [getN_full_cons, pbN_full_cons]; exact this
          | bad => rw [hwk] at this; exact this
          | next h r2 =>
            rw [hwk] at this
            obtain ⟨c2, h1, h2, h3, h4, h5, h6, h7, h8⟩ := this
            exact ⟨c2, h1, h2, h3, h4, by simp only [List.length_cons]; omega,
              by rw [getN_full_cons]; exact h6, by rw [pbN_full_cons]; exact h7, h8⟩

/-! ### the verifier on the prover's output -/

/-- two different inputs with the same hash -/
def Coll : Prop := ∃ a b : Bytes, a ≠ b ∧ H a = H b

theorem find_hash : ∀ {L : List Bytes} {e : Bytes}, e ∈ L →
    L.find? (fun x => H x == H e) = some e ∨ Coll H
  | [], _, h => by simp at h
  | x :: L, e, h => by
    by_cases hx : H x = H e
    · by_cases hxe : x = e
      · subst hxe; left; simp
      · right; exact ⟨x, e, hxe, hx⟩
    · have hne : x ≠ e := fun h' => hx (by rw [h'])
      have hmem : e ∈ L := by
        rcases List.mem_cons.mp h with h | h
        · exact absurd h.symm hne
        · exact h
      rcases find_hash hmem with h' | h'
      · left; rw [List.find?_cons_of_neg (by simpa using hx)]; exact h'
      · right; exact h'

theorem verify_succ (L : List Bytes) (g : Nat) (want : Bytes) (k : Key) :
    verify H L (g + 1) want k =
      match L.find? (fun e => H e == want) with
      | none => none
      | some buf =>
        match Rlp.decode buf with
        | .error _ => none
        | .ok it =>
          match walk (k.length + 1) it k with
          | .absent => some none
          | .found v => some (some v)
          | .next h rest => verify H L g h rest
          | .bad => none := rfl

theorem small_enc {n : Node} (hw : WF n) (hne : n.isEmpty = false) (hs : SmallT H n) : Rlp.smallOne (enc H n) := by
  cases n with
  | empty => simp [Node.isEmpty] at hne
  | value _ => simp [WF] at hw
  | short _ _ => simp only [SmallT] at hs; exact hs.1
  | full _ => simp only [SmallT] at hs; exact hs.1

theorem verify_node (Hlen : ∀ x, (H x).length = 32) : ∀ (m : Nat) (n : Node) (k : Key) (L : List Bytes) (g : Nat),
    k.length ≤ m → WF n → n.isEmpty = false → TermKey k → SmallT H n → getN n k ≠ some [] →
    Rlp.encode (enc H n) ∈ L → (∀ e ∈ pbN H n k, e ∈ L) → k.length < g →
    verify H L g (H (Rlp.encode (enc H n))) k = some (getN n k) ∨ Coll H := by
  intro m
  induction m with
  | zero =>
    intro n k L g hm _ _ hk
    have := List.length_pos_iff.mpr (tk_ne_nil hk)
    omega
  | succ m ih =>
    intro n k L g hm hw hne hk hs hnv hmem hsub hg
    cases g with
    | zero => omega
    | succ g =>
      rw [verify_succ]
      rcases find_hash H hmem with hf | hc
      · rw [hf]
        simp only
        rw [Rlp.decode_encode _ (small_enc H hw hne hs)]
        simp only
        have hspec := walk_spec H Hlen (k.length + 1) n k hw hne hk (by omega) hs hnv
        cases hwk : walk (k.length + 1) (enc H n) k with
        | absent => rw [hwk] at hspec; simp only [NodeSpec] at hspec; left; rw [hspec.1]
        | found v => rw [hwk] at hspec; simp only [NodeSpec] at hspec; left; rw [hspec.1]
        | bad => rw [hwk] at hspec; exact hspec.elim
        | next h r2 =>
          rw [hwk] at hspec
          obtain ⟨c2, h1, h2, h3, h4, h5, h6, h7, h8⟩ := hspec
          simp only
          rw [h2, h6]
          have hin : ∀ e ∈ Rlp.encode (enc H c2) :: pbN H c2 r2, e ∈ L := by
            intro e he; exact hsub e (by rw [h7]; exact he)
          exact ih c2 r2 L g (by omega) h3 (hashed_ne H h1) h4 h8 (by rw [← h6]; exact hnv)
            (hin _ (by simp)) (fun e he => hin e (by simp [he])) (by omega)
      · exact Or.inr hc

/-- Merkle proofs verify: the proof `prove` builds for a key, checked by `verify` against the root
    hash, yields exactly what the trie holds for the key - the value, or its absence -/
theorem verify_prove (Hlen : ∀ x, (H x).length = 32) (t : Node) (k : Key) (hw : WF t) (hne : t.isEmpty = false)
    (hk : TermKey k) (hs : SmallT H t) (hnv : getN t k ≠ some []) :
    verify H (prove H t k) (k.length + 1) (rootHash H t) k = some (getN t k) ∨ Coll H := by
  have hp : prove H t k = Rlp.encode (enc H t) :: pbN H t k := by
    cases t with
    | empty => simp [Node.isEmpty] at hne
    | value _ => rfl
    | short _ _ => rfl
    | full _ => rfl
  have hr : rootHash H t = H (Rlp.encode (enc H t)) := by
    cases t with
    | empty => simp [Node.isEmpty] at hne
    | value _ => rfl
    | short _ _ => rfl
    | full _ => rfl
  rw [hp, hr]
  exact verify_node H Hlen k.length t k _ _ (Nat.le_refl _) hw hne hk hs hnv (by simp)
    (fun e he => by simp [he]) (by omega)

end
end AnnVerif.Trie
