/-
  The locking rule over the node's history (assumption A3 of the agreement theorem, in the timed
  form of Lemmas/AgreementT.lean), for every run of one node from a fresh state:

    if the node has signed a precommit for block b in round r and LATER signs a prevote for
    something else in a round r' > r of the same height, then its own prevote sets report +2/3
    for something other than b in a round r'' with r < r'' ≤ r'.

  `signed` (ghost) is the list of the node's signed votes in signing order. The invariant `A3Inv`
  carries what is needed: every precommit for a block of the current height is either still
  covered by the lock (locked block = its block, lockedRound ≥ its round) or `Released` by a polka
  for something else in a later round the node has entered; the own precommit of the current round
  implies the node is past the precommit step; a lock never names a round ahead of the node.
  Reported majorities are never withdrawn (`Ext.stable`), rounds never go back (`Le`).
-/
import AnnVerif.Lemmas.NodeLock
import AnnVerif.Lemmas.NodeSched

namespace AnnVerif.Node

def nonNil (v : VoteSet.Vote) : Prop := v.bid.hash.isEmpty = false

/-- a precommit for a block, of the node's current height -/
def IsPC (n : Node) (p : VoteSet.Vote) : Prop := p.type = 2 ∧ nonNil p ∧ p.height = n.height

/-- a polka for something other than `p`'s block in a round after `p`'s, not later than `upTo` -/
def ReleasedBy (n : Node) (p : VoteSet.Vote) (upTo : Int) : Prop :=
  ∃ r'' bid'', p.round < r'' ∧ r'' ≤ upTo ∧ maj23 (prevotes n r'') = some bid'' ∧ bid''.hash ≠ p.bid.hash

structure A3Inv (n : Node) : Prop where
  hr : ∀ v ∈ n.signed, v.height ≤ n.height ∧ (v.height = n.height → v.round ≤ n.round)
  ps : ∀ p ∈ n.signed, p.type = 2 → p.height = n.height → p.round = n.round → Step.precommit ≤ n.step
  lr : n.lockedBlock.isSome = true → n.lockedRound ≤ n.round
  pl : ∀ p ∈ n.signed, IsPC n p →
        (n.lockedBlock = some p.bid.hash ∧ p.round ≤ n.lockedRound) ∨ ReleasedBy n p n.round
  g3 : ∀ (i j : Nat) (_ : i < j) (hj : j < n.signed.length),
        IsPC n (n.signed[i]'(by omega)) → (n.signed[j]).type = 1 → (n.signed[j]).height = n.height →
        (n.signed[i]'(by omega)).round < (n.signed[j]).round →
        (n.signed[j]).bid.hash ≠ (n.signed[i]'(by omega)).bid.hash →
        ReleasedBy n (n.signed[i]'(by omega)) (n.signed[j]).round
  /-- A1 for fresh runs: the own prevote of the current round implies the node is past Prevote -/
  pv : ∀ p ∈ n.signed, p.type = 1 → p.height = n.height → p.round = n.round → Step.prevote ≤ n.step
  /-- ... so no two signed votes share height, round and type -/
  uniq : ∀ (i j : Nat) (_ : i < j) (hj : j < n.signed.length),
        ¬ ((n.signed[i]'(by omega)).height = (n.signed[j]).height ∧
           (n.signed[i]'(by omega)).round = (n.signed[j]).round ∧
           (n.signed[i]'(by omega)).type = (n.signed[j]).type)
  /-- the signing history is in the order of (height, round) -/
  srt : ∀ (i j : Nat) (_ : i < j) (hj : j < n.signed.length),
        (n.signed[i]'(by omega)).height ≤ (n.signed[j]).height ∧
        ((n.signed[i]'(by omega)).height = (n.signed[j]).height → (n.signed[i]'(by omega)).round ≤ (n.signed[j]).round)

theorem ReleasedBy.mono {n n' : Node} {p : VoteSet.Vote} {u u' : Int} (x : ReleasedBy n p u)
    (hu : u ≤ u') (hs : ∀ r b, maj23 (prevotes n r) = some b → maj23 (prevotes n' r) = some b) :
    ReleasedBy n' p u' := by
  obtain ⟨r, b, h1, h2, h3, h4⟩ := x
  exact ⟨r, b, h1, Int.le_trans h2 hu, hs r b h3, h4⟩

/-- same height: rounds and steps do not go back -/
theorem Le.round_le {a b : Node} (l : Le a b) (hh : b.height = a.height) : a.round ≤ b.round := by
  unfold Le at l
  rcases l with l | ⟨_, l | ⟨l, _⟩⟩ <;> omega

theorem Le.step_le {a b : Node} (l : Le a b) (hh : b.height = a.height) (hr : b.round = a.round) :
    a.step.toNat ≤ b.step.toNat := by
  unfold Le at l
  rcases l with l | ⟨_, l | ⟨_, l⟩⟩
  · omega
  · omega
  · exact l

/-- a step that signs nothing and keeps lock and height -/
theorem A3Inv.keep {n n' : Node} (i : A3Inv n) (e : Ext n n') (k : Kept n n') (l : Le n n')
    (hs : n'.signed = n.signed) : A3Inv n' := by
  have hround := l.round_le k.h
  have stab := e.stable k.h
  refine ⟨?_, ?_, ?_, ?_, ?_, ?_, ?_, ?_⟩
  · intro v hv
    rw [hs] at hv
    obtain ⟨a, b⟩ := i.hr v hv
    rw [k.h]
    exact ⟨a, fun hh => Int.le_trans (b hh) hround⟩
  · intro p hp ht hh hr
    rw [hs] at hp
    rw [k.h] at hh
    have h1 := (i.hr p hp).2 hh
    have heq : n'.round = n.round := by omega
    have := i.ps p hp ht hh (by omega)
    have h2 := l.step_le k.h heq
    exact Nat.le_trans this h2
  · intro hl
    rw [k.lb] at hl
    rw [k.lr]
    exact Int.le_trans (i.lr hl) hround
  · intro p hp hpc
    rw [hs] at hp
    have hpc' : IsPC n p := ⟨hpc.1, hpc.2.1, by rw [← k.h]; exact hpc.2.2⟩
    rcases i.pl p hp hpc' with h | h
    · left; rw [k.lb, k.lr]; exact h
    · right; exact h.mono hround stab
  · intro a b hab hb
    have hb' : b < n.signed.length := by rw [← hs]; exact hb
    intro h1 h2 h3 h4 h5
    have e1 : n'.signed[a]'(by omega) = n.signed[a]'(by omega) := by simp [hs]
    have e2 : n'.signed[b] = n.signed[b] := by simp [hs]
    rw [e1] at h1 h4 h5 ⊢
    rw [e2] at h2 h3 h4 h5 ⊢
    have h1' : IsPC n (n.signed[a]'(by omega)) := ⟨h1.1, h1.2.1, by rw [← k.h]; exact h1.2.2⟩
    exact (i.g3 a b hab hb' h1' h2 (by rw [← k.h]; exact h3) h4 h5).mono (Int.le_refl _) stab
  · intro p hp ht hh hr
    rw [hs] at hp
    rw [k.h] at hh
    have h1 := (i.hr p hp).2 hh
    have heq : n'.round = n.round := by omega
    have := i.pv p hp ht hh (by omega)
    exact Nat.le_trans this (l.step_le k.h heq)
  · intro a b hab hb
    have hb' : b < n.signed.length := by rw [← hs]; exact hb
    have e1 : n'.signed[a]'(by omega) = n.signed[a]'(by omega) := by simp [hs]
    have e2 : n'.signed[b] = n.signed[b] := by simp [hs]
    rw [e1, e2]
    exact i.uniq a b hab hb'
  · intro a b hab hb
    have hb' : b < n.signed.length := by rw [← hs]; exact hb
    have e1 : n'.signed[a]'(by omega) = n.signed[a]'(by omega) := by simp [hs]
    have e2 : n'.signed[b] = n.signed[b] := by simp [hs]
    rw [e1, e2]
    exact i.srt a b hab hb'

/-- the height moved on: nothing of the old height is the subject any more -/
theorem A3Inv.next {n n' : Node} (i : A3Inv n) (hh : n.height < n'.height) (hs : n'.signed = n.signed)
    (hl : n'.lockedBlock = none) : A3Inv n' := by
  refine ⟨?_, ?_, ?_, ?_, ?_, ?_, ?_, ?_⟩
  · intro v hv
    rw [hs] at hv
    have := (i.hr v hv).1
    exact ⟨by omega, fun e => by omega⟩
  · intro p hp _ hh2 _
    rw [hs] at hp
    have := (i.hr p hp).1
    omega
  · intro h; rw [hl] at h; simp at h
  · intro p hp hpc
    rw [hs] at hp
    have := (i.hr p hp).1
    have := hpc.2.2
    omega
  · intro a b hab hb h1 _ _ _ _
    have hb' : b < n.signed.length := by rw [← hs]; exact hb
    have e1 : n'.signed[a]'(by omega) = n.signed[a]'(by omega) := by simp [hs]
    rw [e1] at h1
    have := (i.hr _ (List.getElem_mem (l := n.signed) (by omega : a < n.signed.length))).1
    have := h1.2.2
    omega
  · intro p hp _ hh2 _
    rw [hs] at hp
    have := (i.hr p hp).1
    omega
  · intro a b hab hb
    have hb' : b < n.signed.length := by rw [← hs]; exact hb
    have e1 : n'.signed[a]'(by omega) = n.signed[a]'(by omega) := by simp [hs]
    have e2 : n'.signed[b] = n.signed[b] := by simp [hs]
    rw [e1, e2]
    exact i.uniq a b hab hb'
  · intro a b hab hb
    have hb' : b < n.signed.length := by rw [← hs]; exact hb
    have e1 : n'.signed[a]'(by omega) = n.signed[a]'(by omega) := by simp [hs]
    have e2 : n'.signed[b] = n.signed[b] := by simp [hs]
    rw [e1, e2]
    exact i.srt a b hab hb'

/-! ### who signs -/

theorem signed_emit (n : Node) (e : Emit) : (emit n e).signed = n.signed := rfl

theorem signed_setRound (n : Node) (r : Int) : (setRound n r).signed = n.signed := by
  unfold setRound; split <;> rfl

theorem signed_decideProposal (n : Node) (h r : Int) : (decideProposal n h r).signed = n.signed := by
  unfold decideProposal
  extract_lets own block pol p res m
  have hm : m.signed = n.signed := by unfold m; split <;> rfl
  split
  · split
    · exact hm
    · rfl
  · rfl

theorem signed_hvsAddVote (n : Node) (v : VoteSet.Vote) (sigok : Bool) (peer : String) :
    (hvsAddVote n v sigok peer).1.signed = n.signed := by
  unfold hvsAddVote
  split
  · rfl
  · split
    rename_i n' known heq
    have s : n'.signed = n.signed := by
      split at heq
      · cases heq; rfl
      · dsimp only at heq
        split at heq
        · cases heq; rfl
        · cases heq; rfl
    split
    · exact s
    · split
      · exact s
      · exact s

theorem signed_setPeerMaj23 (n : Node) (height round : Int) (type : Nat) (peer : String) (bid : VoteSet.BlockID) :
    (setPeerMaj23 n height round type peer bid).signed = n.signed := by
  unfold setPeerMaj23
  split
  · rfl
  · split
    · rfl
    · split <;> rfl

/-! ### one signing step -/

theorem signAddVote_facts (n : Node) (t : Nat) (bid : VoteSet.BlockID) :
    ((signAddVote n t bid).signed = n.signed ∨
      ∃ i a, (signAddVote n t bid).signed = n.signed ++ [⟨i, a, n.height, n.round, t, bid, 0⟩]) ∧
    (signAddVote n t bid).rounds = n.rounds := by
  unfold signAddVote
  split
  · rename_i i a _ _
    dsimp only
    split
    · exact ⟨Or.inr ⟨i, a, rfl⟩, rfl⟩
    · exact ⟨Or.inl rfl, rfl⟩
  · exact ⟨Or.inl rfl, rfl⟩

theorem releasedBy_congr {n n' : Node} (hr : n'.rounds = n.rounds) {p : VoteSet.Vote} {u : Int}
    (x : ReleasedBy n p u) : ReleasedBy n' p u := by
  obtain ⟨r, b, h1, h2, h3, h4⟩ := x
  exact ⟨r, b, h1, h2, by rw [prevotes_congr hr]; exact h3, h4⟩

/-- the general step at one height and round: at most one vote (for the current height and round)
    is signed, the vote sets stay, round stays, the step does not go back; the lock may change as
    long as every precommit for a block stays covered or released -/
theorem A3Inv.step {n n' : Node} (i : A3Inv n) (extra : List VoteSet.Vote) (hlen : extra.length ≤ 1)
    (hex : ∀ v ∈ extra, v.height = n.height ∧ v.round = n.round)
    (hs : n'.signed = n.signed ++ extra) (hh : n'.height = n.height) (hr : n'.rounds = n.rounds)
    (hround : n'.round = n.round) (hstep : n.step.toNat ≤ n'.step.toNat)
    (hps : ∀ v ∈ extra, v.type = 2 → Step.precommit ≤ n'.step)
    (hlr : n'.lockedBlock.isSome = true → n'.lockedRound ≤ n'.round)
    (hpl : ∀ p, (p ∈ n.signed ∨ p ∈ extra) → IsPC n p →
      (n'.lockedBlock = some p.bid.hash ∧ p.round ≤ n'.lockedRound) ∨ ReleasedBy n' p n'.round)
    (hg3 : ∀ v ∈ extra, v.type = 1 → ∀ p ∈ n.signed, IsPC n p → p.round < v.round →
      v.bid.hash ≠ p.bid.hash → ReleasedBy n' p v.round)
    (hpv : ∀ v ∈ extra, v.type = 1 → Step.prevote ≤ n'.step)
    (hfresh : ∀ v ∈ extra, ∀ p ∈ n.signed, ¬ (p.height = v.height ∧ p.round = v.round ∧ p.type = v.type)) :
    A3Inv n' := by
  have pcEq : ∀ p, IsPC n' p ↔ IsPC n p := fun p => by unfold IsPC; rw [hh]
  refine ⟨?_, ?_, ?_, ?_, ?_, ?_, ?_, ?_⟩
  · intro v hv
    rw [hs] at hv
    rw [hh, hround]
    rcases List.mem_append.mp hv with hv | hv
    · exact i.hr v hv
    · obtain ⟨a, b⟩ := hex v hv
      exact ⟨by omega, fun _ => by omega⟩
  · intro p hp ht hh2 hr2
    rw [hs] at hp
    rcases List.mem_append.mp hp with hp | hp
    · have := i.ps p hp ht (by rw [← hh]; exact hh2) (by rw [← hround]; exact hr2)
      exact Nat.le_trans this hstep
    · exact hps p hp ht
  · exact hlr
  · intro p hp hpc
    rw [hs] at hp
    exact hpl p (List.mem_append.mp hp) ((pcEq p).mp hpc)
  · intro a b hab hb h1 h2 h3 h4 h5
    have hlen' : n'.signed.length = n.signed.length + extra.length := by rw [hs]; simp
    by_cases hbl : b < n.signed.length
    · have e1 : n'.signed[a]'(by omega) = n.signed[a]'(by omega) := by
        simp only [hs]; exact List.getElem_append_left (by omega)
      have e2 : n'.signed[b] = n.signed[b] := by
        simp only [hs]; exact List.getElem_append_left hbl
      rw [e1] at h1 h4 h5 ⊢
      rw [e2] at h2 h3 h4 h5 ⊢
      exact releasedBy_congr hr (i.g3 a b hab hbl ((pcEq _).mp h1) h2 (by rw [← hh]; exact h3) h4 h5)
    · -- the vote just signed
      have hb' : b = n.signed.length := by omega
      have hext : extra.length = 1 := by omega
      obtain ⟨v, hv⟩ : ∃ v, extra = [v] := by
        cases extra with
        | nil => simp at hext
        | cons x r => cases r with
          | nil => exact ⟨x, rfl⟩
          | cons y z => simp at hext
      have e1 : n'.signed[a]'(by omega) = n.signed[a]'(by omega) := by
        simp only [hs]; exact List.getElem_append_left (by omega)
      have e2 : n'.signed[b] = v := by
        simp only [hs, hv, hb']
        simp
      rw [e1] at h1 h4 h5 ⊢
      rw [e2] at h2 h4 h5 ⊢
      exact hg3 v (by rw [hv]; simp) h2 _ (List.getElem_mem _) ((pcEq _).mp h1) h4 h5
  · intro p hp ht hh2 hr2
    rw [hs] at hp
    rcases List.mem_append.mp hp with hp | hp
    · have := i.pv p hp ht (by rw [← hh]; exact hh2) (by rw [← hround]; exact hr2)
      exact Nat.le_trans this hstep
    · exact hpv p hp ht
  · intro a b hab hb
    have hlen' : n'.signed.length = n.signed.length + extra.length := by rw [hs]; simp
    by_cases hbl : b < n.signed.length
    · have e1 : n'.signed[a]'(by omega) = n.signed[a]'(by omega) := by
        simp only [hs]; exact List.getElem_append_left (by omega)
      have e2 : n'.signed[b] = n.signed[b] := by
        simp only [hs]; exact List.getElem_append_left hbl
      rw [e1, e2]
      exact i.uniq a b hab hbl
    · have hb' : b = n.signed.length := by omega
      have hext : extra.length = 1 := by omega
      obtain ⟨v, hv⟩ : ∃ v, extra = [v] := by
        cases extra with
        | nil => simp at hext
        | cons x r => cases r with
          | nil => exact ⟨x, rfl⟩
          | cons y z => simp at hext
      have e1 : n'.signed[a]'(by omega) = n.signed[a]'(by omega) := by
        simp only [hs]; exact List.getElem_append_left (by omega)
      have e2 : n'.signed[b] = v := by
        simp only [hs, hv, hb']
        simp
      rw [e1, e2]
      exact hfresh v (by rw [hv]; simp) _ (List.getElem_mem _)
  · intro a b hab hb
    have hlen' : n'.signed.length = n.signed.length + extra.length := by rw [hs]; simp
    by_cases hbl : b < n.signed.length
    · have e1 : n'.signed[a]'(by omega) = n.signed[a]'(by omega) := by
        simp only [hs]; exact List.getElem_append_left (by omega)
      have e2 : n'.signed[b] = n.signed[b] := by
        simp only [hs]; exact List.getElem_append_left hbl
      rw [e1, e2]
      exact i.srt a b hab hbl
    · have hb' : b = n.signed.length := by omega
      have hext : extra.length = 1 := by omega
      obtain ⟨v, hv⟩ : ∃ v, extra = [v] := by
        cases extra with
        | nil => simp at hext
        | cons x r => cases r with
          | nil => exact ⟨x, rfl⟩
          | cons y z => simp at hext
      have e1 : n'.signed[a]'(by omega) = n.signed[a]'(by omega) := by
        simp only [hs]; exact List.getElem_append_left (by omega)
      have e2 : n'.signed[b] = v := by
        simp only [hs, hv, hb']
        simp
      rw [e1, e2]
      obtain ⟨x1, x2⟩ := hex v (by rw [hv]; simp)
      have := i.hr _ (List.getElem_mem (l := n.signed) (by omega : a < n.signed.length))
      rw [x1, x2]
      exact this

theorem bidOf_hash (b : Name) : (bidOf b).hash = b := by
  unfold bidOf
  split
  · rename_i h; simp at h; simp [h]
  · rfl

/-- the prevote step: sign a prevote that follows the lock, then stand in (r, Prevote) -/
theorem a3_prevoteStep (n : Node) (bid : VoteSet.BlockID) (r : Int) (hr : r = n.round)
    (hnst : ¬ Step.prevote ≤ n.step) (hb : ∀ L, n.lockedBlock = some L → bid.hash = L)
    (i : A3Inv n) : A3Inv { signAddVote n 1 bid with round := r, step := .prevote } := by
  have hst : n.step.toNat ≤ Step.prevote.toNat := Nat.le_of_lt (step_lt_of_not_le hnst)
  obtain ⟨hsig, hrounds⟩ := signAddVote_facts n 1 bid
  have k := kept_signAddVote n 1 bid
  have common : ∀ extra : List VoteSet.Vote, extra.length ≤ 1 →
      (∀ v ∈ extra, v = ⟨v.idx, v.addr, n.height, n.round, 1, bid, 0⟩) →
      (signAddVote n 1 bid).signed = n.signed ++ extra →
      A3Inv { signAddVote n 1 bid with round := r, step := .prevote } := by
    intro extra hlen hform hs
    refine i.step extra hlen ?_ hs k.h hrounds hr hst ?_ ?_ ?_ ?_ (fun _ _ _ => Nat.le_refl _) ?_
    rotate_left 5
    · intro v hv p hp hk
      rw [hform v hv] at hk
      exact hnst (i.pv p hp hk.2.2 hk.1 hk.2.1)
    · intro v hv; rw [hform v hv]; exact ⟨rfl, rfl⟩
    · intro v hv ht; rw [hform v hv] at ht; simp at ht
    · intro hl
      have hl' : n.lockedBlock.isSome = true := by rw [← k.lb]; exact hl
      show (signAddVote n 1 bid).lockedRound ≤ r
      rw [k.lr, hr]; exact i.lr hl'
    · intro p hp hpc
      rcases hp with hp | hp
      · rcases i.pl p hp hpc with h | h
        · left
          show (signAddVote n 1 bid).lockedBlock = _ ∧ _ ≤ (signAddVote n 1 bid).lockedRound
          rw [k.lb, k.lr]; exact h
        · right
          have : ReleasedBy n p r := by rw [hr]; exact h
          exact releasedBy_congr (n' := { signAddVote n 1 bid with round := r, step := .prevote }) hrounds this
      · have := hpc.1
        rw [hform p hp] at this
        simp at this
    · intro v hv _ p hp hpc hlt hne
      have hvr : v.round = n.round := by rw [hform v hv]
      have hvb : v.bid = bid := by rw [hform v hv]
      rcases i.pl p hp hpc with h | h
      · exact absurd (by rw [hvb]; exact hb _ h.1) hne
      · have : ReleasedBy n p v.round := by rw [hvr]; exact h
        exact releasedBy_congr (n' := { signAddVote n 1 bid with round := r, step := .prevote }) hrounds this
  rcases hsig with hsig | ⟨i0, a0, hsig⟩
  · exact common [] (by simp) (by simp) (by simpa using hsig)
  · exact common [_] (by simp) (by intro v hv; simp at hv; subst hv; rfl) hsig

theorem a3_enterPrevote (n : Node) (h r : Int) (hw : n.height = h → r ≤ n.round) (i : A3Inv n) :
    A3Inv (enterPrevote n h r) := by
  unfold enterPrevote
  split
  · exact i
  · rename_i hg
    have hh : n.height = h := Classical.not_not.mp (fun x => hg (Or.inl x))
    have hrr : r = n.round := by
      have : ¬ r < n.round := fun x => hg (Or.inr (Or.inl x))
      have := hw hh
      omega
    have hst : ¬ Step.prevote ≤ n.step := fun x => hg (Or.inr (Or.inr ⟨hrr.symm, x⟩))
    unfold doPrevote
    split
    · rename_i b hb
      exact a3_prevoteStep n _ r hrr hst (fun L hL => by rw [hb] at hL; cases hL; exact bidOf_hash _) i
    · rename_i hb
      split
      · exact a3_prevoteStep n _ r hrr hst (fun L hL => by rw [hb] at hL; cases hL) i
      · split <;> exact a3_prevoteStep n _ r hrr hst (fun L hL => by rw [hb] at hL; cases hL) i

/-- the precommit step: the lock may have been changed (`m`), a precommit is signed for the current
    round, then the node stands in (r, Precommit) -/
theorem a3_precommitStep (n m : Node) (bid : VoteSet.BlockID) (r : Int) (hr : r = n.round)
    (hnst : ¬ Step.precommit ≤ n.step)
    (e1 : m.signed = n.signed) (e2 : m.height = n.height) (e3 : m.round = n.round) (e4 : m.rounds = n.rounds)
    (hlr : m.lockedBlock.isSome = true → m.lockedRound ≤ n.round)
    (hold : ∀ p ∈ n.signed, IsPC n p →
      (m.lockedBlock = some p.bid.hash ∧ p.round ≤ m.lockedRound) ∨ ReleasedBy n p n.round)
    (hnew : bid.hash.isEmpty = false → m.lockedBlock = some bid.hash ∧ n.round ≤ m.lockedRound)
    (i : A3Inv n) : A3Inv { signAddVote m 2 bid with round := r, step := .precommit } := by
  have hst : n.step.toNat ≤ Step.precommit.toNat := Nat.le_of_lt (step_lt_of_not_le hnst)
  obtain ⟨hsig, hrounds⟩ := signAddVote_facts m 2 bid
  have k := kept_signAddVote m 2 bid
  have common : ∀ extra : List VoteSet.Vote, extra.length ≤ 1 →
      (∀ v ∈ extra, v = ⟨v.idx, v.addr, n.height, n.round, 2, bid, 0⟩) →
      (signAddVote m 2 bid).signed = n.signed ++ extra →
      A3Inv { signAddVote m 2 bid with round := r, step := .precommit } := by
    intro extra hlen hform hs
    refine i.step extra hlen ?_ hs (k.h.trans e2) (hrounds.trans e4) hr hst ?_ ?_ ?_ ?_ ?_ ?_
    rotate_left 5
    · intro v hv ht; rw [hform v hv] at ht; simp at ht
    · intro v hv p hp hk
      rw [hform v hv] at hk
      exact hnst (i.ps p hp hk.2.2 hk.1 hk.2.1)
    · intro v hv; rw [hform v hv]; exact ⟨rfl, rfl⟩
    · intro v _ _; exact Nat.le_refl _
    · intro hl
      have hl' : m.lockedBlock.isSome = true := by rw [← k.lb]; exact hl
      show (signAddVote m 2 bid).lockedRound ≤ r
      rw [k.lr, hr]; exact hlr hl'
    · intro p hp hpc
      have conv : ∀ q, ((m.lockedBlock = some q.bid.hash ∧ q.round ≤ m.lockedRound) ∨ ReleasedBy n q n.round) →
          (({ signAddVote m 2 bid with round := r, step := Step.precommit } : Node).lockedBlock = some q.bid.hash ∧
            q.round ≤ ({ signAddVote m 2 bid with round := r, step := Step.precommit } : Node).lockedRound) ∨
          ReleasedBy { signAddVote m 2 bid with round := r, step := Step.precommit } q
            ({ signAddVote m 2 bid with round := r, step := Step.precommit } : Node).round := by
        intro q hq
        rcases hq with hq | hq
        · left
          show (signAddVote m 2 bid).lockedBlock = _ ∧ _ ≤ (signAddVote m 2 bid).lockedRound
          rw [k.lb, k.lr]; exact hq
        · right
          have : ReleasedBy n q r := by rw [hr]; exact hq
          exact releasedBy_congr (n' := { signAddVote m 2 bid with round := r, step := .precommit })
            (hrounds.trans e4) this
      rcases hp with hp | hp
      · exact conv p (hold p hp hpc)
      · have hf := hform p hp
        have hnn : bid.hash.isEmpty = false := by
          have := hpc.2.1
          unfold nonNil at this
          rw [hf] at this; exact this
        obtain ⟨a, b⟩ := hnew hnn
        apply conv p
        left
        rw [hf]
        exact ⟨a, b⟩
    · intro v hv ht
      rw [hform v hv] at ht
      simp at ht
  rcases hsig with hsig | ⟨i0, a0, hsig⟩
  · exact common [] (by simp) (by simp) (by rw [hsig, e1]; simp)
  · refine common [⟨i0, a0, n.height, n.round, 2, bid, 0⟩] (by simp) (by intro v hv; simp at hv; subst hv; rfl) ?_
    rw [hsig, e1, e2, e3]

/-- a polka for another block in the round the node is about to precommit in releases every
    earlier precommit -/
theorem earlier_round (n : Node) (i : A3Inv n) (p : VoteSet.Vote) (hp : p ∈ n.signed) (hpc : IsPC n p)
    (hstep : ¬ Step.precommit ≤ n.step) : p.round < n.round := by
  have h1 := (i.hr p hp).2 hpc.2.2
  by_cases e : p.round = n.round
  · exact absurd (i.ps p hp hpc.1 hpc.2.2 e) hstep
  · omega

theorem hashesTo_false_ne {L h : Bytes} (hf : hashesTo (some L) h = false) (hne : h.isEmpty = false) : L ≠ h := by
  unfold hashesTo at hf
  simp [hne] at hf
  exact hf

theorem a3_enterPrecommit (n : Node) (h r : Int) (hw : n.height = h → r ≤ n.round) (i : A3Inv n) :
    A3Inv (enterPrecommit n h r) := by
  unfold enterPrecommit
  split
  · exact i
  · rename_i hg
    have hh : n.height = h := Classical.not_not.mp (fun x => hg (Or.inl x))
    have hrr : r = n.round := by
      have : ¬ r < n.round := fun x => hg (Or.inr (Or.inl x))
      have := hw hh
      omega
    have hnst : ¬ Step.precommit ≤ n.step := fun x => hg (Or.inr (Or.inr ⟨hrr.symm, x⟩))
    have hst : n.step.toNat ≤ Step.precommit.toNat := Nat.le_of_lt (step_lt_of_not_le hnst)
    have nilE : (bidOf []).hash.isEmpty = false → False := by simp [bidOf_nil_empty]
    -- a step that signs nothing (the panics)
    have quiet : ∀ e : Emit, A3Inv { emit n e with round := r, step := Step.precommit } := by
      intro e
      refine i.step [] (by simp) (by simp) (by simp [emit]) rfl rfl hrr hst (by simp) ?_ ?_ (by simp) (by simp) (by simp)
      · intro hl; show n.lockedRound ≤ r; rw [hrr]; exact i.lr hl
      · intro p hp hpc
        rcases hp with hp | hp
        · rcases i.pl p hp hpc with x | x
          · exact Or.inl x
          · right
            have : ReleasedBy n p r := by rw [hrr]; exact x
            exact releasedBy_congr (n' := { emit n e with round := r, step := Step.precommit }) rfl this
        · simp at hp
    dsimp only
    split
    · -- no polka: precommit nil, the lock stays
      exact a3_precommitStep n n _ r hrr hnst rfl rfl rfl rfl i.lr i.pl (fun x => (nilE x).elim) i
    · rename_i blockID hm
      -- what a polka for `blockID` in this round does to an earlier precommit for another block
      have rel : ∀ p ∈ n.signed, IsPC n p → blockID.hash ≠ p.bid.hash → ReleasedBy n p n.round :=
        fun p hp hpc hne => ⟨r, blockID, by rw [hrr]; exact earlier_round n i p hp hpc hnst,
          by rw [hrr]; exact Int.le_refl _, hm, hne⟩
      split
      · exact quiet _
      · split
        · -- +2/3 for nil: unlock, precommit nil
          rename_i hnil
          have hne : ∀ p, IsPC n p → blockID.hash ≠ p.bid.hash := by
            intro p hpc e
            have := hpc.2.1
            unfold nonNil at this
            rw [← e, hnil] at this; cases this
          split
          · refine a3_precommitStep n (unlock n) _ r hrr hnst rfl rfl rfl rfl (by simp [unlock]) ?_
              (fun x => (nilE x).elim) i
            intro p hp hpc
            exact Or.inr (rel p hp hpc (hne p hpc))
          · rename_i hnl
            refine a3_precommitStep n n _ r hrr hnst rfl rfl rfl rfl i.lr ?_ (fun x => (nilE x).elim) i
            intro p hp hpc
            exact Or.inr (rel p hp hpc (hne p hpc))
        · rename_i hnn
          have hnn' : blockID.hash.isEmpty = false := by simpa using hnn
          split
          · -- relock
            rename_i hlk
            have hL : n.lockedBlock = some blockID.hash := hashesTo_eq hlk
            refine a3_precommitStep n { n with lockedRound := r } blockID r hrr hnst rfl rfl rfl rfl
              (fun _ => by show r ≤ n.round; omega) ?_ (fun _ => ⟨hL, by show n.round ≤ r; omega⟩) i
            intro p hp hpc
            rcases i.pl p hp hpc with x | x
            · left
              refine ⟨x.1, ?_⟩
              show p.round ≤ r
              have := i.lr (by rw [hL]; rfl)
              have := x.2
              omega
            · exact Or.inr x
          · rename_i hnlk
            split
            · rename_i hpb
              split
              · exact quiet _
              · -- lock the proposal block
                have hP : n.proposalBlock = some blockID.hash := hashesTo_eq hpb
                refine a3_precommitStep n { n with lockedRound := r, lockedBlock := n.proposalBlock } blockID r hrr hnst
                  rfl rfl rfl rfl (fun _ => by show r ≤ n.round; omega) ?_
                  (fun _ => ⟨hP, by show n.round ≤ r; omega⟩) i
                intro p hp hpc
                rcases i.pl p hp hpc with x | x
                · -- it was covered by the old lock, which is for another block
                  right
                  apply rel p hp hpc
                  intro e
                  have : hashesTo n.lockedBlock blockID.hash = true := by
                    rw [x.1, e]; unfold hashesTo
                    have := hpc.2.1; unfold nonNil at this
                    simp [this]
                  exact hnlk this
                · exact Or.inr x
            · -- a polka for a block the node does not hold: unlock, fetch it, precommit nil
              have key : ∀ m : Node, m.signed = n.signed → m.height = n.height → m.round = n.round →
                  m.rounds = n.rounds → m.lockedBlock = none →
                  A3Inv { signAddVote m 2 (bidOf []) with round := r, step := Step.precommit } := by
                intro m e1 e2 e3 e4 e5
                refine a3_precommitStep n m _ r hrr hnst e1 e2 e3 e4 (by rw [e5]; simp) ?_ (fun x => (nilE x).elim) i
                intro p hp hpc
                rcases i.pl p hp hpc with x | x
                · right
                  apply rel p hp hpc
                  intro e
                  have hf : hashesTo n.lockedBlock blockID.hash = false := by
                    cases hq : hashesTo n.lockedBlock blockID.hash with
                    | false => rfl
                    | true => exact absurd hq hnlk
                  rw [x.1] at hf
                  exact hashesTo_false_ne hf hnn' e.symm
                · exact Or.inr x
              split
              · exact key _ rfl rfl rfl rfl rfl
              · exact key _ rfl rfl rfl rfl rfl

theorem a3_emit (n : Node) (e : Emit) (i : A3Inv n) : A3Inv (emit n e) :=
  i.keep (ext_emit n e) (kept_emit n e) (Le.of_same (hrs_emit n e)) rfl

theorem a3_enterPrevoteWait (n : Node) (h r : Int) (i : A3Inv n) : A3Inv (enterPrevoteWait n h r) := by
  refine i.keep (ext_enterPrevoteWait n h r) (kept_enterPrevoteWait n h r) (le_enterPrevoteWait n h r) ?_
  unfold enterPrevoteWait
  split
  · rfl
  · split <;> rfl

theorem a3_enterPrecommitWait (n : Node) (h r : Int) (i : A3Inv n) : A3Inv (enterPrecommitWait n h r) := by
  refine i.keep (ext_enterPrecommitWait n h r) (kept_enterPrecommitWait n h r) (le_enterPrecommitWait n h r) ?_
  unfold enterPrecommitWait
  split
  · rfl
  · split <;> rfl

theorem a3_enterPropose (n : Node) (h r : Int) (i : A3Inv n) : A3Inv (enterPropose n h r) := by
  unfold enterPropose
  split
  · exact i
  · rename_i hg
    extract_lets n1 n2 n3
    have i1 : A3Inv n1 := a3_emit _ _ i
    have i2 : A3Inv n2 := by
      unfold n2
      split
      · split
        · exact i1.keep (ext_decideProposal _ _ _) (kept_decideProposal _ _ _) (Le.of_same (hrs_decideProposal _ _ _))
            (signed_decideProposal _ _ _)
        · exact i1
      · exact i1
    have h2 : n2.height = n.height ∧ n2.round = n.round ∧ n2.step = n.step := by
      unfold n2
      split
      · split
        · have := hrs_decideProposal n1 h r
          exact ⟨this.h, this.r, this.s⟩
        · exact ⟨rfl, rfl, rfl⟩
      · exact ⟨rfl, rfl, rfl⟩
    have i3 : A3Inv n3 := by
      refine i2.keep (Ext.frame rfl rfl rfl) ⟨rfl, rfl, rfl⟩ ?_ rfl
      apply Le.enter
      · rfl
      · show n2.round ≤ r; rw [h2.2.1]; omega
      · intro e
        show n2.step.toNat ≤ Step.propose.toNat
        rw [h2.2.2]
        have e' : n.round = r := by rw [← h2.2.1]; exact e
        have : ¬ Step.propose ≤ n.step := fun hh => hg (Or.inr (Or.inr ⟨e', hh⟩))
        exact Nat.le_of_lt (step_lt_of_not_le this)
    split
    · exact a3_enterPrevote n3 h n3.round (fun _ => Int.le_refl _) i3
    · exact i3

theorem a3_enterNewRound (n : Node) (h r : Int) (i : A3Inv n) : A3Inv (enterNewRound n h r) := by
  unfold enterNewRound
  split
  · exact i
  · rename_i hg
    extract_lets vals n1 n2 n3
    have l1 : Le n n1 := by
      apply Le.enter
      · rfl
      · show n.round ≤ r; omega
      · intro e
        show n.step.toNat ≤ Step.newRound.toNat
        have : n.step = .newHeight := Classical.not_not.mp (fun hh => hg (Or.inr (Or.inr ⟨e, hh⟩)))
        rw [this]; decide
    have i1 : A3Inv n1 := i.keep (Ext.frame rfl rfl rfl) ⟨rfl, rfl, rfl⟩ l1 rfl
    have i2 : A3Inv n2 := by
      unfold n2
      split
      · exact i1
      · exact i1.keep (Ext.frame rfl rfl rfl) ⟨rfl, rfl, rfl⟩ (Le.of_same ⟨rfl, rfl, rfl⟩) rfl
    have i3 : A3Inv n3 := i2.keep (ext_setRound _ _) (kept_setRound _ _) (Le.of_same (hrs_setRound _ _)) (signed_setRound _ _)
    exact a3_enterPropose _ _ _ i3

theorem a3_finalizeCommit (n : Node) (h : Int) (i : A3Inv n) : A3Inv (finalizeCommit n h) := by
  unfold finalizeCommit
  split
  · exact i
  · rename_i hg
    split
    · split
      · exact a3_emit _ _ i
      · split
        · exact a3_emit _ _ i
        · split
          · exact a3_emit _ _ i
          · split
            · exact a3_emit _ _ i
            · have hh : n.height = h := Classical.not_not.mp (fun x => hg (Or.inl x))
              refine i.next ?_ rfl rfl
              show n.height < h + 1
              omega
    · exact a3_emit _ _ i

theorem a3_tryFinalizeCommit (n : Node) (h : Int) (i : A3Inv n) : A3Inv (tryFinalizeCommit n h) := by
  unfold tryFinalizeCommit
  split
  · exact a3_emit _ _ i
  · split
    · exact i
    · split
      · exact i
      · split
        · exact i
        · exact a3_finalizeCommit _ _ i

theorem a3_enterCommit (n : Node) (h cr : Int) (i : A3Inv n) : A3Inv (enterCommit n h cr) := by
  unfold enterCommit
  split
  · exact i
  · rename_i hg
    split
    · exact a3_emit _ _ i
    · extract_lets n1 n2 n3
      have i1 : A3Inv n1 := by
        unfold n1
        split
        · exact i.keep (Ext.frame rfl rfl rfl) ⟨rfl, rfl, rfl⟩ (Le.of_same ⟨rfl, rfl, rfl⟩) rfl
        · exact i
      have s1 : SameHRS n n1 := by
        unfold n1
        split <;> exact ⟨rfl, rfl, rfl⟩
      have i2 : A3Inv n2 := by
        unfold n2
        split
        · exact i1.keep (Ext.frame rfl rfl rfl) ⟨rfl, rfl, rfl⟩ (Le.of_same ⟨rfl, rfl, rfl⟩) rfl
        · exact i1
      have s2 : SameHRS n1 n2 := by
        unfold n2
        split <;> exact ⟨rfl, rfl, rfl⟩
      have i3 : A3Inv n3 := by
        refine i2.keep (Ext.frame rfl rfl rfl) ⟨rfl, rfl, rfl⟩ ?_ rfl
        apply Le.enter
        · rfl
        · exact Int.le_refl _
        · intro _
          show n2.step.toNat ≤ Step.commit.toNat
          rw [(s1.trans s2).s]
          have : ¬ Step.commit ≤ n.step := fun hh => hg (Or.inr hh)
          exact Nat.le_of_lt (step_lt_of_not_le this)
      exact a3_tryFinalizeCommit _ _ i3

theorem a3_setProposal (n : Node) (p : Proposal) (signer : Nat) (bad : Bool) (i : A3Inv n) :
    A3Inv (setProposal n p signer bad) := by
  unfold setProposal
  split
  · exact i
  · split
    · exact i
    · split
      · exact i
      · split
        · exact i
        · split
          · exact i
          · split <;> exact i.keep (Ext.frame rfl rfl rfl) ⟨rfl, rfl, rfl⟩ (Le.of_same ⟨rfl, rfl, rfl⟩) rfl

theorem a3_addParts (n : Node) (height : Int) (block : Name) (own : Bool) (i : A3Inv n) :
    A3Inv (addParts n height block own) := by
  unfold addParts
  split
  · exact i
  · split
    · exact i
    · split
      · exact i
      · split
        · exact i
        · extract_lets m
          have im : A3Inv m := i.keep (Ext.frame rfl rfl rfl) ⟨rfl, rfl, rfl⟩ (Le.of_same ⟨rfl, rfl, rfl⟩) rfl
          split
          · exact a3_enterPrevote m height m.round (fun _ => Int.le_refl _) im
          · split
            · exact a3_tryFinalizeCommit _ _ im
            · exact im

/-- `addVote`'s unlock: a polka for something else in a round after the lock's, not ahead of the node -/
theorem a3_unlock_on_polka (m : Node) (vr : Int) (b : VoteSet.BlockID) (hm : maj23 (prevotes m vr) = some b)
    (hcond : m.lockedBlock.isSome = true ∧ m.lockedRound < vr ∧ vr ≤ m.round)
    (hne : (!hashesTo m.lockedBlock b.hash) = true) (i : A3Inv m) : A3Inv (unlock m) := by
  refine i.step [] (by simp) (by simp) (by simp [unlock]) rfl rfl rfl (Nat.le_refl _) (by simp)
    (by simp [unlock]) ?_ (by simp) (by simp) (by simp)
  intro p hp hpc
  rcases hp with hp | hp
  · rcases i.pl p hp hpc with x | x
    · right
      refine releasedBy_congr (n' := unlock m) rfl ⟨vr, b, by have := x.2; omega, hcond.2.2, hm, ?_⟩
      intro e
      have hf : hashesTo m.lockedBlock b.hash = false := by simpa using hne
      rw [x.1] at hf
      unfold hashesTo at hf
      have hnn := hpc.2.1
      unfold nonNil at hnn
      rw [← e] at hnn
      simp [e] at hf
      rw [e, hf] at hnn
      simp at hnn
    · exact Or.inr (releasedBy_congr (n' := unlock m) rfl x)
  · simp at hp

theorem a3_addVote (n : Node) (v : VoteSet.Vote) (sigok : Bool) (peer : String) (i : A3Inv n) :
    A3Inv (addVote n v sigok peer) := by
  unfold addVote
  split
  · split
    · exact i
    · split
      · split
        · exact i
        · exact a3_emit _ _ i
      · split
        dsimp only
        split
        · apply a3_enterNewRound
          exact i.keep (Ext.frame rfl rfl rfl) ⟨rfl, rfl, rfl⟩ (Le.of_same ⟨rfl, rfl, rfl⟩) rfl
        · exact i.keep (Ext.frame rfl rfl rfl) ⟨rfl, rfl, rfl⟩ (Le.of_same ⟨rfl, rfl, rfl⟩) rfl
  · split
    · have i0 : A3Inv (hvsAddVote n v sigok peer).1 :=
        i.keep (ext_hvsAddVote _ _ _ _) (kept_hvsAddVote _ _ _ _) (Le.of_same (hrs_hvsAddVote _ _ _ _))
          (signed_hvsAddVote _ _ _ _)
      generalize hvsAddVote n v sigok peer = res at i0 ⊢
      obtain ⟨m, o⟩ := res
      dsimp only at i0 ⊢
      split
      · exact i0
      · split
        · have i1 : A3Inv (if m.lockedBlock.isSome = true ∧ m.lockedRound < v.round ∧ v.round ≤ m.round then
              match maj23 (prevotes m v.round) with
              | some b => if (!hashesTo m.lockedBlock b.hash) = true then unlock m else m
              | none => m
            else m) := by
            split
            · rename_i hc
              split
              · rename_i b hb
                split
                · rename_i hne
                  exact a3_unlock_on_polka m v.round b hb hc hne i0
                · exact i0
              · exact i0
            · exact i0
          generalize (if m.lockedBlock.isSome = true ∧ m.lockedRound < v.round ∧ v.round ≤ m.round then
              match maj23 (prevotes m v.round) with
              | some b => if (!hashesTo m.lockedBlock b.hash) = true then unlock m else m
              | none => m
            else m) = m1 at i1 ⊢
          split
          · split
            · exact a3_enterPrecommit _ _ _ (enterNewRound_hr m1 n.height v.round) (a3_enterNewRound _ _ _ i1)
            · exact a3_enterPrevoteWait _ _ _
                (a3_enterPrevote _ _ _ (enterNewRound_hr m1 n.height v.round) (a3_enterNewRound _ _ _ i1))
          · split
            · split
              · exact a3_enterPrevote _ _ _ (fun _ => Int.le_refl _) i1
              · exact i1
            · exact i1
        · split
          · split
            · exact a3_enterNewRound _ _ _ i0
            · have ic := a3_enterCommit _ n.height v.round
                (a3_enterPrecommit _ n.height v.round (enterNewRound_hr m n.height v.round)
                  (a3_enterNewRound m n.height v.round i0))
              split
              · exact a3_enterNewRound _ _ _ ic
              · exact ic
          · split
            · exact a3_enterPrecommitWait _ _ _
                (a3_enterPrecommit _ _ _ (enterNewRound_hr m n.height v.round) (a3_enterNewRound _ _ _ i0))
            · exact i0
    · exact i

theorem a3_handleTimeout (n : Node) (h r : Int) (s : Step) (hw : h = n.height → r ≤ n.round) (i : A3Inv n) :
    A3Inv (handleTimeout n h r s) := by
  unfold handleTimeout
  split
  · exact i
  · split
    · exact a3_enterNewRound _ _ _ i
    · exact a3_enterPrevote _ _ _ (fun e => hw e.symm) i
    · exact a3_enterPrecommit _ _ _ (fun e => hw e.symm) i
    · exact a3_enterNewRound _ _ _ i
    · exact a3_emit _ _ i

theorem a3_handleMsg (n : Node) (m : Msg) (peer : String) (i : A3Inv n) : A3Inv (handleMsg n m peer) := by
  unfold handleMsg
  split
  · exact a3_setProposal _ _ _ _ i
  · exact a3_addParts _ _ _ _ i
  · exact a3_addVote _ _ _ _ i

theorem a3_stepIn (n : Node) (inp : In) (i : A3Inv n) (hw : WellTimed n inp) : A3Inv (stepIn n inp) := by
  cases inp with
  | msg m peer => exact a3_handleMsg _ _ _ i
  | own =>
    show A3Inv (match n.queue with | [] => n | m :: rest => handleMsg { n with queue := rest } m "")
    split
    · exact i
    · rename_i m rest _
      have i' : A3Inv { n with queue := rest } :=
        i.keep (Ext.frame rfl rfl rfl) ⟨rfl, rfl, rfl⟩ (Le.of_same ⟨rfl, rfl, rfl⟩) rfl
      exact a3_handleMsg _ _ _ i'
  | timeout h r s => exact a3_handleTimeout _ _ _ _ hw i
  | maj23 h r t peer bid =>
    exact i.keep (ext_setPeerMaj23 _ _ _ _ _ _) (kept_setPeerMaj23 _ _ _ _ _ _)
      (Le.of_same (hrs_setPeerMaj23 _ _ _ _ _ _)) (signed_setPeerMaj23 _ _ _ _ _ _)

theorem a3_run (ins : List In) : ∀ n : Node, A3Inv n → RunOK n ins → A3Inv (ins.foldl stepIn n) := by
  induction ins with
  | nil => intro n i _; exact i
  | cons x rest ih => intro n i hr; exact ih _ (a3_stepIn n x i hr.1) hr.2

theorem init_a3 (cfg : Cfg) (height : Int) (vals : ValSet.ValSet) (me : Option Nat) (skip : Bool) :
    A3Inv (init cfg height vals me skip) := by
  refine ⟨?_, ?_, ?_, ?_, ?_, ?_, ?_, ?_⟩
  · intro v hv; simp [init] at hv
  · intro p hp; simp [init] at hp
  · intro hl; simp [init] at hl
  · intro p hp; simp [init] at hp
  · intro a b _ hb; simp [init] at hb
  · intro p hp; simp [init] at hp
  · intro a b _ hb; simp [init] at hb
  · intro a b _ hb; simp [init] at hb

end AnnVerif.Node
