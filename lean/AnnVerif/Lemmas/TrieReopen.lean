/-
  Commit and reopen: the node database a commit writes is the set of the encodings of all nodes
  stored by hash (and the root). Reading a key from that database, starting at the root hash -
  fetch by hash, decode, walk through embedded nodes, fetch the next hash: `Trie.Get` over hash
  nodes, the same loop as `VerifyProof` - returns exactly what the in-memory trie holds.
-/
import AnnVerif.Lemmas.TrieProof
set_option linter.unusedSimpArgs false
namespace AnnVerif.Trie

section
variable (H : Bytes → Bytes)

theorem allBelowC_get : ∀ (cs : Children) (i : Nat) (e : Bytes),
    e ∈ here H (cs.get i) ++ allBelow H (cs.get i) → e ∈ allBelowC H cs
  | .nil, _, e, h => by
    simp only [Children.get] at h
    simp [allBelow, here, hashed] at h
  | .cons n r, 0, e, h => by
    simp only [Children.get] at h
    rw [allBelowC]; simp only [List.mem_append] at h ⊢
    rcases h with h | h
    · exact Or.inl (Or.inl h)
    · exact Or.inl (Or.inr h)
  | .cons n r, i + 1, e, h => by
    simp only [Children.get] at h
    rw [allBelowC]; simp only [List.mem_append]
    exact Or.inr (allBelowC_get r i e h)

theorem proveBelow_sub : ∀ (f : Nat) (t : Node) (k : Key) (e : Bytes), e ∈ proveBelow H f t k → e ∈ allBelow H t := by
  intro f
  induction f with
  | zero => intro t k e h; rw [proveBelow_zero] at h; simp at h
  | succ f ih =>
    intro t k e h
    cases t with
    | empty => rw [proveBelow_empty] at h; simp at h
    | value v => rw [proveBelow_value] at h; simp at h
    | short key c =>
      rw [proveBelow_short] at h
      split at h
      · rw [allBelow]
        simp only [List.mem_append] at h ⊢
        rcases h with h | h
        · exact Or.inl h
        · exact Or.inr (ih c _ e h)
      · simp at h
    | full cs =>
      cases k with
      | nil => rw [proveBelow_full_nil] at h; simp at h
      | cons i r =>
        rw [proveBelow_full_cons] at h
        rw [allBelow]
        apply allBelowC_get H cs i e
        simp only [List.mem_append] at h ⊢
        rcases h with h | h
        · exact Or.inl h
        · exact Or.inr (ih _ r e h)

/-- reopening at the committed root reads exactly the content -/
theorem reopen_reads_content (Hlen : ∀ x, (H x).length = 32) (t : Node) (k : Key) (hw : WF t) (hne : t.isEmpty = false)
    (hk : TermKey k) (hs : SmallT H t) (hnv : getN t k ≠ some []) :
    verify H (commitNodes H t) (k.length + 1) (rootHash H t) k = some (getN t k) ∨ Coll H := by
  have hp : commitNodes H t = Rlp.encode (enc H t) :: allBelow H t := by
    cases t with
    | empty => simp [Node.isEmpty] at hne
    | value _ => rfl
    | short _ _ => rfl
    | full _ => rfl
  have hr : rootHash H t = H (Rlp.encode (enc H t)) := by
    cases t with
    | empty => simp [Node.isEmpty] at hne
    | value _ => rfl
    | short _ _ => rfl
    | full _ => rfl
  rw [hp, hr]
  exact verify_node H Hlen k.length t k _ _ (Nat.le_refl _) hw hne hk hs hnv (by simp)
    (fun e he => by simp [proveBelow_sub H _ t k e he]) (by omega)

end
end AnnVerif.Trie
