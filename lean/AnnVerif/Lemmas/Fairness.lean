/-
  Proportional selection: the abstract accumulate / pick-a-maximum / subtract-the-total scheme
  selects validator j exactly w j times in T = Σ w consecutive rounds, whatever the tie-break.
-/
namespace AnnVerif.Fairness

/-- Σ_{j<N} f j -/
def S : Nat → (Nat → Int) → Int
  | 0, _ => 0
  | n + 1, f => S n f + f n

theorem S_congr (N : Nat) (f g : Nat → Int) (h : ∀ j, j < N → f j = g j) : S N f = S N g := by
  induction N with
  | zero => rfl
  | succ n ih =>
    simp only [S]
    rw [ih (fun j hj => h j (by omega)), h n (by omega)]

theorem S_lin (N : Nat) (f g : Nat → Int) (a b : Int) :
    S N (fun j => a * f j - b * g j) = a * S N f - b * S N g := by
  induction N with
  | zero => simp [S]
  | succ n ih => simp only [S, ih, Int.mul_add, Int.mul_sub]; omega

theorem S_add (N : Nat) (f g : Nat → Int) : S N (fun j => f j + g j) = S N f + S N g := by
  induction N with
  | zero => simp [S]
  | succ n ih => simp only [S, ih]; omega

theorem S_nonpos (N : Nat) (f : Nat → Int) (h : ∀ j, j < N → f j ≤ 0) : S N f ≤ 0 := by
  induction N with
  | zero => simp [S]
  | succ n ih =>
    have := ih (fun j hj => h j (by omega)); have := h n (by omega); simp only [S]; omega

theorem S_nonneg (N : Nat) (f : Nat → Int) (h : ∀ j, j < N → 0 ≤ f j) : 0 ≤ S N f := by
  induction N with
  | zero => simp [S]
  | succ n ih =>
    have := ih (fun j hj => h j (by omega)); have := h n (by omega); simp only [S]; omega

theorem S_eq_zero (N : Nat) (f : Nat → Int) (h : ∀ j, j < N → 0 ≤ f j) (hs : S N f = 0) :
    ∀ j, j < N → f j = 0 := by
  induction N with
  | zero => intro j hj; omega
  | succ n ih =>
    intro j hj
    have h1 := S_nonneg n f (fun j hj => h j (by omega))
    have h2 := h n (by omega)
    simp only [S] at hs
    by_cases hjn : j = n
    · subst hjn; omega
    · exact ih (fun j hj => h j (by omega)) (by omega) j (by omega)

theorem S_indicator (N i : Nat) (hi : i < N) : S N (fun j => if i = j then 1 else 0) = 1 := by
  induction N with
  | zero => omega
  | succ n ih =>
    simp only [S]
    by_cases hin : i = n
    · subst hin
      have : S i (fun j => if i = j then (1 : Int) else 0) = S i (fun _ => 0) :=
        S_congr _ _ _ (fun j hj => by have : i ≠ j := by omega
                                      simp [this])
      rw [this]
      have : S i (fun _ => (0 : Int)) = 0 := by
        have := S_lin i (fun _ => 0) (fun _ => 0) 0 0; simpa using this
      simp [this]
    · have := ih (by omega); simp [this, hin]

section
variable (N : Nat) (w : Nat → Int) (T : Int) (ch : Nat → Nat)

/-- how often `j` was chosen in the first `n` rounds -/
def cnt : Nat → Nat → Int
  | 0, _ => 0
  | n + 1, j => cnt n j + (if ch n = j then 1 else 0)

/-- accum of validator `j` after `n` rounds from all-zero accums -/
def acc (n j : Nat) : Int := n * w j - T * cnt ch n j

/-- round `n` picks a validator whose accum-plus-power is maximal (ANY tie-break) -/
def ValidAt (n : Nat) : Prop :=
  ch n < N ∧ ∀ j, j < N → acc w T ch n j + w j ≤ acc w T ch n (ch n) + w (ch n)

theorem S_cnt (n : Nat) (h : ∀ m, m < n → ch m < N) : S N (cnt ch n) = n := by
  induction n with
  | zero =>
    have : S N (cnt ch 0) = S N (fun _ => 0) := S_congr _ _ _ (fun j _ => rfl)
    rw [this]
    have := S_lin N (fun _ => 0) (fun _ => 0) 0 0; simpa using this
  | succ k ih =>
    have h1 := ih (fun m hm => h m (by omega))
    have : S N (cnt ch (k + 1)) = S N (fun j => cnt ch k j + (if ch k = j then 1 else 0)) :=
      S_congr _ _ _ (fun j _ => rfl)
    rw [this, S_add, h1, S_indicator N (ch k) (h k (by omega))]
    omega

theorem cnt_nonneg (n j : Nat) : 0 ≤ cnt ch n j := by
  induction n with
  | zero => simp [cnt]
  | succ k ih => simp only [cnt]; split <;> omega

/-- the key step: a validator is never chosen more often than its power within the first T rounds -/
theorem cnt_le (hw : ∀ j, j < N → 0 ≤ w j) (hT : T = S N w) (hTpos : 0 < T)
    (hvalid : ∀ n : Nat, (n : Int) < T → ValidAt N w T ch n) :
    ∀ n : Nat, (n : Int) ≤ T → ∀ j, j < N → cnt ch n j ≤ w j := by
  intro n
  induction n with
  | zero => intro _ j hj; simp only [cnt]; exact hw j hj
  | succ k ih =>
    intro hk j hj
    have hk' : (k : Int) < T := by omega
    have ihk := ih (by omega)
    obtain ⟨hci, hmax⟩ := hvalid k hk'
    simp only [cnt]
    by_cases hc : ch k = j
    · subst hc
      simp only [if_true]
      -- the scores x_j = (k+1) w_j − T cnt_k j sum to T > 0, so the maximum is positive
      have hsum : S N (fun j => acc w T ch k j + w j) = T := by
        have e : S N (fun j => acc w T ch k j + w j)
            = S N (fun j => ((k : Int) + 1) * w j - T * cnt ch k j) :=
          S_congr _ _ _ (fun j _ => by simp only [acc]; rw [Int.add_mul]; omega)
        rw [e, S_lin, ← hT, S_cnt N ch k (fun m hm => (hvalid m (by omega)).1)]
        rw [Int.add_mul]
        have : (k : Int) * T = T * (k : Int) := Int.mul_comm _ _
        omega
      have hpos : 0 < acc w T ch k (ch k) + w (ch k) := by
        apply Classical.byContradiction
        intro hneg
        have := S_nonpos N (fun j => acc w T ch k j + w j)
          (fun j hj => by have := hmax j hj; omega)
        omega
      simp only [acc] at hpos
      -- (k+1) w_i > T cnt_i, and (k+1) w_i ≤ T w_i
      have h1 : ((k : Int) + 1) * w (ch k) ≤ T * w (ch k) :=
        Int.mul_le_mul_of_nonneg_right (by omega) (hw _ hci)
      have h2 : T * cnt ch k (ch k) < T * w (ch k) := by
        have : ((k : Int) + 1) * w (ch k) = (k : Int) * w (ch k) + w (ch k) := by
          rw [Int.add_mul]; omega
        omega
      have := Int.lt_of_mul_lt_mul_left h2 (by omega)
      omega
    · simp only [hc, if_false]
      have := ihk j hj
      omega

/-- FAIRNESS: in T = Σ w consecutive rounds from zero accums, validator j is chosen exactly
    w j times, for EVERY tie-break — and the accums are back to zero (so the sequence is periodic
    with period T and the same holds for every window of T consecutive rounds on that orbit). -/
theorem fair (hw : ∀ j, j < N → 0 ≤ w j) (hT : T = S N w) (hTpos : 0 < T)
    (hvalid : ∀ n : Nat, (n : Int) < T → ValidAt N w T ch n) :
    (∀ j, j < N → cnt ch T.toNat j = w j) ∧ (∀ j, j < N → acc w T ch T.toNat j = 0) := by
  have hle := cnt_le N w T ch hw hT hTpos hvalid T.toNat (by omega)
  have hs : S N (cnt ch T.toNat) = T := by
    rw [S_cnt N ch T.toNat (fun m hm => (hvalid m (by omega)).1)]; omega
  have hz : S N (fun j => w j - cnt ch T.toNat j) = 0 := by
    have := S_lin N w (cnt ch T.toNat) 1 1
    simp only [Int.one_mul] at this
    rw [this, hs, ← hT]; omega
  have heq := S_eq_zero N _ (fun j hj => by have := hle j hj; omega) hz
  refine ⟨fun j hj => by have := heq j hj; omega, fun j hj => ?_⟩
  have := heq j hj
  simp only [acc]
  have e : cnt ch T.toNat j = w j := by omega
  rw [e]
  have : ((T.toNat : Nat) : Int) = T := by omega
  rw [this]; exact Int.sub_self _

end
end AnnVerif.Fairness
