/-
  Agreement for histories WITH TIME.

  The static rule A3 of Lemmas/Agreement.lean asks for the unlocking polka in a round STRICTLY
  before the round of the deviating prevote. The implementation (and Tendermint) is more liberal:
  a locked validator that has not prevoted yet in its current round r' unlocks when it sees +2/3
  prevotes for something else in round r' itself (`addVote`: lockedRound < vote.Round ≤ cs.Round).
  As a static fact about the finished history that rule is circular - the prevotes of a round could
  justify each other - and what makes it sound is causality: the polka has to be there BEFORE the
  prevote it releases. This file states the honest rules over timed vote events, with the
  unlocking polka in a round r'' with r < r'' ≤ r' made of prevotes cast strictly earlier, and
  proves agreement by induction on time. This is the form the node model can discharge (Props/C04
  L8, L9: the justification is in the node's own vote sets when the vote is signed).
-/
import AnnVerif.Lemmas.Agreement
namespace AnnVerif.AgreementT
open AnnVerif.Fairness AnnVerif.Agreement
open Classical

variable {Block : Type}

/-- timed vote events of one height: validator, round, block (`none` = nil), time -/
structure THistory (Block : Type) where
  prevote : Nat → Nat → Option Block → Nat → Prop
  precommit : Nat → Nat → Option Block → Nat → Prop

section
variable (N : Nat) (w : Nat → Int) (F : Nat → Prop) (H : THistory Block)

/-- more than two thirds of the power had prevoted `x` in round `r` strictly before time `t` -/
def PolkaBefore (r : Nat) (x : Option Block) (t : Nat) : Prop :=
  3 * pow N w (fun j => ∃ s, s < t ∧ H.prevote j r x s) > 2 * S N w

/-- more than two thirds precommit `b` in round `r` (at any times) -/
def CommitQuorum (r : Nat) (b : Block) : Prop :=
  3 * pow N w (fun j => ∃ s, H.precommit j r (some b) s) > 2 * S N w

structure HonestRules : Prop where
  /-- A1 (C03): at most one prevote and one precommit per round, whenever cast -/
  prevote_unique : ∀ j r x y s s', ¬ F j → H.prevote j r x s → H.prevote j r y s' → x = y
  precommit_unique : ∀ j r x y s s', ¬ F j → H.precommit j r x s → H.precommit j r y s' → x = y
  /-- A2 (C04 L1/L8): a block is precommitted only when its polka of that round is already there -/
  precommit_polka : ∀ j r b t, ¬ F j → H.precommit j r (some b) t → PolkaBefore N w H r (some b) t
  /-- A3 (C04 L2/L9): after precommitting `b` in round `r`, a prevote for something else in a later
      round `r'` is cast only when a polka for something else, of a round in (r, r'], is already there -/
  lock : ∀ j r b t r' x t', ¬ F j → H.precommit j r (some b) t → r < r' → H.prevote j r' x t' → x ≠ some b →
    ∃ r'' y, r < r'' ∧ r'' ≤ r' ∧ y ≠ some b ∧ PolkaBefore N w H r'' y t'

/-- once `b` has a commit quorum in round `r`, no polka for anything else ever forms in a later
    round: by induction on the time at which it would be complete -/
theorem no_later_polka (hw : ∀ j, j < N → 0 ≤ w j) (hF : 3 * pow N w F < S N w)
    (rules : HonestRules N w F H) (r : Nat) (b : Block) (hq : CommitQuorum N w H r b) :
    ∀ t r' : Nat, r < r' → ∀ y, y ≠ some b → ¬ PolkaBefore N w H r' y t := by
  intro t
  induction t using Nat.strongRecOn with
  | _ t ih =>
    intro r' hlt y hy hpolka
    obtain ⟨j, _, ⟨s0, hpc⟩, ⟨s, hs, hpv⟩, hf⟩ := quorum_intersection N w hw F _ _ hF hq hpolka
    obtain ⟨r'', z, h1, _, hz, hp⟩ := rules.lock j r b s0 r' y s hf hpc hlt hpv hy
    exact ih s hs r'' h1 z hz hp

/-- AGREEMENT (one height, timed histories) -/
theorem agreement (hw : ∀ j, j < N → 0 ≤ w j) (hF : 3 * pow N w F < S N w)
    (rules : HonestRules N w F H) (r r' : Nat) (b b' : Block)
    (hq : CommitQuorum N w H r b) (hq' : CommitQuorum N w H r' b') : b = b' := by
  rcases Nat.lt_trichotomy r r' with hlt | heq | hgt
  · obtain ⟨j, _, ⟨s, hpc'⟩, _, hf⟩ := quorum_intersection N w hw F _ _ hF hq' hq'
    have hp := rules.precommit_polka j r' b' s hf hpc'
    by_cases hbb : (some b' : Option Block) = some b
    · injection hbb with h; exact h.symm
    · exact absurd hp (no_later_polka N w F H hw hF rules r b hq s r' hlt (some b') hbb)
  · subst heq
    obtain ⟨j, _, ⟨s, hpc⟩, ⟨s', hpc'⟩, hf⟩ := quorum_intersection N w hw F _ _ hF hq hq'
    have := rules.precommit_unique j r _ _ s s' hf hpc hpc'
    injection this
  · obtain ⟨j, _, ⟨s, hpc⟩, _, hf⟩ := quorum_intersection N w hw F _ _ hF hq hq
    have hp := rules.precommit_polka j r b s hf hpc
    by_cases hbb : (some b : Option Block) = some b'
    · injection hbb
    · exact absurd hp (no_later_polka N w F H hw hF rules r' b' hq' s r hgt (some b) hbb)

end

end AnnVerif.AgreementT
