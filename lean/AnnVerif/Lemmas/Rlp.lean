import AnnVerif.Model.Rlp
namespace AnnVerif.Rlp

theorem beVal_eq_foldl (bs : Bytes) : beVal bs = bs.foldl (fun acc b => acc * 256 + b.toNat) 0 := by
  cases bs <;> rfl

theorem beVal_append (xs : Bytes) (b : UInt8) : beVal (xs ++ [b]) = beVal xs * 256 + b.toNat := by
  rw [beVal_eq_foldl, beVal_eq_foldl]; simp [List.foldl_append]

/-- minimal big-endian: value, length bound, no leading zero -/
theorem beMin_spec : ∀ (f n : Nat), n < 256 ^ f →
    beVal (beMin f n) = n ∧ (beMin f n).length ≤ f ∧
    (0 < n → ∃ x t, beMin f n = x :: t ∧ x ≠ 0) := by
  intro f
  induction f with
  | zero => intro n hn; simp at hn; subst hn; simp [beMin, beVal]
  | succ k ih =>
    intro n hn
    unfold beMin
    by_cases h0 : n = 0
    · subst h0; simp [beVal]
    · simp only [h0, if_false]
      have hq : n / 256 < 256 ^ k := by
        rw [Nat.pow_succ] at hn
        exact Nat.div_lt_of_lt_mul (by rw [Nat.mul_comm]; exact hn)
      obtain ⟨h1, h2, h3⟩ := ih (n / 256) hq
      refine ⟨?_, ?_, ?_⟩
      · rw [beVal_append, h1]
        simp [UInt8.toNat_ofNat']
        omega
      · simp; omega
      · intro _
        by_cases hq0 : n / 256 = 0
        · have hb : beMin k (n / 256) = [] := by
            rw [hq0]; cases k <;> simp [beMin]
          rw [hb]
          refine ⟨UInt8.ofNat (n % 256), [], rfl, ?_⟩
          intro h
          have := congrArg UInt8.toNat h
          simp [UInt8.toNat_ofNat'] at this
          omega
        · obtain ⟨x, t, hx, hne⟩ := h3 (by omega)
          exact ⟨x, t ++ [UInt8.ofNat (n % 256)], by rw [hx]; rfl, hne⟩

theorem beMinBytes_spec (n : Nat) (h0 : 0 < n) (h : n < 2 ^ 64) :
    beVal (beMinBytes n) = n ∧ 1 ≤ (beMinBytes n).length ∧ (beMinBytes n).length ≤ 8 ∧
    ∃ x t, beMinBytes n = x :: t ∧ x ≠ 0 := by
  -- 8 bytes suffice; fuel 9 changes nothing
  have h8 : n < 256 ^ 8 := by
    have : (256 : Nat) ^ 8 = 2 ^ 64 := by decide
    omega
  have e : beMin 9 n = beMin 8 n := by
    have : ∀ (f : Nat) (m : Nat), m < 256 ^ f → beMin (f + 1) m = beMin f m := by
      intro f
      induction f with
      | zero => intro m hm; simp at hm; subst hm; simp [beMin]
      | succ k ih =>
        intro m hm
        unfold beMin
        by_cases hm0 : m = 0
        · simp [hm0]
        · simp only [hm0, if_false]
          rw [ih (m / 256) (by
            rw [Nat.pow_succ] at hm
            exact Nat.div_lt_of_lt_mul (by rw [Nat.mul_comm]; exact hm))]
    exact this 8 n h8
  unfold beMinBytes
  rw [e]
  obtain ⟨h1, h2, h3⟩ := beMin_spec 8 n h8
  obtain ⟨x, t, hx, hne⟩ := h3 h0
  exact ⟨h1, by rw [hx]; simp, h2, x, t, hx, hne⟩


theorem u8 (n : Nat) (h : n < 256) : (UInt8.ofNat n).toNat = n := by
  simp [UInt8.toNat_ofNat']; omega

/-- reading the size bytes written by `header` for a long payload -/
theorem readUint_beMinBytes (len : Nat) (h56 : 56 ≤ len) (h : len < 2 ^ 64) (rest : Bytes) (tl : Err) :
    readUint (beMinBytes len).length (beMinBytes len ++ rest) tl = .ok (len, rest) := by
  obtain ⟨hv, h1, h8, x, t, hx, hne⟩ := beMinBytes_spec len (by omega) h
  unfold readUint
  have hk : ¬ (beMinBytes len).length = 0 := by omega
  simp only [hk, if_false]
  have hlen : ¬ (beMinBytes len ++ rest).length < (beMinBytes len).length := by simp
  simp only [hlen, if_false]
  have htake : (beMinBytes len ++ rest).take (beMinBytes len).length = beMinBytes len := by
    rw [List.take_append_of_le_length (Nat.le_refl _), List.take_of_length_le (Nat.le_refl _)]
  have hdrop : (beMinBytes len ++ rest).drop (beMinBytes len).length = rest := by
    rw [List.drop_append_of_le_length (Nat.le_refl _), List.drop_of_length_le (Nat.le_refl _)]; rfl
  rw [htake, hdrop, hv]
  have hh : ¬ ((beMinBytes len).length ≥ 2 ∧ (beMinBytes len).head? = some 0) := by
    rw [hx]; simp; intro _; exact hne
  simp [hh]

/-- `readKind` undoes `header` (strings) -/
theorem readKind_header_str (len : Nat) (h : len < 2 ^ 64) (rest : Bytes) (tl : Err)
    (hnot1 : True) :
    readKind (header 0x80 0xB7 len ++ rest) tl = .ok (.str len, rest) := by
  unfold header
  by_cases h56 : len < 56
  · simp only [h56, if_true, List.cons_append, List.nil_append]
    unfold readKind
    have e : (UInt8.ofNat (0x80 + len)).toNat = 0x80 + len := u8 _ (by omega)
    simp only [e]
    have h1 : ¬ (0x80 + len < 0x80) := by omega
    have h2 : 0x80 + len < 0xB8 := by omega
    simp only [h1, h2, if_false, if_true]
    have e3 : 0x80 + len - 0x80 = len := by omega
    rw [e3]
  · simp only [h56, if_false, List.cons_append]
    obtain ⟨_, hk1, hk8, _⟩ := beMinBytes_spec len (by omega) h
    unfold readKind
    have e : (UInt8.ofNat (0xB7 + (beMinBytes len).length)).toNat = 0xB7 + (beMinBytes len).length :=
      u8 _ (by omega)
    simp only [e]
    have h1 : ¬ (0xB7 + (beMinBytes len).length < 0x80) := by omega
    have h2 : ¬ (0xB7 + (beMinBytes len).length < 0xB8) := by omega
    have h3 : 0xB7 + (beMinBytes len).length < 0xC0 := by omega
    simp only [h1, h2, h3, if_false, if_true]
    have e2 : 0xB7 + (beMinBytes len).length - 0xB7 = (beMinBytes len).length := by omega
    rw [e2, readUint_beMinBytes len (by omega) h rest tl]
    simp [h56]

/-- `readKind` undoes `header` (lists) -/
theorem readKind_header_list (len : Nat) (h : len < 2 ^ 64) (rest : Bytes) (tl : Err) :
    readKind (header 0xC0 0xF7 len ++ rest) tl = .ok (.list len, rest) := by
  unfold header
  by_cases h56 : len < 56
  · simp only [h56, if_true, List.cons_append, List.nil_append]
    unfold readKind
    have e : (UInt8.ofNat (0xC0 + len)).toNat = 0xC0 + len := u8 _ (by omega)
    simp only [e]
    have h1 : ¬ (0xC0 + len < 0x80) := by omega
    have h2 : ¬ (0xC0 + len < 0xB8) := by omega
    have h3 : ¬ (0xC0 + len < 0xC0) := by omega
    have h4 : 0xC0 + len < 0xF8 := by omega
    simp only [h1, h2, h3, h4, if_false, if_true]
    have e3 : 0xC0 + len - 0xC0 = len := by omega
    rw [e3]
  · simp only [h56, if_false, List.cons_append]
    obtain ⟨_, hk1, hk8, _⟩ := beMinBytes_spec len (by omega) h
    unfold readKind
    have e : (UInt8.ofNat (0xF7 + (beMinBytes len).length)).toNat = 0xF7 + (beMinBytes len).length :=
      u8 _ (by omega)
    simp only [e]
    have h1 : ¬ (0xF7 + (beMinBytes len).length < 0x80) := by omega
    have h2 : ¬ (0xF7 + (beMinBytes len).length < 0xB8) := by omega
    have h3 : ¬ (0xF7 + (beMinBytes len).length < 0xC0) := by omega
    have h4 : ¬ (0xF7 + (beMinBytes len).length < 0xF8) := by omega
    simp only [h1, h2, h3, h4, if_false]
    have e2 : 0xF7 + (beMinBytes len).length - 0xF7 = (beMinBytes len).length := by omega
    rw [e2, readUint_beMinBytes len (by omega) h rest tl]
    simp [h56]

theorem header_length_pos (small large len : Nat) : 1 ≤ (header small large len).length := by
  unfold header; split <;> simp


mutual
/-- fuel the decoder needs for an item -/
def costOne : Item → Nat
  | .str _ => 1
  | .list l => 1 + costItems l
def costItems : List Item → Nat
  | [] => 0
  | x :: t => 1 + max (costOne x) (costItems t)
end

mutual
/-- every payload is shorter than 2^64 bytes (what `uint64` sizes can express) -/
def smallOne : Item → Prop
  | .str b => b.length < 2 ^ 64
  | .list l => (encodeList l).length < 2 ^ 64 ∧ smallItems l
def smallItems : List Item → Prop
  | [] => True
  | x :: t => smallOne x ∧ smallItems t
end

theorem encodeStr_length_pos (b : Bytes) : 1 ≤ (encodeStr b).length := by
  unfold encodeStr
  split
  · split
    · simp
    · have := header_length_pos 0x80 0xB7 1; simp only [List.length_append]; omega
  · have := header_length_pos 0x80 0xB7 b.length; simp only [List.length_append]; omega

theorem encodeStr_ne_nil (b : Bytes) : encodeStr b ≠ [] := by
  intro h; have := encodeStr_length_pos b; rw [h] at this; simp at this

theorem decodeItems_cons (f : Nat) (b : UInt8) (bs : Bytes) :
    decodeItems (f + 1) (b :: bs) =
      (match decodeOne f (b :: bs) .elemTooLarge with
       | .error e => .error e
       | .ok (x, rest) =>
         match decodeItems f rest with
         | .error e => .error e
         | .ok xs => .ok (x :: xs)) := by
  rw [decodeItems]
  all_goals first
    | rfl
    | (intro h; simp at h)

theorem encode_ne_nil (x : Item) : encode x ≠ [] := by
  cases x with
  | str b => rw [encode]; exact encodeStr_ne_nil b
  | list l =>
    rw [encode]
    have := header_length_pos 0xC0 0xF7 (encodeList l).length
    intro h; have h2 := congrArg List.length h
    simp only [List.length_append, List.length_nil] at h2; omega

theorem decodeOne_str (b : Bytes) (hb : b.length < 2 ^ 64) (fuel : Nat) (rest : Bytes) (tl : Err) :
    decodeOne (fuel + 1) (encodeStr b ++ rest) tl = .ok (.str b, rest) := by
  unfold encodeStr
  match b, hb with
  | [], _ =>
    simp only [List.length_nil, List.append_nil]
    rw [decodeOne, readKind_header_str 0 (by omega) rest tl trivial]
    simp
  | [x], _ =>
    simp only
    by_cases hx : x.toNat < 0x80
    · simp only [hx, if_true, List.cons_append, List.nil_append]
      rw [decodeOne]
      simp [readKind, hx]
    · simp only [hx, if_false]
      rw [decodeOne, List.append_assoc, readKind_header_str 1 (by omega) _ tl trivial]
      simp [hx]
  | x :: y :: t, hb =>
    simp only
    rw [decodeOne, List.append_assoc, readKind_header_str _ hb _ tl trivial]
    simp only
    have hl : ¬ ((x :: y :: t) ++ rest).length < (x :: y :: t).length := by simp
    simp only [hl, if_false]
    have htake : ((x :: y :: t) ++ rest).take (x :: y :: t).length = x :: y :: t := by
      rw [List.take_append_of_le_length (Nat.le_refl _), List.take_of_length_le (Nat.le_refl _)]
    have hdrop : ((x :: y :: t) ++ rest).drop (x :: y :: t).length = rest := by
      rw [List.drop_append_of_le_length (Nat.le_refl _), List.drop_of_length_le (Nat.le_refl _)]; rfl
    rw [htake, hdrop]
    simp

mutual
theorem decodeOne_encode : ∀ (x : Item) (fuel : Nat) (rest : Bytes) (tl : Err),
    smallOne x → costOne x ≤ fuel → decodeOne fuel (encode x ++ rest) tl = .ok (x, rest)
  | .str b, fuel, rest, tl, hs, hc => by
    rw [costOne] at hc
    rw [smallOne] at hs
    obtain ⟨f, rfl⟩ : ∃ f, fuel = f + 1 := ⟨fuel - 1, by omega⟩
    rw [encode]; exact decodeOne_str b hs f rest tl
  | .list l, fuel, rest, tl, hs, hc => by
    rw [costOne] at hc
    rw [smallOne] at hs
    obtain ⟨f, rfl⟩ : ∃ f, fuel = f + 1 := ⟨fuel - 1, by omega⟩
    rw [encode, decodeOne, List.append_assoc, readKind_header_list _ hs.1 _ tl]
    simp only
    have hl : ¬ (encodeList l ++ rest).length < (encodeList l).length := by simp
    simp only [hl, if_false]
    have htake : (encodeList l ++ rest).take (encodeList l).length = encodeList l := by
      rw [List.take_append_of_le_length (Nat.le_refl _), List.take_of_length_le (Nat.le_refl _)]
    have hdrop : (encodeList l ++ rest).drop (encodeList l).length = rest := by
      rw [List.drop_append_of_le_length (Nat.le_refl _), List.drop_of_length_le (Nat.le_refl _)]; rfl
    rw [htake, hdrop, decodeItems_encodeList l f hs.2 (by omega)]
theorem decodeItems_encodeList : ∀ (l : List Item) (fuel : Nat),
    smallItems l → costItems l ≤ fuel → decodeItems fuel (encodeList l) = .ok l
  | [], fuel, _, _ => by
    rw [encodeList]; cases fuel <;> simp [decodeItems]
  | x :: t, fuel, hs, hc => by
    rw [costItems] at hc
    rw [smallItems] at hs
    obtain ⟨f, rfl⟩ : ∃ f, fuel = f + 1 := ⟨fuel - 1, by omega⟩
    rw [encodeList]
    have hne : encode x ++ encodeList t ≠ [] := by
      intro h; exact encode_ne_nil x (List.append_eq_nil_iff.mp h).1
    cases hinp : encode x ++ encodeList t with
    | nil => exact absurd hinp hne
    | cons b bs =>
      rw [decodeItems_cons, ← hinp, decodeOne_encode x f (encodeList t) .elemTooLarge hs.1 (by omega)]
      simp only
      rw [decodeItems_encodeList t f hs.2 (by omega)]
end

mutual
theorem costOne_le : ∀ (x : Item), costOne x + 1 ≤ 2 * (encode x).length
  | .str b => by
    rw [costOne, encode]
    have : 1 ≤ (encodeStr b).length := by
      have := encodeStr_ne_nil b
      cases h : encodeStr b with
      | nil => exact absurd h this
      | cons _ _ => simp
    omega
  | .list l => by
    rw [costOne, encode]
    have := costItems_le l
    have := header_length_pos 0xC0 0xF7 (encodeList l).length
    simp only [List.length_append]; omega
theorem costItems_le : ∀ (l : List Item), costItems l ≤ 2 * (encodeList l).length
  | [] => by rw [costItems]; omega
  | x :: t => by
    rw [costItems, encodeList]
    have := costOne_le x
    have := costItems_le t
    simp only [List.length_append]; omega
end

/-- C18 RLP ROUND TRIP: decoding the encoding of any item tree gives that tree back — for every
    nesting depth and every payload size below 2^64. -/
theorem decode_encode (x : Item) (hs : smallOne x) : decode (encode x) = .ok x := by
  unfold decode
  have hc := costOne_le x
  have := decodeOne_encode x (2 * (encode x).length + 2) [] .eof hs (by omega)
  rw [List.append_nil] at this
  rw [this]

end AnnVerif.Rlp
