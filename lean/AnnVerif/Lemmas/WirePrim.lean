import AnnVerif.Model.WirePrim
import AnnVerif.Lemmas.Wire0
namespace AnnVerif.WirePrim
open AnnVerif

theorem beVal_append (xs : Bytes) (b : UInt8) : beVal (xs ++ [b]) = beVal xs * 256 + b.toNat := by
  unfold beVal; simp [List.foldl_append]

theorem beVal_foldl_shift (xs : Bytes) (a : Nat) :
    xs.foldl (fun acc b => acc * 256 + b.toNat) a = a * 256 ^ xs.length + beVal xs := by
  induction xs generalizing a with
  | nil => simp [beVal]
  | cons x t ih =>
    simp only [List.foldl_cons, beVal, List.length_cons]
    rw [ih, ih (0 * 256 + x.toNat)]
    rw [Nat.pow_succ]
    simp [Nat.add_mul, Nat.mul_assoc, Nat.mul_comm 256]
    omega

/-- reading back the k big-endian bytes of n gives n mod 256^k -/
theorem beVal_beBytes (k n : Nat) : beVal (beBytes k n) = n % 256 ^ k := by
  induction k with
  | zero => simp [beBytes, beVal, Nat.mod_one]
  | succ k ih =>
    simp only [beBytes, beVal, List.foldl_cons]
    rw [beVal_foldl_shift, beBytes_length, ih]
    simp only [UInt8.toNat_ofNat', Nat.zero_mul, Nat.zero_add]
    have h1 : n / 256 ^ k % 256 % 256 = n / 256 ^ k % 256 := Nat.mod_mod _ _
    rw [show (2 : Nat) ^ 8 = 256 from rfl, h1]
    rw [Nat.pow_succ, Nat.mod_mul]
    rw [Nat.mul_comm]; omega

theorem toInt64_of_lt (u : Nat) (h : u < 2 ^ 63) : toInt64 u = u := by
  unfold toInt64
  have : u % 2 ^ 64 = u := Nat.mod_eq_of_lt (by omega)
  simp [this]; omega

theorem uvarintSize_pos (n : Nat) (h : 0 < n) : 0 < uvarintSize n := by
  unfold uvarintSize
  have : n ≠ 0 := by omega
  simp only [this, if_false]
  repeat' split
  all_goals omega

/-- C18 varint ROUND TRIP for every int64 except the sign-bit corner handled separately:
    non-negative values -/
theorem readVarint_writeVarint_nonneg (i : Int) (h0 : 0 ≤ i) (h1 : i < 2 ^ 63) (rest : Bytes) :
    readVarint (writeVarint i ++ rest) = .ok i rest := by
  unfold writeVarint
  have hneg : ¬ i < 0 := by omega
  simp only [hneg, if_false, List.cons_append]
  unfold readVarint
  have hsz := uvarintSize_le i.toNat
  have htn : (UInt8.ofNat (uvarintSize i.toNat)).toNat = uvarintSize i.toNat := by
    simp [UInt8.toNat_ofNat']; omega
  simp only [htn]
  have hnf : ¬ (uvarintSize i.toNat / 16 = 0xF) := by omega
  simp only [hnf, if_false]
  by_cases hz : uvarintSize i.toNat = 0
  · have : i.toNat = 0 := by
      by_cases h : i.toNat = 0
      · exact h
      · exact absurd hz (by have := uvarintSize_pos i.toNat (by omega); omega)
    simp [hz, beBytes]; omega
  · have hgt : ¬ uvarintSize i.toNat > 8 := by omega
    simp only [hgt, if_false, hz]
    have hlen : ¬ (beBytes (uvarintSize i.toNat) i.toNat ++ rest).length < uvarintSize i.toNat := by
      simp [beBytes_length]
    simp only [hlen, if_false]
    have htake : (beBytes (uvarintSize i.toNat) i.toNat ++ rest).take (uvarintSize i.toNat) =
        beBytes (uvarintSize i.toNat) i.toNat := by
      rw [List.take_append_of_le_length (by simp [beBytes_length])]
      rw [List.take_of_length_le (by simp [beBytes_length])]
    have hdrop : (beBytes (uvarintSize i.toNat) i.toNat ++ rest).drop (uvarintSize i.toNat) = rest := by
      rw [List.drop_append_of_le_length (by simp [beBytes_length])]
      rw [List.drop_of_length_le (by simp [beBytes_length])]; rfl
    rw [htake, hdrop, beVal_beBytes]
    have hb := uvarintSize_bound i.toNat (by omega)
    rw [Nat.mod_eq_of_lt hb, toInt64_of_lt _ (by omega)]
    congr 1; omega

/-- decoding never panics: every byte string gives a value or an error -/
theorem readVarint_total (inp : Bytes) : readVarint inp ≠ .panic := by
  unfold readVarint
  cases inp with
  | nil => simp
  | cons sb rest =>
    simp only
    repeat' split
    all_goals simp

theorem readByteSlice_total (lmt n0 : Nat) (inp : Bytes) : (readByteSlice lmt n0 inp).1 ≠ .panic := by
  unfold readByteSlice
  cases h : readVarint inp with
  | panic => exact absurd h (readVarint_total inp)
  | err e => simp
  | ok len rest =>
    simp only
    repeat' split
    all_goals simp

/-- BOUNDED ALLOCATION: with a limit in force, `ReadByteSlice` never allocates more than the limit,
    whatever length the input claims -/
theorem readByteSlice_alloc_le (lmt n0 : Nat) (hl : lmt ≠ 0) (inp : Bytes) :
    (readByteSlice lmt n0 inp).2 ≤ lmt := by
  unfold readByteSlice
  cases h : readVarint inp with
  | panic => simp
  | err e => simp
  | ok len rest =>
    simp only
    split
    · simp
    · rename_i hneg
      split
      · simp
      · rename_i hlim
        have : (len : Int) ≤ lmt := by
          have h1 : ¬ ((lmt : Int) < max len ((n0 + (inp.length - rest.length) : Nat) + len)) := by
            intro hh; exact hlim ⟨hl, hh⟩
          have := Int.le_max_left len ((n0 + (inp.length - rest.length) : Nat) + len)
          omega
        split <;> (simp only; omega)

/-- C18 (repaired) `ReadTime` never panics; AS FOUND it panics on any value that is not a whole
    number of milliseconds, e.g. the 8 bytes 00 … 01. -/
theorem readTime_total_repaired (inp : Bytes) : readTime repaired inp ≠ .panic := by
  unfold readTime
  by_cases h1 : inp.length < 8
  · simp [h1]
  · simp only [h1, if_false]
    by_cases h2 : Int.tmod (toInt64 (beVal (inp.take 8))) 1000000 ≠ 0
    · simp [h2, repaired]
    · simp [h2]

theorem readTime_asFound_panics : readTime asFound [0, 0, 0, 0, 0, 0, 0, 1] = .panic := by
  decide

/-- time round trip: what `WriteTime` writes, `ReadTime` accepts (a whole number of ms) -/
theorem readTime_writeTime (cfg : Cfg) (ms : Int) (h0 : 0 ≤ ms) (h1 : ms * 1000000 < 2 ^ 63)
    (rest : Bytes) : readTime cfg (writeTime (ms * 1000000) ++ rest) = .ok (ms * 1000000) rest := by
  unfold writeTime readTime
  dsimp only
  have hdiv : Int.tdiv (ms * 1000000) 1000000 = ms := by
    rw [Int.tdiv_eq_ediv_of_nonneg (by omega)]; omega
  rw [hdiv]
  have hmod : (ms * 1000000) % ((2 ^ 64 : Nat) : Int) = ms * 1000000 := by
    apply Int.emod_eq_of_lt <;> omega
  rw [hmod]
  have hlen : ¬ (beBytes 8 (ms * 1000000).toNat ++ rest).length < 8 := by simp [beBytes_length]
  simp only [hlen, if_false]
  have htake : (beBytes 8 (ms * 1000000).toNat ++ rest).take 8 = beBytes 8 (ms * 1000000).toNat := by
    rw [List.take_append_of_le_length (by simp [beBytes_length])]
    rw [List.take_of_length_le (by simp [beBytes_length])]
  have hdrop : (beBytes 8 (ms * 1000000).toNat ++ rest).drop 8 = rest := by
    rw [List.drop_append_of_le_length (by simp [beBytes_length])]
    rw [List.drop_of_length_le (by simp [beBytes_length])]; rfl
  rw [htake, hdrop, beVal_beBytes]
  have : (ms * 1000000).toNat % 256 ^ 8 = (ms * 1000000).toNat := Nat.mod_eq_of_lt (by omega)
  rw [this, toInt64_of_lt _ (by omega)]
  have e : (((ms * 1000000).toNat : Nat) : Int) = ms * 1000000 := by omega
  rw [e]
  have : Int.tmod (ms * 1000000) 1000000 = 0 := by
    rw [Int.tmod_eq_emod_of_nonneg (by omega)]; omega
  simp [this]

end AnnVerif.WirePrim
