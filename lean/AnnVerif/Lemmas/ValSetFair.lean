import AnnVerif.Model.ValSet
import AnnVerif.Lemmas.Fairness
namespace AnnVerif.ValSet
open AnnVerif.Fairness

theorem amax_spec : ∀ xs : List Int, xs ≠ [] →
    (amax xs).1 < xs.length ∧ xs[(amax xs).1]? = some (amax xs).2 ∧
    ∀ (j : Nat) (v : Int), xs[j]? = some v → v ≤ (amax xs).2 := by
  intro xs
  induction xs with
  | nil => intro h; exact absurd rfl h
  | cons x t ih =>
    intro _
    cases t with
    | nil =>
      refine ⟨by simp [amax], by simp [amax], ?_⟩
      intro j v hv
      cases j with
      | zero => simp at hv; subst hv; simp [amax]
      | succ k => simp at hv
    | cons y t' =>
      obtain ⟨h1, h2, h3⟩ := ih (by simp)
      simp only [amax]
      by_cases hx : x ≥ (amax (y :: t')).2
      · simp only [hx, if_true]
        refine ⟨by simp, by simp, ?_⟩
        intro j v hv
        cases j with
        | zero => simp at hv; omega
        | succ k => have := h3 k v (by simpa using hv); omega
      · simp only [hx, if_false]
        refine ⟨by simp at h1 ⊢; omega, by simpa using h2, ?_⟩
        intro j v hv
        cases j with
        | zero => simp at hv; omega
        | succ k => exact h3 k v (by simpa using hv)

/-- one round on the bare accum list: add the powers, pick the first maximum, subtract the total -/
def stepAcc (ws : List Int) (T : Int) (accs : List Int) : List Int × Nat :=
  let x := List.zipWith (· + ·) accs ws
  (x.modify (argmaxFirst x) (· - T), argmaxFirst x)

section
variable (ws : List Int) (T : Int)

def accsAt : Nat → List Int
  | 0 => List.replicate ws.length 0
  | n + 1 => (stepAcc ws T (accsAt n)).1

def chAt (n : Nat) : Nat := (stepAcc ws T (accsAt ws T n)).2

def wf (j : Nat) : Int := (ws[j]?).getD 0

theorem accsAt_length (n : Nat) : (accsAt ws T n).length = ws.length := by
  induction n with
  | zero => simp [accsAt]
  | succ k ih => simp [accsAt, stepAcc, ih]

/-- the list model follows the closed form `n·w_j − T·cnt_j` of Lemmas/Fairness -/
theorem accsAt_closed (n : Nat) : ∀ j, j < ws.length →
    (accsAt ws T n)[j]? = some (acc (wf ws) T (chAt ws T) n j) := by
  induction n with
  | zero => intro j hj; simp [accsAt, acc, cnt, hj]
  | succ k ih =>
    intro j hj
    have hl := accsAt_length ws T k
    simp only [accsAt, stepAcc]
    have hx : (List.zipWith (· + ·) (accsAt ws T k) ws)[j]? =
        some (acc (wf ws) T (chAt ws T) k j + wf ws j) := by
      rw [List.getElem?_zipWith, ih j hj]
      simp [wf, List.getElem?_eq_getElem hj]
    rw [List.getElem?_modify, hx]
    have hch : argmaxFirst (List.zipWith (· + ·) (accsAt ws T k) ws) = chAt ws T k := rfl
    rw [hch]
    simp only [acc, cnt]
    by_cases hc : chAt ws T k = j
    · simp only [hc, if_true]
      congr 1
      rw [Int.mul_add, Int.natCast_add, Int.add_mul]; simp; omega
    · simp only [hc, if_false]
      congr 1
      rw [Int.natCast_add, Int.add_mul]; simp; omega

theorem chAt_valid (hN : ws ≠ []) (n : Nat) : ValidAt ws.length (wf ws) T (chAt ws T) n := by
  have hl := accsAt_length ws T n
  have hne : List.zipWith (· + ·) (accsAt ws T n) ws ≠ [] := by
    intro h
    have := congrArg List.length h
    simp [hl] at this
    exact hN this
  obtain ⟨h1, h2, h3⟩ := amax_spec _ hne
  have hlen : (List.zipWith (· + ·) (accsAt ws T n) ws).length = ws.length := by simp [hl]
  have hx : ∀ j, j < ws.length → (List.zipWith (· + ·) (accsAt ws T n) ws)[j]? =
      some (acc (wf ws) T (chAt ws T) n j + wf ws j) := by
    intro j hj
    rw [List.getElem?_zipWith, accsAt_closed ws T n j hj]
    simp [wf, List.getElem?_eq_getElem hj]
  have hci : chAt ws T n < ws.length := by
    show argmaxFirst _ < _
    unfold argmaxFirst; omega
  refine ⟨hci, fun j hj => ?_⟩
  have hm : (List.zipWith (· + ·) (accsAt ws T n) ws)[chAt ws T n]? = some (amax _).2 := h2
  rw [hx _ hci] at hm
  have := h3 j _ (hx j hj)
  simp at hm
  omega

end

theorem S_shift (n : Nat) (f : Nat → Int) : S (n + 1) f = f 0 + S n (fun j => f (j + 1)) := by
  induction n with
  | zero => simp [S]
  | succ k ih => rw [S, ih]; simp only [S]; omega

theorem S_wf (l : List Int) : S l.length (wf l) = l.sum := by
  induction l with
  | nil => simp [S]
  | cons x t ih =>
    rw [List.length_cons, S_shift]
    have : S t.length (fun j => wf (x :: t) (j + 1)) = S t.length (wf t) :=
      S_congr _ _ _ (fun j _ => by simp [wf])
    rw [this, ih]; simp [wf]

/-- FAIRNESS for the list model: from zero accums, in `T = Σ powers` consecutive single increments
    (first-maximum tie-break, i.e. lowest address) validator `j` is chosen exactly `power j` times
    and all accums are zero again. -/
theorem stepAcc_fair (ws : List Int) (hw : ∀ p ∈ ws, 0 ≤ p) (T : Int) (hT : T = ws.sum)
    (hTpos : 0 < T) :
    (∀ j, j < ws.length → cnt (chAt ws T) T.toNat j = wf ws j) ∧
    accsAt ws T T.toNat = List.replicate ws.length 0 := by
  have hN : ws ≠ [] := by intro h; subst h; simp at hT; omega
  have hwf : ∀ j, j < ws.length → 0 ≤ wf ws j := by
    intro j hj; simp only [wf, List.getElem?_eq_getElem hj, Option.getD_some]
    exact hw _ (List.getElem_mem hj)
  obtain ⟨h1, h2⟩ := fair ws.length (wf ws) T (chAt ws T) hwf (by rw [S_wf]; exact hT) hTpos
    (fun n _ => chAt_valid ws T hN n)
  refine ⟨h1, ?_⟩
  apply List.ext_getElem?
  intro j
  by_cases hj : j < ws.length
  · rw [accsAt_closed ws T _ j hj, h2 j hj]; simp [hj]
  · have hl := accsAt_length ws T T.toNat
    rw [List.getElem?_eq_none (by omega), List.getElem?_eq_none (by simp; omega)]


/-! ### the ValidatorSet model refines the bare accum list -/

theorem incrOnce_refines (vs : ValSet) (T : Int) (hT : T = sumPower vs.vals)
    (hc : vs.total = 0 ∨ vs.total = T) (hne : vs.vals ≠ []) :
    (incrOnce vs).vals.map (·.accum) =
      (stepAcc (vs.vals.map (·.power)) T (vs.vals.map (·.accum))).1 ∧
    (incrOnce vs).vals.map (·.power) = vs.vals.map (·.power) ∧
    (incrOnce vs).vals.map (·.addr) = vs.vals.map (·.addr) ∧
    (incrOnce vs).proposer =
      (vs.vals[(stepAcc (vs.vals.map (·.power)) T (vs.vals.map (·.accum))).2]?).map (·.addr) ∧
    ((incrOnce vs).total = 0 ∨ (incrOnce vs).total = T) := by
  have htv : (totalVotingPower vs).2 = T ∧ ((totalVotingPower vs).1.vals = vs.vals) ∧
      ((totalVotingPower vs).1.total = 0 ∨ (totalVotingPower vs).1.total = T) := by
    unfold totalVotingPower
    rcases hc with h | h
    · simp [h, hT]
    · by_cases h0 : vs.total = 0
      · simp [h0, hT]
      · have hT0 : ¬ T = 0 := h ▸ h0
        simp [h, hT0]
  obtain ⟨ht, hv, hcache⟩ := htv
  have hmapne : (vs.vals.map fun v => ({ v with accum := v.accum + v.power } : Val)) ≠ [] := by
    simpa using hne
  have hacc : ((vs.vals.map fun v => ({ v with accum := v.accum + v.power } : Val)).map (·.accum)) =
      List.zipWith (· + ·) (vs.vals.map (·.accum)) (vs.vals.map (·.power)) := by
    apply List.ext_getElem?; intro j
    simp [List.getElem?_zipWith, List.getElem?_map]
    cases vs.vals[j]? <;> simp
  unfold incrOnce
  rw [show totalVotingPower vs = ((totalVotingPower vs).1, (totalVotingPower vs).2) from rfl]
  simp only [hv, ht]
  simp only [stepAcc, ← hacc]
  refine ⟨?_, ?_, ?_, ?_, hcache⟩
  · apply List.ext_getElem?; intro j
    simp only [List.getElem?_map, List.getElem?_modify]
    cases vs.vals[j]? <;> simp <;> split <;> simp
  · apply List.ext_getElem?; intro j
    simp only [List.getElem?_map, List.getElem?_modify]
    cases vs.vals[j]? <;> simp <;> split <;> simp
  · apply List.ext_getElem?; intro j
    simp only [List.getElem?_map, List.getElem?_modify]
    cases vs.vals[j]? <;> simp <;> split <;> simp
  · simp only [List.getElem?_map]
    cases vs.vals[argmaxFirst _]? <;> simp


theorem iter_succ' (f : α → α) (n : Nat) (a : α) : iter f (n + 1) a = f (iter f n a) := by
  induction n generalizing a with
  | zero => rfl
  | succ k ih => rw [iter, ih]; rfl

theorem iter_add (f : α → α) (m n : Nat) (a : α) : iter f (m + n) a = iter f n (iter f m a) := by
  induction m generalizing a with
  | zero => simp [iter]
  | succ k ih => rw [Nat.succ_add, iter, ih]; rfl

/-- `n` single increments of a validator set whose accums start at zero follow `accsAt` -/
theorem iter_incrOnce_refines (vs0 : ValSet) (T : Int) (hT : T = sumPower vs0.vals)
    (hc : vs0.total = 0 ∨ vs0.total = T) (hne : vs0.vals ≠ [])
    (hz : vs0.vals.map (·.accum) = List.replicate vs0.vals.length 0) (n : Nat) :
    (iter incrOnce n vs0).vals.map (·.accum) = accsAt (vs0.vals.map (·.power)) T n ∧
    (iter incrOnce n vs0).vals.map (·.power) = vs0.vals.map (·.power) ∧
    (iter incrOnce n vs0).vals.map (·.addr) = vs0.vals.map (·.addr) ∧
    ((iter incrOnce n vs0).total = 0 ∨ (iter incrOnce n vs0).total = T) ∧
    (∀ m, n = m + 1 → (iter incrOnce n vs0).proposer =
      (vs0.vals[chAt (vs0.vals.map (·.power)) T m]?).map (·.addr)) := by
  induction n with
  | zero => exact ⟨by simp [iter, accsAt, hz], rfl, rfl, hc, fun m h => by omega⟩
  | succ k ih =>
    obtain ⟨h1, h2, h3, h4, _⟩ := ih
    rw [iter_succ']
    have hne' : (iter incrOnce k vs0).vals ≠ [] := by
      intro h; rw [h] at h2; simp at h2; exact hne h2
    have hT' : T = sumPower (iter incrOnce k vs0).vals := by
      unfold sumPower at hT ⊢; rw [h2]; exact hT
    obtain ⟨r1, r2, r3, r4, r5⟩ := incrOnce_refines (iter incrOnce k vs0) T hT' h4 hne'
    refine ⟨?_, by rw [r2, h2], by rw [r3, h3], r5, ?_⟩
    · rw [r1, h1, h2]; rfl
    · intro m hm
      have : m = k := by omega
      subst this
      rw [r4, h1, h2]
      show ((iter incrOnce m vs0).vals[chAt _ T m]?).map _ = _
      have e : ∀ (i : Nat), ((iter incrOnce m vs0).vals[i]?).map (·.addr) = (vs0.vals[i]?).map (·.addr) := by
        intro i
        have := congrArg (fun l => l[i]?) h3
        simpa [List.getElem?_map] using this
      exact e _

end AnnVerif.ValSet
