/-
  The consensus state machine never goes back: over every run, (height, round, step) only grows in
  the lexicographic order — for every peer message, own message and timeout, whatever the fields.
  (Model/Node.lean; every `enter*` function guards on exactly this.)  Used by C04 (a lock taken in a
  round is never followed by a vote of an earlier round), C03 (the signer sees non-decreasing
  height/round/step) and C12 (progress is never undone).
-/
import AnnVerif.Lemmas.Assembled

namespace AnnVerif.Node

/-- lexicographic order on (height, round, step) -/
def Le (a b : Node) : Prop :=
  a.height < b.height ∨ (a.height = b.height ∧ (a.round < b.round ∨ (a.round = b.round ∧ a.step.toNat ≤ b.step.toNat)))

structure SameHRS (a b : Node) : Prop where
  h : b.height = a.height
  r : b.round = a.round
  s : b.step = a.step

theorem SameHRS.rfl' (n : Node) : SameHRS n n := ⟨rfl, rfl, rfl⟩
theorem SameHRS.trans {a b c : Node} (x : SameHRS a b) (y : SameHRS b c) : SameHRS a c :=
  ⟨y.h.trans x.h, y.r.trans x.r, y.s.trans x.s⟩

theorem Le.rfl' (n : Node) : Le n n := Or.inr ⟨rfl, Or.inr ⟨rfl, Nat.le_refl _⟩⟩

theorem Le.trans {a b c : Node} (x : Le a b) (y : Le b c) : Le a c := by
  unfold Le at *
  rcases x with x | ⟨xh, x | ⟨xr, xs⟩⟩ <;> rcases y with y | ⟨yh, y | ⟨yr, ys⟩⟩
  all_goals first
    | (left; omega)
    | (right; refine ⟨by omega, ?_⟩; first | (left; omega) | (right; exact ⟨by omega, by omega⟩))

theorem Le.of_same {a b : Node} (x : SameHRS a b) : Le a b :=
  Or.inr ⟨x.h.symm, Or.inr ⟨x.r.symm, by rw [x.s]; exact Nat.le_refl _⟩⟩

theorem Le.then_same {a b c : Node} (x : Le a b) (y : SameHRS b c) : Le a c := x.trans (Le.of_same y)
theorem Le.after_same {a b c : Node} (x : SameHRS a b) (y : Le b c) : Le a c := (Le.of_same x).trans y

/-- entering (round r, step s) of the same height from a state the guard lets through -/
theorem Le.enter {a b : Node} (hh : b.height = a.height) (hr : a.round ≤ b.round)
    (hs : a.round = b.round → a.step.toNat ≤ b.step.toNat) : Le a b := by
  unfold Le
  right
  refine ⟨hh.symm, ?_⟩
  by_cases e : a.round = b.round
  · exact Or.inr ⟨e, hs e⟩
  · left; omega

theorem hrs_emit (n : Node) (e : Emit) : SameHRS n (emit n e) := ⟨rfl, rfl, rfl⟩

theorem hrs_signAddVote (n : Node) (t : Nat) (bid : VoteSet.BlockID) : SameHRS n (signAddVote n t bid) := by
  unfold signAddVote
  split
  · dsimp only
    split <;> exact ⟨rfl, rfl, rfl⟩
  · exact SameHRS.rfl' n

theorem hrs_sign_of {n : Node} (m : Node) {t : Nat} {bid : VoteSet.BlockID} (sm : SameHRS n m) :
    SameHRS n (signAddVote m t bid) := sm.trans (hrs_signAddVote _ _ _)

theorem hrs_doPrevote (n : Node) : SameHRS n (doPrevote n) := by
  unfold doPrevote
  split
  · exact hrs_signAddVote _ _ _
  · split
    · exact hrs_signAddVote _ _ _
    · split <;> exact hrs_signAddVote _ _ _

theorem hrs_decideProposal (n : Node) (h r : Int) : SameHRS n (decideProposal n h r) := by
  unfold decideProposal
  extract_lets own block pol p res m
  have hm : SameHRS n m := by
    unfold m
    split <;> exact ⟨rfl, rfl, rfl⟩
  split
  · split
    · exact hm.trans ⟨rfl, rfl, rfl⟩
    · exact ⟨rfl, rfl, rfl⟩
  · exact ⟨rfl, rfl, rfl⟩

theorem hrs_setRound (n : Node) (r : Int) : SameHRS n (setRound n r) := by
  unfold setRound
  split <;> exact ⟨rfl, rfl, rfl⟩

theorem hrs_unlock (n : Node) : SameHRS n (unlock n) := ⟨rfl, rfl, rfl⟩

theorem step_lt_of_not_le {s : Step} {n : Node} (h : ¬ s ≤ n.step) : n.step.toNat < s.toNat :=
  Nat.lt_of_not_le h

theorem le_enterPrevote (n : Node) (h r : Int) : Le n (enterPrevote n h r) := by
  unfold enterPrevote
  split
  · exact Le.rfl' n
  · rename_i hg
    have s := hrs_doPrevote n
    apply Le.enter
    · exact s.h
    · show n.round ≤ r; omega
    · intro e
      show n.step.toNat ≤ Step.prevote.toNat
      have : ¬ Step.prevote ≤ n.step := fun hh => hg (Or.inr (Or.inr ⟨e, hh⟩))
      exact Nat.le_of_lt (step_lt_of_not_le this)

theorem le_enterPrevoteWait (n : Node) (h r : Int) : Le n (enterPrevoteWait n h r) := by
  unfold enterPrevoteWait
  split
  · exact Le.rfl' n
  · rename_i hg
    split
    · exact Le.of_same (hrs_emit _ _)
    · apply Le.enter
      · rfl
      · show n.round ≤ r; omega
      · intro e
        show n.step.toNat ≤ Step.prevoteWait.toNat
        have : ¬ Step.prevoteWait ≤ n.step := fun hh => hg (Or.inr (Or.inr ⟨e, hh⟩))
        exact Nat.le_of_lt (step_lt_of_not_le this)

theorem le_enterPrecommitWait (n : Node) (h r : Int) : Le n (enterPrecommitWait n h r) := by
  unfold enterPrecommitWait
  split
  · exact Le.rfl' n
  · rename_i hg
    split
    · exact Le.of_same (hrs_emit _ _)
    · apply Le.enter
      · rfl
      · show n.round ≤ r; omega
      · intro e
        show n.step.toNat ≤ Step.precommitWait.toNat
        have : ¬ Step.precommitWait ≤ n.step := fun hh => hg (Or.inr (Or.inr ⟨e, hh⟩))
        exact Nat.le_of_lt (step_lt_of_not_le this)

theorem le_enterPropose (n : Node) (h r : Int) : Le n (enterPropose n h r) := by
  unfold enterPropose
  split
  · exact Le.rfl' n
  · rename_i hg
    extract_lets n1 n2 n3
    have s1 : SameHRS n n1 := hrs_emit _ _
    have s2 : SameHRS n n2 := by
      unfold n2
      split
      · split
        · exact s1.trans (hrs_decideProposal _ _ _)
        · exact s1
      · exact s1
    have l3 : Le n n3 := by
      apply Le.enter
      · exact s2.h
      · show n.round ≤ r; omega
      · intro e
        show n.step.toNat ≤ Step.propose.toNat
        have : ¬ Step.propose ≤ n.step := fun hh => hg (Or.inr (Or.inr ⟨e, hh⟩))
        exact Nat.le_of_lt (step_lt_of_not_le this)
    split
    · exact l3.trans (le_enterPrevote _ _ _)
    · exact l3

theorem le_enterNewRound (n : Node) (h r : Int) : Le n (enterNewRound n h r) := by
  unfold enterNewRound
  split
  · exact Le.rfl' n
  · rename_i hg
    extract_lets vals n1 n2 n3
    have l1 : Le n n1 := by
      apply Le.enter
      · rfl
      · show n.round ≤ r; omega
      · intro e
        show n.step.toNat ≤ Step.newRound.toNat
        have : n.step = .newHeight := Classical.not_not.mp (fun hh => hg (Or.inr (Or.inr ⟨e, hh⟩)))
        rw [this]; decide
    have s2 : SameHRS n1 n2 := by
      unfold n2
      split <;> exact ⟨rfl, rfl, rfl⟩
    have s3 : SameHRS n2 n3 := hrs_setRound _ _
    exact ((l1.then_same s2).then_same s3).trans (le_enterPropose _ _ _)

theorem le_enterPrecommit (n : Node) (h r : Int) : Le n (enterPrecommit n h r) := by
  unfold enterPrecommit
  split
  · exact Le.rfl' n
  · rename_i hg
    extract_lets fin
    have key : ∀ m : Node, SameHRS n m → Le n (fin m) := by
      intro m sm
      apply Le.enter
      · exact sm.h
      · show n.round ≤ r; omega
      · intro e
        show n.step.toNat ≤ Step.precommit.toNat
        have : ¬ Step.precommit ≤ n.step := fun hh => hg (Or.inr (Or.inr ⟨e, hh⟩))
        exact Nat.le_of_lt (step_lt_of_not_le this)
    split
    · exact key _ (hrs_signAddVote _ _ _)
    · split
      · exact key _ (hrs_emit _ _)
      · split
        · apply key
          refine SameHRS.trans ?_ (hrs_signAddVote _ _ _)
          split
          · exact hrs_unlock n
          · exact SameHRS.rfl' n
        · split
          · exact key _ (hrs_sign_of _ ⟨rfl, rfl, rfl⟩)
          · split
            · split
              · exact key _ (hrs_emit _ _)
              · exact key _ (hrs_sign_of _ ⟨rfl, rfl, rfl⟩)
            · apply key
              apply hrs_sign_of
              split
              · exact hrs_unlock n
              · exact (hrs_unlock n).trans ⟨rfl, rfl, rfl⟩

theorem le_finalizeCommit (n : Node) (h : Int) : Le n (finalizeCommit n h) := by
  unfold finalizeCommit
  split
  · exact Le.rfl' n
  · rename_i hg
    split
    · split
      · exact Le.of_same (hrs_emit _ _)
      · split
        · exact Le.of_same (hrs_emit _ _)
        · split
          · exact Le.of_same (hrs_emit _ _)
          · split
            · exact Le.of_same (hrs_emit _ _)
            · left
              have : n.height = h := Classical.not_not.mp (fun hh => hg (Or.inl hh))
              show n.height < h + 1
              omega
    · exact Le.of_same (hrs_emit _ _)

theorem le_tryFinalizeCommit (n : Node) (h : Int) : Le n (tryFinalizeCommit n h) := by
  unfold tryFinalizeCommit
  split
  · exact Le.of_same (hrs_emit _ _)
  · split
    · exact Le.rfl' n
    · split
      · exact Le.rfl' n
      · split
        · exact Le.rfl' n
        · exact le_finalizeCommit _ _

theorem le_enterCommit (n : Node) (h cr : Int) : Le n (enterCommit n h cr) := by
  unfold enterCommit
  split
  · exact Le.rfl' n
  · rename_i hg
    split
    · exact Le.of_same (hrs_emit _ _)
    · extract_lets n1 n2 n3
      have s1 : SameHRS n n1 := by
        unfold n1
        split <;> exact ⟨rfl, rfl, rfl⟩
      have s2 : SameHRS n1 n2 := by
        unfold n2
        split <;> exact ⟨rfl, rfl, rfl⟩
      have l3 : Le n n3 := by
        have s := s1.trans s2
        apply Le.enter
        · exact s.h
        · show n.round ≤ n2.round; rw [s.r]; exact Int.le_refl _
        · intro _
          show n.step.toNat ≤ Step.commit.toNat
          have : ¬ Step.commit ≤ n.step := fun hh => hg (Or.inr hh)
          exact Nat.le_of_lt (step_lt_of_not_le this)
      exact l3.trans (le_tryFinalizeCommit _ _)

theorem le_setProposal (n : Node) (p : Proposal) (signer : Nat) (bad : Bool) : Le n (setProposal n p signer bad) := by
  unfold setProposal
  split
  · exact Le.rfl' n
  · split
    · exact Le.rfl' n
    · split
      · exact Le.rfl' n
      · split
        · exact Le.rfl' n
        · split
          · exact Le.rfl' n
          · split <;> exact Le.of_same ⟨rfl, rfl, rfl⟩

theorem le_addParts (n : Node) (height : Int) (block : Name) (own : Bool) : Le n (addParts n height block own) := by
  unfold addParts
  split
  · exact Le.rfl' n
  · split
    · exact Le.rfl' n
    · split
      · exact Le.rfl' n
      · split
        · exact Le.rfl' n
        · extract_lets m
          have sm : SameHRS n m := ⟨rfl, rfl, rfl⟩
          split
          · exact Le.after_same sm (le_enterPrevote _ _ _)
          · split
            · exact Le.after_same sm (le_tryFinalizeCommit _ _)
            · exact Le.of_same sm

theorem hrs_hvsAddVote (n : Node) (v : VoteSet.Vote) (sigok : Bool) (peer : String) :
    SameHRS n (hvsAddVote n v sigok peer).1 := by
  unfold hvsAddVote
  split
  · exact SameHRS.rfl' n
  · split
    rename_i n' known heq
    have s : SameHRS n n' := by
      split at heq
      · cases heq; exact SameHRS.rfl' n
      · dsimp only at heq
        split at heq
        · cases heq; exact ⟨rfl, rfl, rfl⟩
        · cases heq; exact SameHRS.rfl' n
    split
    · exact s
    · split
      · exact s
      · exact s.trans ⟨rfl, rfl, rfl⟩

theorem le_addVote (n : Node) (v : VoteSet.Vote) (sigok : Bool) (peer : String) : Le n (addVote n v sigok peer) := by
  unfold addVote
  split
  · split
    · exact Le.rfl' n
    · split
      · split
        · exact Le.rfl' n
        · exact Le.of_same (hrs_emit _ _)
      · split
        dsimp only
        split
        · exact Le.after_same ⟨rfl, rfl, rfl⟩ (le_enterNewRound _ _ _)
        · exact Le.of_same ⟨rfl, rfl, rfl⟩
  · split
    · have s0 : SameHRS n (hvsAddVote n v sigok peer).1 := hrs_hvsAddVote _ _ _ _
      generalize hvsAddVote n v sigok peer = res at s0 ⊢
      obtain ⟨m, o⟩ := res
      dsimp only at s0 ⊢
      split
      · exact Le.of_same s0
      · split
        · have s1 : SameHRS m (if m.lockedBlock.isSome = true ∧ m.lockedRound < v.round ∧ v.round ≤ m.round then
              match maj23 (prevotes m v.round) with
              | some b => if (!hashesTo m.lockedBlock b.hash) = true then unlock m else m
              | none => m
            else m) := by
            split
            · split
              · split
                · exact hrs_unlock m
                · exact SameHRS.rfl' m
              · exact SameHRS.rfl' m
            · exact SameHRS.rfl' m
          generalize (if m.lockedBlock.isSome = true ∧ m.lockedRound < v.round ∧ v.round ≤ m.round then
              match maj23 (prevotes m v.round) with
              | some b => if (!hashesTo m.lockedBlock b.hash) = true then unlock m else m
              | none => m
            else m) = m1 at s1 ⊢
          have l1 : Le n m1 := Le.of_same (s0.trans s1)
          split
          · split
            · exact l1.trans ((le_enterNewRound _ _ _).trans (le_enterPrecommit _ _ _))
            · exact l1.trans ((le_enterNewRound _ _ _).trans ((le_enterPrevote _ _ _).trans (le_enterPrevoteWait _ _ _)))
          · split
            · split
              · exact l1.trans (le_enterPrevote _ _ _)
              · exact l1
            · exact l1
        · have l0 : Le n m := Le.of_same s0
          split
          · split
            · exact l0.trans (le_enterNewRound _ _ _)
            · have lc := l0.trans ((le_enterNewRound m n.height v.round).trans
                ((le_enterPrecommit _ n.height v.round).trans (le_enterCommit _ n.height v.round)))
              split
              · exact lc.trans (le_enterNewRound _ _ _)
              · exact lc
          · split
            · exact l0.trans ((le_enterNewRound _ _ _).trans ((le_enterPrecommit _ _ _).trans (le_enterPrecommitWait _ _ _)))
            · exact l0
    · exact Le.rfl' n

theorem le_handleTimeout (n : Node) (h r : Int) (s : Step) : Le n (handleTimeout n h r s) := by
  unfold handleTimeout
  split
  · exact Le.rfl' n
  · split
    · exact le_enterNewRound _ _ _
    · exact le_enterPrevote _ _ _
    · exact le_enterPrecommit _ _ _
    · exact le_enterNewRound _ _ _
    · exact Le.of_same (hrs_emit _ _)

theorem le_handleMsg (n : Node) (m : Msg) (peer : String) : Le n (handleMsg n m peer) := by
  unfold handleMsg
  split
  · exact le_setProposal _ _ _ _
  · exact le_addParts _ _ _ _
  · exact le_addVote _ _ _ _

theorem hrs_setPeerMaj23 (n : Node) (height round : Int) (type : Nat) (peer : String) (bid : VoteSet.BlockID) :
    SameHRS n (setPeerMaj23 n height round type peer bid) := by
  unfold setPeerMaj23
  split
  · exact SameHRS.rfl' n
  · split
    · exact SameHRS.rfl' n
    · split
      · exact SameHRS.rfl' n
      · exact ⟨rfl, rfl, rfl⟩

theorem le_stepIn (n : Node) (i : In) : Le n (stepIn n i) := by
  cases i with
  | msg m peer => exact le_handleMsg _ _ _
  | own =>
    show Le n (match n.queue with | [] => n | m :: rest => handleMsg { n with queue := rest } m "")
    split
    · exact Le.rfl' n
    · exact Le.after_same ⟨rfl, rfl, rfl⟩ (le_handleMsg _ _ _)
  | timeout h r s => exact le_handleTimeout _ _ _ _
  | maj23 h r t peer bid => exact Le.of_same (hrs_setPeerMaj23 _ _ _ _ _ _)

/-- over every run -/
theorem le_run (ins : List In) : ∀ n : Node, Le n (ins.foldl stepIn n) := by
  induction ins with
  | nil => intro n; exact Le.rfl' n
  | cons i rest ih => intro n; exact (le_stepIn n i).trans (ih _)

end AnnVerif.Node
