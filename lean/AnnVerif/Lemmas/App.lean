import AnnVerif.Model.App
namespace AnnVerif.App

theorem find_map_same (as : Accounts) (a : Account) :
    (as.map (fun x => if x.id = a.id then a else x)).find? (fun x => decide (x.id = a.id)) =
      (as.find? (fun x => decide (x.id = a.id))).map (fun _ => a) := by
  induction as with
  | nil => rfl
  | cons x t ih =>
    by_cases h : x.id = a.id
    · simp [List.find?, h]
    · simp [List.find?, h, ih]

theorem find_map_other (as : Accounts) (a : Account) (i : Nat) (hi : i ≠ a.id) :
    (as.map (fun x => if x.id = a.id then a else x)).find? (fun x => decide (x.id = i)) =
      as.find? (fun x => decide (x.id = i)) := by
  induction as with
  | nil => rfl
  | cons x t ih =>
    rw [List.map_cons, List.find?_cons, List.find?_cons, ih]
    by_cases h : x.id = a.id
    · have h1 : ¬ a.id = i := fun e => hi e.symm
      have h2 : ¬ x.id = i := by rw [h]; exact h1
      rw [if_pos h]
      simp only [h1, h2, decide_false]
    · rw [if_neg h]

theorem getAcc_setAcc_same (as : Accounts) (a : Account) : getAcc (setAcc as a) a.id = a := by
  unfold getAcc setAcc
  by_cases h : as.any (fun x => decide (x.id = a.id)) = true
  · rw [if_pos h, find_map_same]
    have : ∃ x, as.find? (fun x => decide (x.id = a.id)) = some x := by
      rw [List.any_eq_true] at h
      obtain ⟨x, hx, hp⟩ := h
      cases hf : as.find? (fun x => decide (x.id = a.id)) with
      | none => rw [List.find?_eq_none] at hf; exact absurd hp (hf x hx)
      | some y => exact ⟨y, rfl⟩
    obtain ⟨x, hx⟩ := this
    simp [hx]
  · rw [if_neg h]
    have hn : as.find? (fun x => decide (x.id = a.id)) = none := by
      rw [List.find?_eq_none]
      intro x hx hp
      exact h (List.any_eq_true.mpr ⟨x, hx, hp⟩)
    simp [List.find?_append, hn]

theorem getAcc_setAcc_other (as : Accounts) (a : Account) (i : Nat) (hi : i ≠ a.id) :
    getAcc (setAcc as a) i = getAcc as i := by
  unfold getAcc setAcc
  by_cases h : as.any (fun x => decide (x.id = a.id)) = true
  · rw [if_pos h, find_map_other as a i hi]
  · rw [if_neg h]
    have h1 : ¬ a.id = i := fun e => hi e.symm
    cases hf : as.find? (fun x => decide (x.id = i)) with
    | some y => simp [List.find?_append, hf]
    | none => simp [List.find?_append, hf, List.find?, h1]

def nonceOf (as : Accounts) (i : Nat) : Nat := (getAcc as i).nonce

theorem nonceOf_setAcc (as : Accounts) (j n b i : Nat) :
    nonceOf (setAcc as ⟨j, n, b⟩) i = if i = j then n else nonceOf as i := by
  unfold nonceOf
  by_cases h : i = j
  · subst h
    rw [if_pos rfl]
    have := getAcc_setAcc_same as ⟨i, n, b⟩
    simp only at this
    rw [this]
  · rw [if_neg h, getAcc_setAcc_other as ⟨j, n, b⟩ i h]

end AnnVerif.App
