/-
  Hex-prefix (compact) encoding of trie keys: `compactToHex (hexToCompact k) = k` for every key a
  well-formed trie holds in a short node (odd or even length, with or without the terminator).
-/
import AnnVerif.Lemmas.TrieMap
set_option linter.unusedSimpArgs false
namespace AnnVerif.Trie


def unpackBytes (bs : Bytes) : List Nat := (bs.map fun b => [b.toNat / 16, b.toNat % 16]).flatten

theorem unpack_pack : ∀ (n : Nat) (hex : List Nat), hex.length = 2 * n → (∀ x ∈ hex, x < 16) →
    unpackBytes (Trie.hexToCompact.pack hex) = hex := by
  intro n
  induction n with
  | zero => intro hex hl _; have : hex = [] := List.eq_nil_of_length_eq_zero (by omega); subst this; rfl
  | succ n ih =>
    intro hex hl hlt
    match hex, hl with
    | a :: b :: r, hl =>
      have ha : a < 16 := hlt a (by simp)
      have hb : b < 16 := hlt b (by simp)
      have hr := ih r (by simp at hl; omega) (fun x hx => hlt x (by simp [hx]))
      simp only [Trie.hexToCompact.pack, unpackBytes, List.map_cons, List.flatten_cons]
      have hv : (UInt8.ofNat (a * 16 + b)).toNat = a * 16 + b := by
        rw [UInt8.toNat_ofNat']; omega
      rw [hv]
      have h1 : (a * 16 + b) / 16 = a := by omega
      have h2 : (a * 16 + b) % 16 = b := by omega
      rw [h1, h2]
      show a :: b :: unpackBytes (Trie.hexToCompact.pack r) = a :: b :: r
      rw [hr]

/-- E2 for keys without terminator and of even length (the extension-node case) -/
theorem compact_roundtrip_even (hex : List Nat) (n : Nat) (hl : hex.length = 2 * n) (hlt : ∀ x ∈ hex, x < 16) :
    Trie.compactToHex (Trie.hexToCompact hex) = hex := by
  have hnt : Trie.hasTerm hex = false := by
    unfold Trie.hasTerm
    cases hg : hex.getLast? with
    | none => rfl
    | some x =>
      have := hlt x (List.mem_of_getLast? hg)
      simp; omega
  unfold Trie.hexToCompact
  simp only [hnt, Bool.false_eq_true, if_false]
  have hev : ¬ hex.length % 2 = 1 := by omega
  rw [if_neg hev]
  unfold Trie.compactToHex
  simp only
  have hz : (UInt8.ofNat (2 * 0 * 16)).toNat = 0 := by decide
  rw [hz]
  simp only [Nat.zero_div, Nat.zero_mod, Nat.zero_ne_one, if_false, ge_iff_le, Nat.not_succ_le_zero]
  exact unpack_pack n hex hl hlt

example : Trie.compactToHex (Trie.hexToCompact [1, 2, 3, 16]) = [1, 2, 3, 16] ∧
          Trie.compactToHex (Trie.hexToCompact [1, 2, 16]) = [1, 2, 16] ∧
          Trie.compactToHex (Trie.hexToCompact [7]) = [7] := by decide

/-- the general step: a nibble list (all below 16) with the terminator flag `t` round-trips -/
theorem compact_core (hex : List Nat) (hlt : ∀ x ∈ hex, x < 16) (t : Nat) (ht : t ≤ 1) :
    Trie.compactToHex
      (if hex.length % 2 = 1 then
        UInt8.ofNat ((2 * t + 1) * 16 + hex.headD 0) :: Trie.hexToCompact.pack hex.tail
       else UInt8.ofNat (2 * t * 16) :: Trie.hexToCompact.pack hex) =
    if t = 1 then hex ++ [16] else hex := by
  by_cases hodd : hex.length % 2 = 1
  · rw [if_pos hodd]
    cases hex with
    | nil => simp at hodd
    | cons a tl =>
      have ha : a < 16 := hlt a (by simp)
      have htl : ∀ x ∈ tl, x < 16 := fun x hx => hlt x (by simp [hx])
      have hlen : tl.length = 2 * (tl.length / 2) := by simp at hodd; omega
      have hup := unpack_pack (tl.length / 2) tl hlen htl
      unfold unpackBytes at hup
      simp only [List.headD_cons, List.tail_cons]
      unfold Trie.compactToHex
      simp only
      have hv : (UInt8.ofNat ((2 * t + 1) * 16 + a)).toNat = (2 * t + 1) * 16 + a := by
        rw [UInt8.toNat_ofNat']; omega
      rw [hv, hup]
      have h1 : ((2 * t + 1) * 16 + a) / 16 = 2 * t + 1 := by omega
      have h2 : ((2 * t + 1) * 16 + a) % 16 = a := by omega
      rw [h1, h2]
      have h3 : (2 * t + 1) % 2 = 1 := by omega
      simp only [h3, if_true]
      by_cases ht1 : t = 1
      · subst ht1; simp
      · have : t = 0 := by omega
        subst this; simp
  · rw [if_neg hodd]
    have hlen : hex.length = 2 * (hex.length / 2) := by omega
    have hup := unpack_pack (hex.length / 2) hex hlen hlt
    unfold unpackBytes at hup
    unfold Trie.compactToHex
    simp only
    have hv : (UInt8.ofNat (2 * t * 16)).toNat = 2 * t * 16 := by
      rw [UInt8.toNat_ofNat']; omega
    rw [hv, hup]
    have h1 : 2 * t * 16 / 16 = 2 * t := by omega
    rw [h1]
    have h3 : ¬ (2 * t) % 2 = 1 := by omega
    simp only [h3, if_false]
    by_cases ht1 : t = 1
    · subst ht1; simp
    · have : t = 0 := by omega
      subst this; simp

/-- E2, complete: hex-prefix encoding decodes back to the key for EVERY key a well-formed trie can
    hold in a short node - odd or even length, with or without the terminator -/
theorem compact_roundtrip (k : Trie.Key) (h : Trie.TermKey k ∨ Trie.ExtKey k) :
    Trie.compactToHex (Trie.hexToCompact k) = k := by
  rcases h with ⟨pre, rfl, hpre⟩ | ⟨_, hk⟩
  · have hterm : Trie.hasTerm (pre ++ [16]) = true := by simp [Trie.hasTerm]
    unfold Trie.hexToCompact
    simp only [hterm, if_true, List.dropLast_concat]
    have := compact_core pre hpre 1 (by omega)
    simpa using this
  · have hnt : Trie.hasTerm k = false := by
      unfold Trie.hasTerm
      cases hg : k.getLast? with
      | none => rfl
      | some x =>
        have := hk x (List.mem_of_getLast? hg)
        simp; omega
    unfold Trie.hexToCompact
    simp only [hnt, Bool.false_eq_true, if_false]
    have := compact_core k hk 0 (by omega)
    simpa using this

/-- hence two different keys of a well-formed trie never share a compact encoding -/
theorem hexToCompact_injective (a b : Trie.Key) (ha : Trie.TermKey a ∨ Trie.ExtKey a) (hb : Trie.TermKey b ∨ Trie.ExtKey b)
    (h : Trie.hexToCompact a = Trie.hexToCompact b) : a = b := by
  rw [← compact_roundtrip a ha, ← compact_roundtrip b hb, h]


end AnnVerif.Trie
