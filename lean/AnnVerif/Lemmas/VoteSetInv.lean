import AnnVerif.Lemmas.VoteSet
namespace AnnVerif.VoteSet

/-- the history of offered votes, each with its signature-oracle bit -/
abbrev Hist := List (Vote × Bool)

/-- a stored vote at position `i` is one that was offered with a verifying signature, for this
    height/round/type, by the validator at position `i` (index and address match) -/
structure Good (hist : Hist) (vs : VoteSet) (i : Nat) (v : Vote) : Prop where
  idx : v.idx = (i : Int)
  offered : (v, true) ∈ hist
  h : v.height = vs.height
  r : v.round = vs.round
  t : v.type = vs.type
  addr : ∃ val, vs.vals[i]? = some val ∧ val.addr = v.addr

def occ (l : List (Option Vote)) (i : Nat) : Prop := ((l[i]?).join).isSome = true

structure Inv (cfg : Cfg) (hist : Hist) (vs : VoteSet) : Prop where
  len : vs.votes.length = vs.vals.length
  sum : vs.sum = tally (powers vs.vals) vs.votes
  slot : ∀ (i : Nat) (v : Vote), vs.votes[i]? = some (some v) → Good hist vs i v
  entryLen : ∀ k bv, lookup vs.byBlock k = some bv → bv.votes.length = vs.vals.length
  entrySum : ∀ k bv, lookup vs.byBlock k = some bv → bv.sum = tally (powers vs.vals) bv.votes
  entrySlot : ∀ k bv, lookup vs.byBlock k = some bv → ∀ (i : Nat) (v : Vote),
      bv.votes[i]? = some (some v) → Good hist vs i v ∧ v.bid.key cfg = k ∧ occ vs.votes i
  majSound : ∀ b, vs.maj23 = some b → ∃ bv, lookup vs.byBlock (b.key cfg) = some bv ∧
      quorum (total vs.vals) ≤ bv.sum ∧
      ∀ (i : Nat) (v : Vote), bv.votes[i]? = some (some v) →
        ∃ v', vs.votes[i]? = some (some v') ∧ v'.bid.key cfg = b.key cfg
  majNone : vs.maj23 = none → ∀ k bv, lookup vs.byBlock k = some bv →
      bv.sum < quorum (total vs.vals)

/-- same fixed parameters (height, round, type, validator set) -/
def SameParams (a b : VoteSet) : Prop :=
  a.height = b.height ∧ a.round = b.round ∧ a.type = b.type ∧ a.vals = b.vals

theorem Good.mono {hist : Hist} {vs : VoteSet} {i : Nat} {v : Vote} (x : Hist)
    (g : Good hist vs i v) : Good (hist ++ x) vs i v :=
  ⟨g.idx, List.mem_append_left _ g.offered, g.h, g.r, g.t, g.addr⟩

theorem Good.params {hist : Hist} {a b : VoteSet} {i : Nat} {v : Vote} (hp : SameParams a b)
    (g : Good hist a i v) : Good hist b i v := by
  obtain ⟨h1, h2, h3, h4⟩ := hp
  exact ⟨g.idx, g.offered, h1 ▸ g.h, h2 ▸ g.r, h3 ▸ g.t, h4 ▸ g.addr⟩

theorem Good.params' {hist : Hist} {a b : VoteSet} {i : Nat} {v : Vote} (g : Good hist a i v)
    (h1 : a.height = b.height) (h2 : a.round = b.round) (h3 : a.type = b.type)
    (h4 : a.vals = b.vals) : Good hist b i v :=
  g.params ⟨h1, h2, h3, h4⟩

theorem Inv.mono {cfg : Cfg} {hist : Hist} {vs : VoteSet} (x : Hist) (h : Inv cfg hist vs) :
    Inv cfg (hist ++ x) vs :=
  { h with
    slot := fun i v hv => (h.slot i v hv).mono x
    entrySlot := fun k bv hk i v hv =>
      let ⟨g, a, b⟩ := h.entrySlot k bv hk i v hv
      ⟨g.mono x, a, b⟩ }

theorem total_nonneg (vals : List Validator) (hpos : ∀ val ∈ vals, 0 ≤ val.power) :
    0 ≤ total vals := by
  unfold total
  induction vals with
  | nil => simp
  | cons a t ih =>
    have h1 := hpos a (by simp)
    have h2 := ih (fun v hv => hpos v (by simp [hv]))
    simp at h2 ⊢; omega

theorem quorum_pos (vals : List Validator) (hpos : ∀ val ∈ vals, 0 ≤ val.power) :
    0 < quorum (total vals) := by
  have := total_nonneg vals hpos
  unfold quorum; omega

theorem inv_new (cfg : Cfg) (height round : Int) (type : Nat) (vals : List Validator)
    (hpos : ∀ val ∈ vals, 0 ≤ val.power) : Inv cfg [] (new height round type vals) := by
  refine ⟨by simp [new], by simp [new, tally_replicate_none], ?_, ?_, ?_, ?_, ?_, ?_⟩
  · intro i v h; simp [new, List.getElem?_replicate] at h
  · intro k bv h; simp [new, lookup] at h
  · intro k bv h; simp [new, lookup] at h
  · intro k bv h; simp [new, lookup] at h
  · intro b h; simp [new] at h
  · intro _ k bv h; simp [new, lookup] at h

theorem occ_set (l : List (Option Vote)) (i j : Nat) (v : Vote) (h : occ l j) :
    occ (l.set i (some v)) j := by
  unfold occ at *
  by_cases hij : i = j
  · subst hij
    have : i < l.length := by
      cases hh : l[i]? with
      | none => rw [hh] at h; simp at h
      | some _ => exact (List.getElem?_eq_some_iff.mp hh).1
    simp [List.getElem?_set_self this]
  · rw [List.getElem?_set_ne hij]; exact h


theorem join_some {l : List (Option Vote)} {i : Nat} {e : Vote} (h : (l[i]?).join = some e) :
    l[i]? = some (some e) := by
  cases hh : l[i]? with
  | none => rw [hh] at h; simp at h
  | some o => rw [hh] at h; simp at h; rw [h]

theorem join_none {l : List (Option Vote)} {i : Nat} (hi : i < l.length) (h : (l[i]?).join = none) :
    l[i]? = some none := by
  rw [List.getElem?_eq_getElem hi] at h ⊢
  simp at h; rw [h]

/-- the intermediate set after the primary-slot update: same as `vs` except `votes`/`sum` -/
theorem primary_inv {cfg : Cfg} {hist : Hist} {vs vs1 : VoteSet} {v : Vote} {i : Nat} {key : Bytes}
    {power : Int} {c : Option Vote}
    (hinv : Inv cfg hist vs) (hg : Good hist vs i v) (hkey : key = v.bid.key cfg)
    (hpow : (powers vs.vals)[i]? = some power)
    (hp : primary cfg vs v i key power = some (vs1, c)) :
    Inv cfg hist vs1 ∧ SameParams vs vs1 ∧ vs1.byBlock = vs.byBlock ∧ vs1.maj23 = vs.maj23 ∧
    occ vs1.votes i ∧
    (c = none → vs1.votes[i]? = some (some v)) ∧
    (vs.maj23.map (BlockID.key cfg) = some key → vs1.votes[i]? = some (some v)) ∧
    (∀ e, c = some e → vs.votes[i]? = some (some e) ∧ e.bid ≠ v.bid) := by
  have hilen : i < vs.votes.length := by
    obtain ⟨val, hval, _⟩ := hg.addr
    rw [hinv.len]; exact (List.getElem?_eq_some_iff.mp hval).1
  unfold primary at hp
  cases hj : (vs.votes[i]?).join with
  | some e =>
    have hslot := join_some hj
    rw [hj] at hp
    simp only at hp
    by_cases hbe : e.bid = v.bid
    · simp [hbe] at hp
    · simp only [hbe, if_false] at hp
      by_cases hm : vs.maj23.map (BlockID.key cfg) = some key
      · simp only [hm, if_true, Option.some.injEq, Prod.mk.injEq] at hp
        obtain ⟨h1, h2⟩ := hp
        subst h1; subst h2
        have hset : (vs.votes.set i (some v))[i]? = some (some v) := by
          simp [List.getElem?_set_self hilen]
        refine ⟨?_, ⟨rfl, rfl, rfl, rfl⟩, rfl, rfl, ?_, ?_, ?_, ?_⟩
        · refine ⟨by simp [hinv.len], ?_, ?_, hinv.entryLen, hinv.entrySum, ?_, ?_, hinv.majNone⟩
          · simp only; rw [tally_set_some _ _ _ _ e hslot]; exact hinv.sum
          · intro j w hw
            simp only at hw
            by_cases hij : i = j
            · subst hij; rw [hset] at hw; simp at hw; subst hw; exact hg.params' rfl rfl rfl rfl
            · rw [List.getElem?_set_ne hij] at hw; exact (hinv.slot j w hw).params' rfl rfl rfl rfl
          · intro k bv hk j w hw
            obtain ⟨g, a, b⟩ := hinv.entrySlot k bv hk j w hw
            exact ⟨g.params' rfl rfl rfl rfl, a, occ_set _ _ _ _ b⟩
          · intro b hb
            obtain ⟨bv, h1, h2, h3⟩ := hinv.majSound b hb
            refine ⟨bv, h1, h2, ?_⟩
            intro j w hw
            by_cases hij : i = j
            · subst hij
              refine ⟨v, hset, ?_⟩
              simp only at hb
              rw [hb] at hm; simp at hm; rw [hm, hkey]
            · obtain ⟨v', hv', hk'⟩ := h3 j w hw
              exact ⟨v', by simp only; rw [List.getElem?_set_ne hij]; exact hv', hk'⟩
        · unfold occ; simp only; rw [hset]; rfl
        · intro _; exact hset
        · intro _; exact hset
        · intro e' he'; simp at he'; subst he'; exact ⟨hslot, hbe⟩
      · simp only [hm, if_false, Option.some.injEq, Prod.mk.injEq] at hp
        obtain ⟨h1, h2⟩ := hp
        subst h1; subst h2
        refine ⟨hinv, ⟨rfl, rfl, rfl, rfl⟩, rfl, rfl, ?_, ?_, ?_, ?_⟩
        · unfold occ; rw [hslot]; rfl
        · intro h; simp at h
        · intro h; exact absurd h hm
        · intro e' he'; simp at he'; subst he'; exact ⟨hslot, hbe⟩
  | none =>
    have hslot := join_none hilen hj
    rw [hj] at hp
    simp only [Option.some.injEq, Prod.mk.injEq] at hp
    obtain ⟨h1, h2⟩ := hp
    subst h1; subst h2
    have hset : (vs.votes.set i (some v))[i]? = some (some v) := by
      simp [List.getElem?_set_self hilen]
    refine ⟨?_, ⟨rfl, rfl, rfl, rfl⟩, rfl, rfl, ?_, ?_, ?_, ?_⟩
    · refine ⟨by simp [hinv.len], ?_, ?_, hinv.entryLen, hinv.entrySum, ?_, ?_, hinv.majNone⟩
      · simp only; rw [tally_set_none _ _ _ _ power hslot hpow, hinv.sum]
      · intro j w hw
        simp only at hw
        by_cases hij : i = j
        · subst hij; rw [hset] at hw; simp at hw; subst hw; exact hg.params' rfl rfl rfl rfl
        · rw [List.getElem?_set_ne hij] at hw; exact (hinv.slot j w hw).params' rfl rfl rfl rfl
      · intro k bv hk j w hw
        obtain ⟨g, a, b⟩ := hinv.entrySlot k bv hk j w hw
        exact ⟨g.params' rfl rfl rfl rfl, a, occ_set _ _ _ _ b⟩
      · intro b hb
        obtain ⟨bv, h1, h2, h3⟩ := hinv.majSound b hb
        refine ⟨bv, h1, h2, ?_⟩
        intro j w hw
        by_cases hij : i = j
        · subst hij
          obtain ⟨v', hv', _⟩ := h3 i w hw
          rw [hslot] at hv'; simp at hv'
        · obtain ⟨v', hv', hk'⟩ := h3 j w hw
          exact ⟨v', by simp only; rw [List.getElem?_set_ne hij]; exact hv', hk'⟩
    · unfold occ; simp only; rw [hset]; rfl
    · intro _; exact hset
    · intro _; exact hset
    · intro e' he'; simp at he'


theorem occ_overlay (d s : List (Option Vote)) (j : Nat) (hl : s.length = d.length) (h : occ d j) :
    occ (overlay d s) j := by
  unfold occ at *
  rw [overlay_get d s j hl]
  cases hs : (s[j]?).join with
  | some w => simp
  | none => simpa using h

/-- what every per-block tally satisfies (whether already in the map or freshly created) -/
structure EntryOK (cfg : Cfg) (hist : Hist) (vs : VoteSet) (key : Bytes) (bv : BlockVotes) : Prop where
  len : bv.votes.length = vs.vals.length
  sum : bv.sum = tally (powers vs.vals) bv.votes
  slot : ∀ (i : Nat) (v : Vote), bv.votes[i]? = some (some v) →
    Good hist vs i v ∧ v.bid.key cfg = key ∧ occ vs.votes i

theorem selectEntry_ok {cfg : Cfg} {hist : Hist} {vs : VoteSet} {key : Bytes} {c : Bool}
    {bv : BlockVotes} (hpos : ∀ val ∈ vs.vals, 0 ≤ val.power) (hinv : Inv cfg hist vs)
    (hsel : selectEntry vs key c = some bv) :
    EntryOK cfg hist vs key bv ∧
    (vs.maj23 = none → bv.sum < quorum (total vs.vals)) ∧
    (∀ b, vs.maj23 = some b → b.key cfg = key → quorum (total vs.vals) ≤ bv.sum ∧
      ∀ (i : Nat) (w : Vote), bv.votes[i]? = some (some w) →
        ∃ v', vs.votes[i]? = some (some v') ∧ v'.bid.key cfg = b.key cfg) := by
  unfold selectEntry at hsel
  cases hl : lookup vs.byBlock key with
  | some bv0 =>
    rw [hl] at hsel
    simp only at hsel
    split at hsel
    · simp at hsel
    · simp at hsel; subst hsel
      refine ⟨⟨hinv.entryLen _ _ hl, hinv.entrySum _ _ hl, hinv.entrySlot _ _ hl⟩,
        fun hn => hinv.majNone hn _ _ hl, ?_⟩
      intro b hb hk
      obtain ⟨bv', h1, h2, h3⟩ := hinv.majSound b hb
      rw [hk, hl] at h1; simp at h1; subst h1
      exact ⟨h2, h3⟩
  | none =>
    rw [hl] at hsel
    simp only at hsel
    split at hsel
    · simp at hsel
    · simp at hsel; subst hsel
      refine ⟨⟨by simp, by simp [tally_replicate_none], ?_⟩, fun _ => quorum_pos _ hpos, ?_⟩
      · intro i v h; simp [List.getElem?_replicate] at h
      · intro b hb hk
        obtain ⟨bv', h1, _, _⟩ := hinv.majSound b hb
        rw [hk, hl] at h1; simp at h1

theorem add_entryOK {cfg : Cfg} {hist : Hist} {vs : VoteSet} {key : Bytes} {bv : BlockVotes}
    {i : Nat} {v : Vote} {power : Int}
    (he : EntryOK cfg hist vs key bv) (hg : Good hist vs i v) (hkey : key = v.bid.key cfg)
    (hpow : (powers vs.vals)[i]? = some power) (hpw : 0 ≤ power) (hocc : occ vs.votes i) :
    EntryOK cfg hist vs key (bv.add i v power) ∧ bv.sum ≤ (bv.add i v power).sum ∧
    (∀ (j : Nat) (w : Vote), (bv.add i v power).votes[j]? = some (some w) →
      bv.votes[j]? = some (some w) ∨ (j = i ∧ w = v)) := by
  unfold BlockVotes.add
  cases hs : bv.votes[i]? with
  | none => simp only; exact ⟨he, Int.le_refl _, fun j w h => Or.inl h⟩
  | some o =>
    cases o with
    | some e => simp only; exact ⟨he, Int.le_refl _, fun j w h => Or.inl h⟩
    | none =>
      simp only
      have hilen : i < bv.votes.length := (List.getElem?_eq_some_iff.mp hs).1
      refine ⟨⟨by simp [he.len], ?_, ?_⟩, by omega, ?_⟩
      · simp only; rw [tally_set_none _ _ _ _ power hs hpow, he.sum]
      · intro j w hw
        simp only at hw
        by_cases hij : i = j
        · subst hij
          rw [List.getElem?_set_self hilen] at hw; simp at hw; subst hw
          exact ⟨hg, hkey.symm, hocc⟩
        · rw [List.getElem?_set_ne hij] at hw; exact he.slot j w hw
      · intro j w hw
        by_cases hij : i = j
        · subst hij
          rw [List.getElem?_set_self hilen] at hw; simp at hw; subst hw
          exact Or.inr ⟨rfl, rfl⟩
        · rw [List.getElem?_set_ne hij] at hw; exact Or.inl hw


theorem applyTally_params (vs : VoteSet) (key : Bytes) (bv : BlockVotes) (i : Nat) (v : Vote)
    (power : Int) : SameParams vs (applyTally vs key bv i v power) := by
  unfold applyTally; split <;> exact ⟨rfl, rfl, rfl, rfl⟩

theorem applyTally_inv {cfg : Cfg} {hist : Hist} {vs : VoteSet} {key : Bytes} {bv : BlockVotes}
    {i : Nat} {v : Vote} {power : Int} {c : Bool}
    (hpos : ∀ val ∈ vs.vals, 0 ≤ val.power)
    (hinv : Inv cfg hist vs) (hg : Good hist vs i v) (hkey : key = v.bid.key cfg)
    (hpow : (powers vs.vals)[i]? = some power) (hpw : 0 ≤ power) (hocc : occ vs.votes i)
    (hmajslot : vs.maj23.map (BlockID.key cfg) = some key → vs.votes[i]? = some (some v))
    (hsel : selectEntry vs key c = some bv) :
    Inv cfg hist (applyTally vs key bv i v power) := by
  obtain ⟨he, hnone, hsome⟩ := selectEntry_ok hpos hinv hsel
  obtain ⟨he', hle, hslots⟩ := add_entryOK he hg hkey hpow hpw hocc
  have hlen' : (bv.add i v power).votes.length = vs.votes.length := by rw [he'.len, hinv.len]
  unfold applyTally
  split
  · -- the quorum is crossed for the first time
    rename_i hcross
    obtain ⟨_, hq, hmn⟩ := hcross
    have hoccAll : ∀ j : Nat, (((bv.add i v power).votes[j]?).join).isSome →
        ((vs.votes[j]?).join).isSome := by
      intro j hj
      cases hx : (bv.add i v power).votes[j]? with
      | none => rw [hx] at hj; simp at hj
      | some o =>
        cases o with
        | none => rw [hx] at hj; simp at hj
        | some w => exact (he'.slot j w hx).2.2
    refine ⟨by simp [overlay_length, hinv.len], ?_, ?_, ?_, ?_, ?_, ?_, ?_⟩
    · simp only; rw [tally_overlay _ _ _ hlen' hoccAll]; exact hinv.sum
    · intro j w hw
      simp only at hw
      rw [overlay_get _ _ _ hlen'] at hw
      cases hx : ((bv.add i v power).votes[j]?).join with
      | some x =>
        rw [hx] at hw; simp at hw; subst hw
        exact ((he'.slot j x (join_some hx)).1).params' rfl rfl rfl rfl
      | none =>
        rw [hx] at hw; simp only at hw
        exact (hinv.slot j w hw).params' rfl rfl rfl rfl
    · intro k bv2 hk
      simp only at hk ⊢
      by_cases hkk : k = key
      · subst hkk; rw [lookup_insert_self] at hk; simp at hk; subst hk; exact he'.len
      · rw [lookup_insert_ne _ _ _ _ hkk] at hk; exact hinv.entryLen k bv2 hk
    · intro k bv2 hk
      simp only at hk ⊢
      by_cases hkk : k = key
      · subst hkk; rw [lookup_insert_self] at hk; simp at hk; subst hk; exact he'.sum
      · rw [lookup_insert_ne _ _ _ _ hkk] at hk; exact hinv.entrySum k bv2 hk
    · intro k bv2 hk j w hw
      simp only at hk ⊢
      by_cases hkk : k = key
      · subst hkk; rw [lookup_insert_self] at hk; simp at hk; subst hk
        obtain ⟨g, a, b⟩ := he'.slot j w hw
        exact ⟨g.params' rfl rfl rfl rfl, a, occ_overlay _ _ _ hlen' b⟩
      · rw [lookup_insert_ne _ _ _ _ hkk] at hk
        obtain ⟨g, a, b⟩ := hinv.entrySlot k bv2 hk j w hw
        exact ⟨g.params' rfl rfl rfl rfl, a, occ_overlay _ _ _ hlen' b⟩
    · intro b hb
      simp only at hb ⊢
      simp at hb; subst hb
      refine ⟨bv.add i v power, by rw [← hkey, lookup_insert_self], hq, ?_⟩
      intro j w hw
      refine ⟨w, ?_, by rw [(he'.slot j w hw).2.1, hkey]⟩
      rw [overlay_get _ _ _ hlen', hw]; rfl
    · intro h; simp at h
  · -- no first crossing
    rename_i hnc
    refine ⟨hinv.len, hinv.sum, fun j w hw => (hinv.slot j w hw).params' rfl rfl rfl rfl,
      ?_, ?_, ?_, ?_, ?_⟩
    · intro k bv2 hk
      simp only at hk ⊢
      by_cases hkk : k = key
      · subst hkk; rw [lookup_insert_self] at hk; simp at hk; subst hk; exact he'.len
      · rw [lookup_insert_ne _ _ _ _ hkk] at hk; exact hinv.entryLen k bv2 hk
    · intro k bv2 hk
      simp only at hk ⊢
      by_cases hkk : k = key
      · subst hkk; rw [lookup_insert_self] at hk; simp at hk; subst hk; exact he'.sum
      · rw [lookup_insert_ne _ _ _ _ hkk] at hk; exact hinv.entrySum k bv2 hk
    · intro k bv2 hk j w hw
      simp only at hk ⊢
      by_cases hkk : k = key
      · subst hkk; rw [lookup_insert_self] at hk; simp at hk; subst hk
        obtain ⟨g, a, b⟩ := he'.slot j w hw
        exact ⟨g.params' rfl rfl rfl rfl, a, b⟩
      · rw [lookup_insert_ne _ _ _ _ hkk] at hk
        obtain ⟨g, a, b⟩ := hinv.entrySlot k bv2 hk j w hw
        exact ⟨g.params' rfl rfl rfl rfl, a, b⟩
    · intro b hb
      simp only at hb ⊢
      by_cases hbk : b.key cfg = key
      · obtain ⟨hq, hall⟩ := hsome b hb hbk
        refine ⟨bv.add i v power, by rw [hbk, lookup_insert_self], by omega, ?_⟩
        intro j w hw
        rcases hslots j w hw with h | ⟨hj, hwv⟩
        · exact hall j w h
        · subst hj; subst hwv
          refine ⟨w, hmajslot (by rw [hb]; simp [hbk]), by rw [hbk, hkey]⟩
      · obtain ⟨bv2, h1, h2, h3⟩ := hinv.majSound b hb
        exact ⟨bv2, by rw [lookup_insert_ne _ _ _ _ hbk]; exact h1, h2, h3⟩
    · intro hn k bv2 hk
      simp only at hn hk ⊢
      by_cases hkk : k = key
      · subst hkk; rw [lookup_insert_self] at hk; simp at hk; subst hk
        have h1 := hnone hn
        have : ¬ (quorum (total vs.vals) ≤ (bv.add i v power).sum) := by
          intro hq; exact hnc ⟨h1, hq, hn⟩
        omega
      · rw [lookup_insert_ne _ _ _ _ hkk] at hk; exact hinv.majNone hn k bv2 hk


theorem SameParams.trans {a b c : VoteSet} (h1 : SameParams a b) (h2 : SameParams b c) :
    SameParams a c :=
  ⟨h1.1.trans h2.1, h1.2.1.trans h2.2.1, h1.2.2.1.trans h2.2.2.1, h1.2.2.2.trans h2.2.2.2⟩

theorem SameParams.refl (a : VoteSet) : SameParams a a := ⟨rfl, rfl, rfl, rfl⟩

theorem Inv.params {cfg : Cfg} {hist : Hist} {a : VoteSet} (h : Inv cfg hist a) : True := trivial

theorem addVerified_inv {cfg : Cfg} {hist : Hist} {vs : VoteSet} {v : Vote} {i : Nat} {key : Bytes}
    {power : Int}
    (hpos : ∀ val ∈ vs.vals, 0 ≤ val.power)
    (hinv : Inv cfg hist vs) (hg : Good hist vs i v) (hkey : key = v.bid.key cfg)
    (hpow : (powers vs.vals)[i]? = some power) (hpw : 0 ≤ power) :
    Inv cfg hist (addVerified cfg vs v i key power).1 ∧
    SameParams vs (addVerified cfg vs v i key power).1 := by
  unfold addVerified
  cases hp : primary cfg vs v i key power with
  | none => exact ⟨hinv, SameParams.refl _⟩
  | some pr =>
    obtain ⟨vs1, c⟩ := pr
    obtain ⟨hinv1, hsp, hbb, hmj, hocc, _, hms, _⟩ := primary_inv hinv hg hkey hpow hp
    simp only
    cases hs : selectEntry vs1 key c.isSome with
    | none => exact ⟨hinv1, hsp⟩
    | some bv =>
      simp only
      have hpos1 : ∀ val ∈ vs1.vals, 0 ≤ val.power := by rw [← hsp.2.2.2]; exact hpos
      have hpow1 : (powers vs1.vals)[i]? = some power := by rw [← hsp.2.2.2]; exact hpow
      refine ⟨applyTally_inv hpos1 hinv1 (hg.params hsp) hkey hpow1 hpw hocc ?_ hs,
        hsp.trans (applyTally_params _ _ _ _ _ _)⟩
      intro h; rw [hmj] at h; exact hms h

theorem getElem?_powers (vals : List Validator) (i : Nat) (val : Validator)
    (h : vals[i]? = some val) : (powers vals)[i]? = some val.power := by
  simp [powers, h]

/-- every `AddVote` preserves the invariant and appends the offered vote to the history -/
theorem addVote_inv {cfg : Cfg} {hist : Hist} {vs : VoteSet} (v : Vote) (sigok : Bool)
    (hpos : ∀ val ∈ vs.vals, 0 ≤ val.power) (hinv : Inv cfg hist vs) :
    Inv cfg (hist ++ [(v, sigok)]) (addVote cfg vs v sigok).1 ∧
    SameParams vs (addVote cfg vs v sigok).1 := by
  have hm := hinv.mono [(v, sigok)]
  unfold addVote
  simp only
  split
  · exact ⟨hm, SameParams.refl _⟩
  · split
    · exact ⟨hm, SameParams.refl _⟩
    · split
      · exact ⟨hm, SameParams.refl _⟩
      · split
        · exact ⟨hm, SameParams.refl _⟩
        · rename_i hidx _ hstep
          split
          · exact ⟨hm, SameParams.refl _⟩
          · rename_i val hval
            split
            · exact ⟨hm, SameParams.refl _⟩
            · rename_i haddr
              split
              · exact ⟨hm, SameParams.refl _⟩
              · split
                · exact ⟨hm, SameParams.refl _⟩
                · rename_i hsig
                  have hsig' : sigok = true := by simpa using hsig
                  subst hsig'
                  have hg : Good (hist ++ [(v, true)]) vs v.idx.toNat v := by
                    refine ⟨by omega, by simp, ?_, ?_, ?_, ⟨val, hval, by simpa using haddr⟩⟩
                    · exact Classical.not_not.mp (fun h => hstep (Or.inl h))
                    · exact Classical.not_not.mp (fun h => hstep (Or.inr (Or.inl h)))
                    · exact Classical.not_not.mp (fun h => hstep (Or.inr (Or.inr h)))
                  exact addVerified_inv hpos hm hg rfl (getElem?_powers _ _ _ hval)
                    (hpos val (List.mem_of_getElem? hval))

theorem lookup_none_of_find (m : List (Bytes × BlockVotes)) : True := trivial

/-- `SetPeerMaj23` preserves the invariant -/
theorem setPeerMaj23_inv {cfg : Cfg} {hist : Hist} {vs : VoteSet} (peer : String) (b : BlockID)
    (hpos : ∀ val ∈ vs.vals, 0 ≤ val.power) (hinv : Inv cfg hist vs) :
    Inv cfg hist (setPeerMaj23 cfg vs peer b) ∧ SameParams vs (setPeerMaj23 cfg vs peer b) := by
  unfold setPeerMaj23
  split
  · exact ⟨hinv, SameParams.refl _⟩
  · simp only
    cases hl : lookup vs.byBlock (b.key cfg) with
    | some bv =>
      simp only
      split
      · exact ⟨⟨hinv.len, hinv.sum, fun j w hw => (hinv.slot j w hw).params' rfl rfl rfl rfl,
          hinv.entryLen, hinv.entrySum,
          fun k bv2 hk j w hw => let ⟨g, a, c⟩ := hinv.entrySlot k bv2 hk j w hw
            ⟨g.params' rfl rfl rfl rfl, a, c⟩,
          hinv.majSound, hinv.majNone⟩, ⟨rfl, rfl, rfl, rfl⟩⟩
      · refine ⟨⟨hinv.len, hinv.sum, fun j w hw => (hinv.slot j w hw).params' rfl rfl rfl rfl,
          ?_, ?_, ?_, ?_, ?_⟩, ⟨rfl, rfl, rfl, rfl⟩⟩
        · intro k bv2 hk
          simp only at hk ⊢
          by_cases hkk : k = b.key cfg
          · subst hkk; rw [lookup_insert_self] at hk; simp at hk; subst hk
            exact hinv.entryLen _ bv hl
          · rw [lookup_insert_ne _ _ _ _ hkk] at hk; exact hinv.entryLen k bv2 hk
        · intro k bv2 hk
          simp only at hk ⊢
          by_cases hkk : k = b.key cfg
          · subst hkk; rw [lookup_insert_self] at hk; simp at hk; subst hk
            exact hinv.entrySum _ bv hl
          · rw [lookup_insert_ne _ _ _ _ hkk] at hk; exact hinv.entrySum k bv2 hk
        · intro k bv2 hk j w hw
          simp only at hk ⊢
          by_cases hkk : k = b.key cfg
          · subst hkk; rw [lookup_insert_self] at hk; simp at hk; subst hk
            obtain ⟨g, a, c⟩ := hinv.entrySlot _ bv hl j w hw
            exact ⟨g.params' rfl rfl rfl rfl, a, c⟩
          · rw [lookup_insert_ne _ _ _ _ hkk] at hk
            obtain ⟨g, a, c⟩ := hinv.entrySlot k bv2 hk j w hw
            exact ⟨g.params' rfl rfl rfl rfl, a, c⟩
        · intro b2 hb2
          simp only at hb2 ⊢
          obtain ⟨bv2, h1, h2, h3⟩ := hinv.majSound b2 hb2
          by_cases hkk : b2.key cfg = b.key cfg
          · rw [hkk, hl] at h1; simp at h1; subst h1
            exact ⟨{ bv with peerMaj23 := true }, by rw [hkk, lookup_insert_self], h2, h3⟩
          · exact ⟨bv2, by rw [lookup_insert_ne _ _ _ _ hkk]; exact h1, h2, h3⟩
        · intro hn k bv2 hk
          simp only at hn hk ⊢
          by_cases hkk : k = b.key cfg
          · subst hkk; rw [lookup_insert_self] at hk; simp at hk; subst hk
            exact hinv.majNone hn _ bv hl
          · rw [lookup_insert_ne _ _ _ _ hkk] at hk; exact hinv.majNone hn k bv2 hk
    | none =>
      simp only
      refine ⟨⟨hinv.len, hinv.sum, fun j w hw => (hinv.slot j w hw).params' rfl rfl rfl rfl,
        ?_, ?_, ?_, ?_, ?_⟩, ⟨rfl, rfl, rfl, rfl⟩⟩
      · intro k bv2 hk
        simp only at hk ⊢
        by_cases hkk : k = b.key cfg
        · subst hkk; rw [lookup_insert_self] at hk; simp at hk; subst hk; simp
        · rw [lookup_insert_ne _ _ _ _ hkk] at hk; exact hinv.entryLen k bv2 hk
      · intro k bv2 hk
        simp only at hk ⊢
        by_cases hkk : k = b.key cfg
        · subst hkk; rw [lookup_insert_self] at hk; simp at hk; subst hk
          simp [tally_replicate_none]
        · rw [lookup_insert_ne _ _ _ _ hkk] at hk; exact hinv.entrySum k bv2 hk
      · intro k bv2 hk j w hw
        simp only at hk ⊢
        by_cases hkk : k = b.key cfg
        · subst hkk; rw [lookup_insert_self] at hk; simp at hk; subst hk
          simp [List.getElem?_replicate] at hw
        · rw [lookup_insert_ne _ _ _ _ hkk] at hk
          obtain ⟨g, a, c⟩ := hinv.entrySlot k bv2 hk j w hw
          exact ⟨g.params' rfl rfl rfl rfl, a, c⟩
      · intro b2 hb2
        simp only at hb2 ⊢
        obtain ⟨bv2, h1, h2, h3⟩ := hinv.majSound b2 hb2
        by_cases hkk : b2.key cfg = b.key cfg
        · rw [hkk, hl] at h1; simp at h1
        · exact ⟨bv2, by rw [lookup_insert_ne _ _ _ _ hkk]; exact h1, h2, h3⟩
      · intro hn k bv2 hk
        simp only at hn hk ⊢
        by_cases hkk : k = b.key cfg
        · subst hkk; rw [lookup_insert_self] at hk; simp at hk; subst hk
          exact quorum_pos _ hpos
        · rw [lookup_insert_ne _ _ _ _ hkk] at hk; exact hinv.majNone hn k bv2 hk


/-! ### how `maj23` can change -/

theorem primary_maj23 {cfg : Cfg} {vs vs1 : VoteSet} {v : Vote} {i : Nat} {key : Bytes} {power : Int}
    {c : Option Vote} (hp : primary cfg vs v i key power = some (vs1, c)) : vs1.maj23 = vs.maj23 := by
  unfold primary at hp
  split at hp
  · split at hp
    · simp at hp
    · split at hp <;> (simp at hp; obtain ⟨h1, _⟩ := hp; subst h1; rfl)
  · simp at hp; obtain ⟨h1, _⟩ := hp; subst h1; rfl

theorem applyTally_maj23 (vs : VoteSet) (key : Bytes) (bv : BlockVotes) (i : Nat) (v : Vote)
    (power : Int) :
    (applyTally vs key bv i v power).maj23 = vs.maj23 ∨
    (vs.maj23 = none ∧ (applyTally vs key bv i v power).maj23 = some v.bid) := by
  unfold applyTally
  split
  · rename_i h; exact Or.inr ⟨h.2.2, rfl⟩
  · exact Or.inl rfl

theorem addVerified_maj23 (cfg : Cfg) (vs : VoteSet) (v : Vote) (i : Nat) (key : Bytes) (power : Int) :
    (addVerified cfg vs v i key power).1.maj23 = vs.maj23 ∨
    (vs.maj23 = none ∧ (addVerified cfg vs v i key power).1.maj23 = some v.bid) := by
  unfold addVerified
  cases hp : primary cfg vs v i key power with
  | none => exact Or.inl rfl
  | some pr =>
    obtain ⟨vs1, c⟩ := pr
    have h1 := primary_maj23 hp
    simp only
    cases hs : selectEntry vs1 key c.isSome with
    | none => exact Or.inl h1
    | some bv =>
      simp only
      rcases applyTally_maj23 vs1 key bv i v power with h | ⟨h, h'⟩
      · exact Or.inl (h.trans h1)
      · exact Or.inr ⟨h1 ▸ h, h'⟩

/-- `AddVote` either leaves the reported majority alone, or sets it (from none) to the block of
    the vote just added, whose signature verified. -/
theorem addVote_maj23 (cfg : Cfg) (vs : VoteSet) (v : Vote) (sigok : Bool) :
    (addVote cfg vs v sigok).1.maj23 = vs.maj23 ∨
    (vs.maj23 = none ∧ (addVote cfg vs v sigok).1.maj23 = some v.bid ∧ sigok = true) := by
  unfold addVote
  simp only
  repeat' split
  all_goals first
    | exact Or.inl rfl
    | (rename_i hsig
       have hsig' : sigok = true := by simpa using hsig
       rcases addVerified_maj23 cfg vs v v.idx.toNat (v.bid.key cfg) _ with h | ⟨h, h'⟩
       · exact Or.inl h
       · exact Or.inr ⟨h, h', hsig'⟩)

theorem setPeerMaj23_maj23 (cfg : Cfg) (vs : VoteSet) (peer : String) (b : BlockID) :
    (setPeerMaj23 cfg vs peer b).maj23 = vs.maj23 := by
  unfold setPeerMaj23
  split
  · rfl
  · simp only
    split
    · split <;> rfl
    · rfl


/-! ### single-step facts used by the property theorems -/

/-- a vote that passes every guard of `addVote` reaches `addVerifiedVote` -/
theorem addVote_eq_addVerified (cfg : Cfg) (vs : VoteSet) (v : Vote) (i : Nat) (val : Validator)
    (hidx : v.idx = (i : Int)) (hval : vs.vals[i]? = some val) (haddr : val.addr = v.addr)
    (hne : v.addr ≠ []) (hh : v.height = vs.height) (hr : v.round = vs.round) (ht : v.type = vs.type)
    (hnew : getVote cfg vs i (v.bid.key cfg) = none) :
    addVote cfg vs v true = addVerified cfg vs v i (v.bid.key cfg) val.power := by
  have hi : v.idx.toNat = i := by omega
  have h1 : ¬ (v.idx < 0) := by omega
  have h2 : v.addr.isEmpty = false := by
    cases hv : v.addr with
    | nil => exact absurd hv hne
    | cons _ _ => rfl
  unfold addVote
  simp only [hi]
  rw [if_neg (by simp [h1, h2]), if_neg h1, if_neg (by simp [h2]), if_neg (by simp [hh, hr, ht])]
  simp only [hval]
  rw [if_neg (by simp [haddr])]
  simp only [hnew]
  rw [if_neg (by simp)]

theorem primary_first (cfg : Cfg) (vs : VoteSet) (v : Vote) (i : Nat) (key : Bytes) (power : Int)
    (hfirst : vs.votes[i]? = some none) :
    primary cfg vs v i key power =
      some ({ vs with votes := vs.votes.set i (some v), sum := vs.sum + power }, none) := by
  unfold primary; rw [hfirst]; rfl

theorem primary_conflict (cfg : Cfg) (vs : VoteSet) (v e : Vote) (i : Nat) (key : Bytes) (power : Int)
    (hprev : vs.votes[i]? = some (some e)) (hdiff : e.bid ≠ v.bid) :
    ∃ vs1, primary cfg vs v i key power = some (vs1, some e) := by
  unfold primary; rw [hprev]
  simp only [Option.join, Option.bind, id]
  rw [if_neg hdiff]
  split <;> exact ⟨_, rfl⟩

theorem selectEntry_nonconflicting (vs : VoteSet) (key : Bytes) :
    ∃ bv, selectEntry vs key false = some bv := by
  unfold selectEntry
  split
  · simp
  · simp

end AnnVerif.VoteSet
