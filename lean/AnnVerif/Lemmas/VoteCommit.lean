import AnnVerif.Lemmas.VoteSetInv
import AnnVerif.Lemmas.VoteKey
namespace AnnVerif.VoteSet

/-- power of the positions whose precommit is for exactly `b` -/
def tallyB (b : BlockID) : List Int → List (Option Vote) → Int
  | p :: ps, some v :: ss => (if b = v.bid then p else 0) + tallyB b ps ss
  | _ :: ps, none :: ss => tallyB b ps ss
  | _, _ => 0

/-- what `VerifyCommit` demands of the precommit in slot `j` when the slot check is on: it carries
    the index and the address of the validator of that slot -/
def SlotOk (vals : List Validator) (i0 j : Nat) (v : Vote) : Prop :=
  v.idx = ((i0 + j : Nat) : Int) ∧ ∃ val, vals[j]? = some val ∧ val.addr = v.addr

theorem tallyCommit_ok (slot : Bool) (sigok : Nat → Vote → Bool) (b : BlockID) (H R : Int) :
    ∀ (slots : List (Option Vote)) (vals : List Validator) (i0 : Nat) (acc : Int),
    vals.length = slots.length →
    (∀ (j : Nat) (v : Vote), slots[j]? = some (some v) →
      v.height = H ∧ v.round = R ∧ v.type = 2 ∧ sigok (i0 + j) v = true ∧
      (slot = true → SlotOk vals i0 j v)) →
    tallyCommit slot sigok b H R i0 vals slots acc = .ok (acc + tallyB b (powers vals) slots) := by
  intro slots
  induction slots with
  | nil =>
    intro vals i0 acc hl _
    have : vals = [] := List.eq_nil_of_length_eq_zero (by simpa using hl)
    subst this; simp [tallyCommit, tallyB, powers]
  | cons s t ih =>
    intro vals i0 acc hl hall
    cases vals with
    | nil => simp at hl
    | cons val vt =>
      have hl' : vt.length = t.length := by simpa using hl
      have hall' : ∀ (j : Nat) (v : Vote), t[j]? = some (some v) →
          v.height = H ∧ v.round = R ∧ v.type = 2 ∧ sigok (i0 + 1 + j) v = true ∧
          (slot = true → SlotOk vt (i0 + 1) j v) := by
        intro j v hv
        obtain ⟨a1, a2, a3, a4, a5⟩ := hall (j + 1) v (by simpa using hv)
        have e : i0 + (j + 1) = i0 + 1 + j := by omega
        rw [e] at a4
        refine ⟨a1, a2, a3, a4, ?_⟩
        intro hs
        obtain ⟨b1, b2⟩ := a5 hs
        exact ⟨by rw [b1, e], by simpa using b2⟩
      cases s with
      | none =>
        simp only [tallyCommit, powers, List.map_cons, tallyB]
        rw [ih vt (i0 + 1) acc hl' hall']; rfl
      | some p =>
        obtain ⟨h1, h2, h3, h4, h5⟩ := hall 0 p (by simp)
        have h4' : sigok i0 p = true := by simpa using h4
        have hslot : ¬ (slot = true ∧ (p.idx ≠ (i0 : Int) ∨ p.addr ≠ val.addr)) := by
          rintro ⟨hs, hbad⟩
          obtain ⟨b1, val', b2, b3⟩ := h5 hs
          simp at b2; subst b2
          rcases hbad with hb | hb
          · exact hb (by simpa using b1)
          · exact hb b3.symm
        simp only [tallyCommit, powers, List.map_cons, tallyB]
        rw [if_neg (by simp [h1]), if_neg (by simp [h2]), if_neg (by simp [h3]),
          if_neg (by simp [h4']), if_neg hslot]
        by_cases hb : b = p.bid
        · rw [if_pos hb, if_pos hb]
          rw [ih vt (i0 + 1) _ hl' hall']
          simp [powers]; omega
        · rw [if_neg hb, if_neg hb]
          rw [ih vt (i0 + 1) _ hl' hall']
          simp [powers]

theorem tallyB_ge (b : BlockID) (ps : List Int) (hp : ∀ p ∈ ps, 0 ≤ p) :
    ∀ (slots bvv : List (Option Vote)), slots.length = bvv.length →
    (∀ (j : Nat) (w : Vote), bvv[j]? = some (some w) →
      ∃ v', slots[j]? = some (some v') ∧ v'.bid = b) →
    tally ps bvv ≤ tallyB b ps slots := by
  induction ps with
  | nil => intro slots bvv _ _; cases bvv <;> cases slots <;> simp [tally, tallyB]
  | cons q qs ih =>
    intro slots bvv hl h
    have hq := hp q (by simp)
    have hqs : ∀ p ∈ qs, 0 ≤ p := fun p hp' => hp p (by simp [hp'])
    cases bvv with
    | nil =>
      have : slots = [] := List.eq_nil_of_length_eq_zero (by simpa using hl)
      subst this; simp [tally, tallyB]
    | cons x xs =>
      cases slots with
      | nil => simp at hl
      | cons y ys =>
        have ih' := ih hqs ys xs (by simpa using hl)
          (fun (j : Nat) (w : Vote) hw => by simpa using h (j + 1) w (by simpa using hw))
        have hnn : ∀ (ss : List (Option Vote)), 0 ≤ tallyB b qs ss := by
          intro ss
          clear ih ih' h hl
          induction qs generalizing ss with
          | nil => cases ss with
            | nil => simp [tallyB]
            | cons s _ => cases s <;> simp [tallyB]
          | cons r rs ih2 =>
            have hr := hqs r (by simp)
            have := ih2 (fun p hp' => hp p (by simp at hp' ⊢; rcases hp' with h | h <;> simp [h]))
              (fun p hp' => hqs p (by simp [hp']))
            cases ss with
            | nil => simp [tallyB]
            | cons s st =>
              cases s with
              | none => simpa [tallyB] using this st
              | some v => simp only [tallyB]; have := this st; split <;> omega
        cases x with
        | none =>
          cases y with
          | none => simpa [tally, tallyB] using ih'
          | some v => simp only [tally, tallyB]; split <;> omega
        | some w =>
          obtain ⟨v', hv', hb⟩ := h 0 w (by simp)
          simp at hv'; subst hv'
          simp only [tally, tallyB, hb, if_true]; omega

theorem firstPrecommit_none_tally (ps : List Int) (slots : List (Option Vote))
    (h : firstPrecommit slots = none) : tally ps slots = 0 := by
  induction slots generalizing ps with
  | nil => cases ps <;> simp [tally]
  | cons s t ih =>
    cases s with
    | some v => simp [firstPrecommit] at h
    | none =>
      simp [firstPrecommit] at h
      cases ps <;> simp [tally, ih _ h]

theorem firstPrecommit_some (slots : List (Option Vote)) (f : Vote)
    (h : firstPrecommit slots = some f) : ∃ j : Nat, slots[j]? = some (some f) := by
  induction slots with
  | nil => simp [firstPrecommit] at h
  | cons s t ih =>
    cases s with
    | some v => simp [firstPrecommit] at h; subst h; exact ⟨0, by simp⟩
    | none =>
      simp [firstPrecommit] at h
      obtain ⟨j, hj⟩ := ih h
      exact ⟨j + 1, by simpa using hj⟩

end AnnVerif.VoteSet
