import AnnVerif.Lemmas.VoteSetInv
import AnnVerif.Lemmas.VoteKey
namespace AnnVerif.VoteSet

/-- power of the positions whose precommit is for exactly `b` -/
def tallyB (b : BlockID) : List Int → List (Option Vote) → Int
  | p :: ps, some v :: ss => (if b = v.bid then p else 0) + tallyB b ps ss
  | _ :: ps, none :: ss => tallyB b ps ss
  | _, _ => 0

theorem tallyCommit_ok (sigok : Nat → Vote → Bool) (b : BlockID) (H R : Int) :
    ∀ (slots : List (Option Vote)) (vals : List Validator) (i0 : Nat) (acc : Int),
    vals.length = slots.length →
    (∀ (j : Nat) (v : Vote), slots[j]? = some (some v) →
      v.height = H ∧ v.round = R ∧ v.type = 2 ∧ sigok (i0 + j) v = true) →
    tallyCommit sigok b H R i0 vals slots acc = .ok (acc + tallyB b (powers vals) slots) := by
  intro slots
  induction slots with
  | nil =>
    intro vals i0 acc hl _
    have : vals = [] := List.eq_nil_of_length_eq_zero (by simpa using hl)
    subst this; simp [tallyCommit, tallyB, powers]
  | cons s t ih =>
    intro vals i0 acc hl hall
    cases vals with
    | nil => simp at hl
    | cons val vt =>
      have hl' : vt.length = t.length := by simpa using hl
      have hall' : ∀ (j : Nat) (v : Vote), t[j]? = some (some v) →
          v.height = H ∧ v.round = R ∧ v.type = 2 ∧ sigok (i0 + 1 + j) v = true := by
        intro j v hv
        have := hall (j + 1) v (by simpa using hv)
        have e : i0 + (j + 1) = i0 + 1 + j := by omega
        rw [e] at this; exact this
      cases s with
      | none =>
        simp only [tallyCommit, powers, List.map_cons, tallyB]
        rw [ih vt (i0 + 1) acc hl' hall']; rfl
      | some p =>
        obtain ⟨h1, h2, h3, h4⟩ := hall 0 p (by simp)
        simp only [tallyCommit, powers, List.map_cons, tallyB]
        simp only [h1, h2, h3, ne_eq, not_true_eq_false, if_false, Nat.add_zero] at h4 ⊢
        simp only [h4, Bool.not_true, Bool.false_eq_true, if_false]
        by_cases hb : b = p.bid
        · subst hb
          simp only [if_true]
          rw [ih vt (i0 + 1) _ hl' hall']
          simp [powers]; omega
        · simp only [hb, if_false]
          rw [ih vt (i0 + 1) _ hl' hall']
          simp [powers]

theorem tallyB_ge (b : BlockID) (ps : List Int) (hp : ∀ p ∈ ps, 0 ≤ p) :
    ∀ (slots bvv : List (Option Vote)), slots.length = bvv.length →
    (∀ (j : Nat) (w : Vote), bvv[j]? = some (some w) →
      ∃ v', slots[j]? = some (some v') ∧ v'.bid = b) →
    tally ps bvv ≤ tallyB b ps slots := by
  induction ps with
  | nil => intro slots bvv _ _; cases bvv <;> cases slots <;> simp [tally, tallyB]
  | cons q qs ih =>
    intro slots bvv hl h
    have hq := hp q (by simp)
    have hqs : ∀ p ∈ qs, 0 ≤ p := fun p hp' => hp p (by simp [hp'])
    cases bvv with
    | nil =>
      have : slots = [] := List.eq_nil_of_length_eq_zero (by simpa using hl)
      subst this; simp [tally, tallyB]
    | cons x xs =>
      cases slots with
      | nil => simp at hl
      | cons y ys =>
        have ih' := ih hqs ys xs (by simpa using hl)
          (fun (j : Nat) (w : Vote) hw => by simpa using h (j + 1) w (by simpa using hw))
        have hnn : ∀ (ss : List (Option Vote)), 0 ≤ tallyB b qs ss := by
          intro ss
          clear ih ih' h hl
          induction qs generalizing ss with
          | nil => cases ss with
            | nil => simp [tallyB]
            | cons s _ => cases s <;> simp [tallyB]
          | cons r rs ih2 =>
            have hr := hqs r (by simp)
            have := ih2 (fun p hp' => hp p (by simp at hp' ⊢; rcases hp' with h | h <;> simp [h]))
              (fun p hp' => hqs p (by simp [hp']))
            cases ss with
            | nil => simp [tallyB]
            | cons s st =>
              cases s with
              | none => simpa [tallyB] using this st
              | some v => simp only [tallyB]; have := this st; split <;> omega
        cases x with
        | none =>
          cases y with
          | none => simpa [tally, tallyB] using ih'
          | some v => simp only [tally, tallyB]; split <;> omega
        | some w =>
          obtain ⟨v', hv', hb⟩ := h 0 w (by simp)
          simp at hv'; subst hv'
          simp only [tally, tallyB, hb, if_true]; omega

theorem firstPrecommit_none_tally (ps : List Int) (slots : List (Option Vote))
    (h : firstPrecommit slots = none) : tally ps slots = 0 := by
  induction slots generalizing ps with
  | nil => cases ps <;> simp [tally]
  | cons s t ih =>
    cases s with
    | some v => simp [firstPrecommit] at h
    | none =>
      simp [firstPrecommit] at h
      cases ps <;> simp [tally, ih _ h]

theorem firstPrecommit_some (slots : List (Option Vote)) (f : Vote)
    (h : firstPrecommit slots = some f) : ∃ j : Nat, slots[j]? = some (some f) := by
  induction slots with
  | nil => simp [firstPrecommit] at h
  | cons s t ih =>
    cases s with
    | some v => simp [firstPrecommit] at h; subst h; exact ⟨0, by simp⟩
    | none =>
      simp [firstPrecommit] at h
      obtain ⟨j, hj⟩ := ih h
      exact ⟨j + 1, by simpa using hj⟩

end AnnVerif.VoteSet
