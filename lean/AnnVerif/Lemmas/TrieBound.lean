/-
  `SmallT` (every node's encoding fits the 64-bit sizes of the RLP decoder) follows from plain
  bounds: short-node keys of at most 2^32 nibbles and values of at most 2^32 bytes.
-/
import AnnVerif.Lemmas.TrieProof
import AnnVerif.Lemmas.TrieCanon
set_option linter.unusedSimpArgs false
namespace AnnVerif.Trie
open AnnVerif.Rlp

theorem beMin_length_le : ∀ (f n : Nat), (beMin f n).length ≤ f
  | 0, _ => by simp [beMin]
  | f + 1, n => by
    rw [beMin]
    split
    · simp
    · have := beMin_length_le f (n / 256)
      simp only [List.length_append, List.length_cons, List.length_nil]; omega

theorem header_length_le (small large len : Nat) : (header small large len).length ≤ 10 := by
  unfold header
  split
  · simp
  · have := beMin_length_le 9 len
    simp only [List.length_cons, beMinBytes]; omega

theorem encodeStr_length_le (b : Bytes) : (encodeStr b).length ≤ b.length + 10 := by
  unfold encodeStr
  split
  · split
    · simp
    · have := header_length_le 0x80 0xB7 1; simp only [List.length_append, List.length_cons, List.length_nil]; omega
  · have := header_length_le 0x80 0xB7 b.length; simp only [List.length_append]; omega

theorem pack_length : ∀ (n : Nat) (hex : List Nat), hex.length ≤ n → (hexToCompact.pack hex).length ≤ hex.length / 2
  | 0, hex, h => by
    have : hex = [] := List.eq_nil_of_length_eq_zero (by omega)
    subst this; simp [hexToCompact.pack]
  | n + 1, hex, h => by
    match hex, h with
    | [], _ => simp [hexToCompact.pack]
    | [_], _ => simp [hexToCompact.pack]
    | a :: b :: r, h =>
      have := pack_length n r (by simp at h; omega)
      simp only [hexToCompact.pack, List.length_cons]; omega

theorem hexToCompact_length_le (k : Key) : (hexToCompact k).length ≤ k.length / 2 + 1 := by
  unfold hexToCompact
  by_cases ht : hasTerm k = true
  · simp only [ht, if_true]
    split
    · have := pack_length _ k.dropLast.tail (Nat.le_refl _)
      simp only [List.length_cons, List.length_tail, List.length_dropLast] at this ⊢
      omega
    · have := pack_length _ k.dropLast (Nat.le_refl _)
      simp only [List.length_cons, List.length_dropLast] at this ⊢
      omega
  · simp only [ht, Bool.false_eq_true, if_false]
    split
    · have := pack_length _ k.tail (Nat.le_refl _)
      simp only [List.length_cons, List.length_tail] at this ⊢
      omega
    · have := pack_length _ k (Nat.le_refl _)
      simp only [List.length_cons] at this ⊢
      omega

mutual
  /-- short-node keys of at most `K` nibbles, values of at most `V` bytes -/
  def Bnd (K V : Nat) : Node → Prop
    | .empty => True
    | .value v => v.length ≤ V
    | .short key c => key.length ≤ K ∧ Bnd K V c
    | .full cs => cs.length ≤ 17 ∧ BndC K V cs
  def BndC (K V : Nat) : Children → Prop
    | .nil => True
    | .cons n r => Bnd K V n ∧ BndC K V r
end

section
variable (H : Bytes → Bytes)

/-- a reference is small and short when the node it refers to is -/
theorem ref_small (Hlen : ∀ x, (H x).length = 32) {K V : Nat} (hV : V ≤ 2 ^ 32) (c : Node) (hb : Bnd K V c)
    (hs : SmallT H c) : smallOne (ref H c) ∧ (encode (ref H c)).length ≤ V + 42 := by
  cases c with
  | empty =>
    rw [ref_empty]
    refine ⟨by rw [smallOne]; simp, ?_⟩
    rw [encode]; have := encodeStr_length_le []; simp at this; omega
  | value v =>
    rw [ref_value]
    simp only [Bnd] at hb
    refine ⟨by rw [smallOne]; omega, ?_⟩
    rw [encode]; have := encodeStr_length_le v; omega
  | short key c' =>
    rw [ref_short]
    simp only [SmallT] at hs
    split
    · rename_i hemb; exact ⟨hs.1, by omega⟩
    · refine ⟨by rw [smallOne, Hlen]; omega, ?_⟩
      rw [encode]; have := encodeStr_length_le (H (encode (enc H (.short key c')))); rw [Hlen] at this; omega
  | full cs =>
    rw [ref_full]
    simp only [SmallT] at hs
    split
    · rename_i hemb; exact ⟨hs.1, by omega⟩
    · refine ⟨by rw [smallOne, Hlen]; omega, ?_⟩
      rw [encode]; have := encodeStr_length_le (H (encode (enc H (.full cs)))); rw [Hlen] at this; omega

mutual
  theorem bnd_small (Hlen : ∀ x, (H x).length = 32) {K V : Nat} (hK : K ≤ 2 ^ 32) (hV : V ≤ 2 ^ 32) :
      ∀ n : Node, Bnd K V n → SmallT H n
    | .empty, _ => by simp [SmallT]
    | .value _, _ => by simp [SmallT]
    | .short key c, hb => by
      simp only [Bnd] at hb
      have hc := bnd_small Hlen hK hV c hb.2
      simp only [SmallT]
      refine ⟨?_, hc⟩
      obtain ⟨r1, r2⟩ := ref_small H Hlen hV c hb.2 hc
      rw [enc_short, smallOne]
      have hk := hexToCompact_length_le key
      have he := encodeStr_length_le (hexToCompact key)
      refine ⟨?_, ?_⟩
      · simp only [encodeList, List.length_append, List.length_nil, encode]
        omega
      · simp only [smallItems]
        exact ⟨by rw [smallOne]; omega, r1, trivial⟩
    | .full cs, hb => by
      simp only [Bnd] at hb
      obtain ⟨h1, h2, h3⟩ := bndc_small Hlen hK hV cs hb.2 hb.1
      simp only [SmallT]
      refine ⟨?_, h1⟩
      rw [enc_full, smallOne]
      exact ⟨h3, h2⟩
  theorem bndc_small (Hlen : ∀ x, (H x).length = 32) {K V : Nat} (hK : K ≤ 2 ^ 32) (hV : V ≤ 2 ^ 32) :
      ∀ cs : Children, BndC K V cs → cs.length ≤ 17 → SmallC H cs ∧ smallItems (encChildren H cs) ∧
        (encodeList (encChildren H cs)).length < 2 ^ 64
    | cs, hb, hl => by
      have := bndc_len Hlen hK hV cs hb
      refine ⟨this.1, this.2.1, ?_⟩
      have h3 := this.2.2
      have : cs.length * (V + 42) ≤ 17 * (2 ^ 32 + 42) := Nat.mul_le_mul hl (by omega)
      omega
  theorem bndc_len (Hlen : ∀ x, (H x).length = 32) {K V : Nat} (hK : K ≤ 2 ^ 32) (hV : V ≤ 2 ^ 32) :
      ∀ cs : Children, BndC K V cs → SmallC H cs ∧ smallItems (encChildren H cs) ∧
        (encodeList (encChildren H cs)).length ≤ cs.length * (V + 42)
    | .nil, _ => by
      rw [encChildren]; simp [SmallC, smallItems, encodeList]
    | .cons n r, hb => by
      simp only [BndC] at hb
      have hn := bnd_small Hlen hK hV n hb.1
      obtain ⟨h1, h2, h3⟩ := bndc_len Hlen hK hV r hb.2
      obtain ⟨r1, r2⟩ := ref_small H Hlen hV n hb.1 hn
      rw [encChildren]
      simp only [SmallC, smallItems, encodeList, List.length_append, Children.length]
      refine ⟨⟨hn, h1⟩, ⟨r1, h2⟩, ?_⟩
      have : (r.length + 1) * (V + 42) = r.length * (V + 42) + (V + 42) := by
        rw [Nat.add_mul, Nat.one_mul]
      omega
end
end

/-! ### the bounds follow from the content -/

/-- every terminated key the subtree at path `p` holds is at most `L` nibbles long (path included),
    every value at most `V` bytes -/
def CBp (L V : Nat) (p : Key) (t : Node) : Prop :=
  ∀ r v, TermKey (p ++ r) → getN t r = some v → (p ++ r).length ≤ L ∧ v.length ≤ V

theorem bndc_of_get {K V : Nat} : ∀ (cs : Children), (∀ i, Bnd K V (cs.get i)) → BndC K V cs
  | .nil, _ => by simp [BndC]
  | .cons n r, h => by
    simp only [BndC]
    refine ⟨by simpa [Children.get] using h 0, bndc_of_get r (fun i => by simpa [Children.get] using h (i + 1))⟩

theorem cb_bnd_sized (L V : Nat) : ∀ (n : Nat) (t : Node) (p : Key), t.size ≤ n →
    ((NK p ∧ WF t) ∨ (TermKey p ∧ ∃ w, t = .value w)) → Br t → CBp L V p t → Bnd L V t := by
  intro n
  induction n with
  | zero =>
    intro t p hs hw _ hc
    cases t with
    | empty => simp [Bnd]
    | value w => simp [Node.size] at hs
    | short _ _ => simp [Node.size] at hs
    | full _ => simp [Node.size] at hs
  | succ n ih =>
    intro t p hs hw hb hc
    rcases hw with ⟨hp, hw⟩ | ⟨hp, w, rfl⟩
    · cases t with
      | empty => simp [Bnd]
      | value _ => simp [WF] at hw
      | short key c =>
        simp only [Node.size] at hs
        rcases wf_short hw with ⟨hk, w, rfl⟩ | ⟨hk, cs, rfl, hcs⟩
        · have := hc key w ((tk_append (tk_ne_nil hk)).mpr ⟨hp, hk⟩) (getN_short_value_self hk w)
          simp only [Bnd]
          simp only [List.length_append] at this
          exact ⟨by omega, this.2⟩
        · simp only [Br] at hb
          have hwf : WF (.full cs) := by simpa only [WF] using hcs
          have hbf : Br (.full cs) := by simpa only [Br] using hb
          obtain ⟨r0, v0, hr0, hg0⟩ := witness hwf hbf rfl
          have hk0 : TermKey (p ++ (key ++ r0)) := by
            rw [← List.append_assoc]
            exact (tk_append (tk_ne_nil hr0)).mpr ⟨nk_append.mpr ⟨hp, hk.2⟩, hr0⟩
          have h0 := hc (key ++ r0) v0 hk0 (by rw [getN_short_append hw]; exact hg0)
          simp only [Bnd]
          refine ⟨by simp only [List.length_append] at h0; omega, ?_⟩
          apply ih (.full cs) (p ++ key) (by omega) (Or.inl ⟨nk_append.mpr ⟨hp, hk.2⟩, hwf⟩) hbf
          intro r v hr hg
          have := hc (key ++ r) v (by rw [← List.append_assoc]; exact hr) (by rw [getN_short_append hw]; exact hg)
          rw [← List.append_assoc] at this
          exact this
      | full cs =>
        simp only [Node.size] at hs
        have hwc : WFC cs 0 := by simpa only [WF] using hw
        have hlen := wfc_length cs 0 hwc
        simp only [Br] at hb
        simp only [Bnd]
        refine ⟨by omega, bndc_of_get cs ?_⟩
        intro i
        by_cases hi : i < 17
        · have hsl := wfc_get cs 0 i hwc (by omega)
          simp only [Nat.zero_add] at hsl
          have hcb : CBp L V (p ++ [i]) (cs.get i) := by
            intro r v hr hg
            have := hc (i :: r) v (by simpa using hr) (by rw [getN_full_cons]; exact hg)
            simpa using this
          have hsz : (cs.get i).size ≤ n := by have := size_get cs i; omega
          by_cases h16 : i = 16
          · subst h16
            simp only [slotOK, if_true] at hsl
            cases hn : cs.get 16 with
            | empty => simp [Bnd]
            | short _ _ => rw [hn] at hsl; simp [SlotVal] at hsl
            | full _ => rw [hn] at hsl; simp [SlotVal] at hsl
            | value w =>
              rw [hn] at hcb hsz
              exact ih (.value w) (p ++ [16]) hsz (Or.inr ⟨⟨p, rfl, hp⟩, w, rfl⟩) (by simp [Br]) hcb
          · simp only [slotOK, if_neg h16] at hsl
            exact ih (cs.get i) (p ++ [i]) hsz
              (Or.inl ⟨nk_append.mpr ⟨hp, nk_cons.mpr ⟨by omega, nk_nil⟩⟩, hsl⟩) (brc_get cs i hb.2) hcb
        · rw [Children.get_of_ge cs i (by omega)]; simp [Bnd]
    · have := hc [] w (by simpa using hp) rfl
      simp only [Bnd]; exact this.2

/-- a well-formed trie whose content is bounded has bounded nodes -/
theorem cb_bnd {L V : Nat} {t : Node} (hw : WF t) (hb : Br t) (hc : CBp L V [] t) : Bnd L V t :=
  cb_bnd_sized L V t.size t [] (Nat.le_refl _) (Or.inl ⟨nk_nil, hw⟩) hb hc

end AnnVerif.Trie
