/-
  Correctness of the (repaired) marker search of the WAL file group: over any layout of files whose
  markers are in ascending order, the binary search over file indices finds the marker of a height
  that is there — however the group was rotated (R4: search over the split log = search over the
  concatenation).
-/
import AnnVerif.Model.Wal
namespace AnnVerif.Wal

/-- markers are written in order: file indices never decrease, heights strictly increase -/
def Sorted (marks : Marks) : Prop :=
  marks.Pairwise (fun a b => a.file ≤ b.file ∧ a.height < b.height)

theorem sorted_rel {marks : Marks} (hs : Sorted marks) {a b : Mark} (ha : a ∈ marks) (hb : b ∈ marks)
    (hlt : a.height < b.height) : a.file ≤ b.file := by
  unfold Sorted at hs
  induction marks with
  | nil => simp at ha
  | cons x t ih =>
    rw [List.pairwise_cons] at hs
    obtain ⟨hx, ht⟩ := hs
    rcases List.mem_cons.mp ha with rfl | ha'
    · rcases List.mem_cons.mp hb with rfl | hb'
      · omega
      · exact (hx b hb').1
    · rcases List.mem_cons.mp hb with rfl | hb'
      · have := (hx a ha').2; omega
      · exact ih ht ha' hb'

theorem sorted_unique {marks : Marks} (hs : Sorted marks) {a b : Mark} (ha : a ∈ marks) (hb : b ∈ marks)
    (he : a.height = b.height) : a = b := by
  unfold Sorted at hs
  induction marks with
  | nil => simp at ha
  | cons x t ih =>
    rw [List.pairwise_cons] at hs
    obtain ⟨hx, ht⟩ := hs
    rcases List.mem_cons.mp ha with rfl | ha'
    · rcases List.mem_cons.mp hb with rfl | hb'
      · rfl
      · have := (hx b hb').2; omega
    · rcases List.mem_cons.mp hb with rfl | hb'
      · have := (hx a ha').2; omega
      · exact ih ht ha' hb'

theorem scanUntil_found : ∀ (l : List Mark) (m : Mark),
    l.Pairwise (fun a b => a.height < b.height) → m ∈ l → scanUntil l m.height = .found m := by
  intro l
  induction l with
  | nil => intro m _ hm; simp at hm
  | cons x t ih =>
    intro m hp hm
    rw [List.pairwise_cons] at hp
    obtain ⟨hx, ht⟩ := hp
    unfold scanUntil
    rcases List.mem_cons.mp hm with rfl | hm'
    · simp
    · have := hx m hm'
      rw [if_pos this]
      exact ih m ht hm'

theorem filter_heights_sorted {marks : Marks} (hs : Sorted marks) (p : Mark → Bool) :
    (marks.filter p).Pairwise (fun a b => a.height < b.height) :=
  (List.Pairwise.sublist List.filter_sublist hs).imp (fun h => h.2)

/-- the repaired binary search finds the marker, from any window that contains its file -/
theorem searchLoop_found (marks : Marks) (hs : Sorted marks) (m : Mark) (hm : m ∈ marks) :
    ∀ (fuel mn mx : Nat), mx - mn < fuel → mn ≤ m.file → m.file ≤ mx →
      searchLoop true marks m.height fuel mn mx = .found m := by
  intro fuel
  induction fuel with
  | zero => intro mn mx h; omega
  | succ fuel ih =>
    intro mn mx hf h1 h2
    unfold searchLoop
    by_cases he : mn = mx
    · rw [if_pos he]
      apply scanUntil_found _ _ (filter_heights_sorted hs _)
      rw [List.mem_filter]
      exact ⟨hm, by simp; omega⟩
    · rw [if_neg he]
      simp only
      have hlt : mn < mx := by omega
      have hc1 : mn < (mn + mx + 1) / 2 := by omega
      have hc2 : (mn + mx + 1) / 2 ≤ mx := by omega
      cases hsn : scanNext marks ((mn + mx + 1) / 2) with
      | none =>
        simp only [if_true]
        unfold scanNext at hsn
        rw [List.find?_eq_none] at hsn
        have := hsn m hm
        simp at this
        exact ih mn _ (by omega) h1 (by omega)
      | some q =>
        simp only
        unfold scanNext at hsn
        rw [List.find?_eq_some_iff_append] at hsn
        obtain ⟨hq, as, bs, hsplit, hfirst⟩ := hsn
        simp at hq
        have hqm : q ∈ marks := by rw [hsplit]; simp
        by_cases c1 : q.height < m.height
        · rw [if_pos c1]
          have := sorted_rel hs hqm hm c1
          exact ih q.file mx (by omega) this h2
        · rw [if_neg c1]
          by_cases c2 : q.height = m.height
          · rw [if_pos c2]
            have hqe : q = m := sorted_unique hs hqm hm c2
            subst hqe
            apply scanUntil_found _ _ (filter_heights_sorted hs _)
            rw [List.mem_filter]
            exact ⟨hm, by simp⟩
          · rw [if_neg c2]
            -- q is above the target: the target was written before q, and q is the FIRST marker
            -- in file `cur` or later, so the target is in an earlier file
            have hgt : m.height < q.height := by omega
            have hmas : m ∈ as := by
              rw [hsplit] at hm
              rcases List.mem_append.mp hm with h | h
              · exact h
              · rcases List.mem_cons.mp h with rfl | hb
                · omega
                · exfalso
                  have hs' := hs
                  unfold Sorted at hs'
                  rw [hsplit, List.pairwise_append] at hs'
                  have := (List.pairwise_cons.mp hs'.2.1).1 m hb
                  omega
            have := hfirst m hmas
            simp at this
            exact ih mn _ (by omega) h1 (by omega)

/-- R4: `Group.Search` (repaired) finds the marker of every height present in the group -/
theorem search_finds (marks : Marks) (nFiles : Nat) (hs : Sorted marks) (m : Mark) (hm : m ∈ marks)
    (hfile : m.file < nFiles) : search true marks nFiles m.height = .found m := by
  unfold search
  exact searchLoop_found marks hs m hm _ 0 _ (by omega) (by omega) (by omega)

end AnnVerif.Wal
