import AnnVerif.Lemmas.Pool
namespace AnnVerif.Pool

/-- what holds in every reachable state of the (repaired) pool -/
structure Inv (p : Pool) : Prop where
  pS : ∀ a, Sorted (p.pending a)
  wS : ∀ a, Sorted (p.waiting a)
  pO : ∀ a t, t ∈ p.pending a → t.sender = a
  wO : ∀ a t, t ∈ p.waiting a → t.sender = a
  pB : mCount p.pending ≤ p.pendingLimit
  wB : mCount p.waiting ≤ p.waitingLimit
  supp : ∀ a, a ∉ accounts → p.pending a = [] ∧ p.waiting a = []

theorem sorted_dropLast (q : Queue) (h : Sorted q) : Sorted q.dropLast :=
  List.Pairwise.sublist (List.dropLast_sublist q) h

theorem qHas_false_of_not_mem (q : Queue) (n : Nat) (h : ∀ x ∈ q, x.nonce ≠ n) : qHas q n = false := by
  cases hq : qHas q n with
  | false => rfl
  | true => obtain ⟨x, hx, e⟩ := (qHas_iff q n).mp hq; exact absurd e (h x hx)

theorem foldl_qInsert_length : ∀ (l : List Tx) (q : Queue), (l.foldl qInsert q).length = q.length + l.length := by
  intro l
  induction l with
  | nil => intro q; simp
  | cons t r ih => intro q; simp [List.foldl, ih, qInsert_length]; omega

theorem mem_foldl_qInsert : ∀ (l : List Tx) (q : Queue) (x : Tx), x ∈ l.foldl qInsert q ↔ x ∈ q ∨ x ∈ l := by
  intro l
  induction l with
  | nil => intro q x; simp
  | cons t r ih =>
    intro q x
    simp only [List.foldl, ih, mem_qInsert, List.mem_cons]
    constructor
    · rintro ((h | h) | h) <;> simp [h]
    · rintro (h | h | h) <;> simp [h]

theorem foldl_qInsert_sorted : ∀ (l : List Tx) (q : Queue), Sorted q →
    (∀ t ∈ l, qHas q t.nonce = false) → l.Pairwise (fun a b => a.nonce ≠ b.nonce) →
    Sorted (l.foldl qInsert q) := by
  intro l
  induction l with
  | nil => intro q hs _ _; exact hs
  | cons t r ih =>
    intro q hs hq hd
    rw [List.pairwise_cons] at hd
    simp only [List.foldl]
    apply ih _ (qInsert_sorted q t hs (hq t (by simp)))
    · intro t' ht'
      apply qHas_false_of_not_mem
      intro x hx
      rcases (mem_qInsert q t x).mp hx with rfl | hx'
      · exact hd.1 t' ht'
      · intro e
        have := hq t' (by simp [ht'])
        have h2 : qHas q t'.nonce = true := (qHas_iff _ _).mpr ⟨x, hx', e⟩
        rw [this] at h2; cases h2
    · exact hd.2

theorem sorted_distinct (q : Queue) (h : Sorted q) : q.Pairwise (fun a b => a.nonce ≠ b.nonce) :=
  h.imp (fun h => Nat.ne_of_lt h)

/-! ### addWaiting -/

theorem getLast_mem (q : Queue) (mx : Tx) (h : q.getLast? = some mx) : mx ∈ q := List.mem_of_getLast? h

theorem dropLast_length_of_getLast (q : Queue) (mx : Tx) (h : q.getLast? = some mx) :
    q.dropLast.length + 1 = q.length := by
  cases q with
  | nil => simp at h
  | cons x r => simp [List.length_dropLast]

/-- replacing one account's waiting queue (and anything in the lookup cache) keeps the invariant -/
theorem inv_setWaiting (p : Pool) (h : Inv p) (a : Nat) (ha : a ∈ accounts) (q : Queue) (all' : List Nat)
    (hs : Sorted q) (ho : ∀ x ∈ q, x.sender = a) (hc : mCount (mSet p.waiting a q) ≤ p.waitingLimit) :
    Inv { p with waiting := mSet p.waiting a q, all := all' } := by
  refine ⟨h.pS, ?_, h.pO, ?_, h.pB, hc, ?_⟩
  · intro b
    show Sorted (mSet p.waiting a q b)
    by_cases e : b = a
    · subst e; rw [mSet_same]; exact hs
    · rw [mSet_other _ _ _ _ e]; exact h.wS b
  · intro b x hx
    have hx' : x ∈ mSet p.waiting a q b := hx
    by_cases e : b = a
    · subst e; rw [mSet_same] at hx'; exact ho x hx'
    · rw [mSet_other _ _ _ _ e] at hx'; exact h.wO b x hx'
  · intro b hnb
    have e : b ≠ a := fun e => hnb (e ▸ ha)
    refine ⟨(h.supp b hnb).1, ?_⟩
    show mSet p.waiting a q b = []
    rw [mSet_other _ _ _ _ e]; exact (h.supp b hnb).2

theorem inv_setPending (p : Pool) (h : Inv p) (a : Nat) (ha : a ∈ accounts) (q : Queue) (all' : List Nat)
    (hs : Sorted q) (ho : ∀ x ∈ q, x.sender = a) (hc : mCount (mSet p.pending a q) ≤ p.pendingLimit) :
    Inv { p with pending := mSet p.pending a q, all := all' } := by
  refine ⟨?_, h.wS, ?_, h.wO, hc, h.wB, ?_⟩
  · intro b
    show Sorted (mSet p.pending a q b)
    by_cases e : b = a
    · subst e; rw [mSet_same]; exact hs
    · rw [mSet_other _ _ _ _ e]; exact h.pS b
  · intro b x hx
    have hx' : x ∈ mSet p.pending a q b := hx
    by_cases e : b = a
    · subst e; rw [mSet_same] at hx'; exact ho x hx'
    · rw [mSet_other _ _ _ _ e] at hx'; exact h.pO b x hx'
  · intro b hnb
    have e : b ≠ a := fun e => hnb (e ▸ ha)
    refine ⟨?_, (h.supp b hnb).2⟩
    show mSet p.pending a q b = []
    rw [mSet_other _ _ _ _ e]; exact (h.supp b hnb).1

theorem inv_setAll (p : Pool) (h : Inv p) (all' : List Nat) : Inv { p with all := all' } :=
  ⟨h.pS, h.wS, h.pO, h.wO, h.pB, h.wB, h.supp⟩

/-- what `addWaiting` leaves alone -/
structure Frame (p p' : Pool) : Prop where
  pending : p'.pending = p.pending
  pl : p'.pendingLimit = p.pendingLimit
  wl : p'.waitingLimit = p.waitingLimit
  nonces : p'.nonces = p.nonces
  ext : p'.ext = p.ext

theorem addWaiting_inv (cfg : Cfg) (hcfg : cfg.replaceForgets = true) (p : Pool) (t : Tx) (h : Inv p)
    (ha : t.sender ∈ accounts) :
    Inv (addWaiting cfg p t).1 ∧ Frame p (addWaiting cfg p t).1 := by
  unfold addWaiting
  dsimp only
  by_cases hfull : mCount p.waiting ≥ p.waitingLimit
  · rw [if_pos hfull]
    cases hl : (p.waiting t.sender).getLast? with
    | none => exact ⟨h, rfl, rfl, rfl, rfl, rfl⟩
    | some mx =>
      simp only
      by_cases hle : mx.nonce ≤ t.nonce
      · rw [if_pos hle]; exact ⟨h, rfl, rfl, rfl, rfl, rfl⟩
      · rw [if_neg hle]
        by_cases hh : qHas (p.waiting t.sender).dropLast t.nonce = true
        · rw [if_pos hh]
          rw [if_pos hcfg]; exact ⟨h, rfl, rfl, rfl, rfl, rfl⟩
        · rw [if_neg hh]
          have hh' : qHas (p.waiting t.sender).dropLast t.nonce = false := by
            cases hq : qHas (p.waiting t.sender).dropLast t.nonce <;> simp_all
          refine ⟨?_, rfl, rfl, rfl, rfl, rfl⟩
          have hlen := dropLast_length_of_getLast _ _ hl
          have hcount := mCount_mSet p.waiting t.sender (qInsert (p.waiting t.sender).dropLast t) ha
          rw [qInsert_length] at hcount
          apply inv_setWaiting p h t.sender ha
          · exact qInsert_sorted _ _ (sorted_dropLast _ (h.wS _)) hh'
          · intro x hx
            rcases (mem_qInsert _ _ _).mp hx with rfl | hx'
            · rfl
            · exact h.wO _ x ((List.dropLast_sublist _).subset hx')
          · show mCount (mSet p.waiting t.sender (qInsert (p.waiting t.sender).dropLast t)) ≤ p.waitingLimit
            have := h.wB; omega
  · rw [if_neg hfull]
    by_cases hh : qHas (p.waiting t.sender) t.nonce = true
    · rw [if_pos hh]; exact ⟨h, rfl, rfl, rfl, rfl, rfl⟩
    · rw [if_neg hh]
      have hh' : qHas (p.waiting t.sender) t.nonce = false := by
        cases hq : qHas (p.waiting t.sender) t.nonce <;> simp_all
      refine ⟨?_, rfl, rfl, rfl, rfl, rfl⟩
      have hcount := mCount_mSet p.waiting t.sender (qInsert (p.waiting t.sender) t) ha
      rw [qInsert_length] at hcount
      have := inv_setWaiting p h t.sender ha (qInsert (p.waiting t.sender) t) p.all
        (qInsert_sorted _ _ (h.wS _) hh')
        (by intro x hx
            rcases (mem_qInsert _ _ _).mp hx with rfl | hx'
            · rfl
            · exact h.wO _ x hx')
        (by omega)
      exact this

/-! ### promoteExecutables -/

/-- what promotion leaves alone -/
structure Frame2 (p p' : Pool) : Prop where
  pl : p'.pendingLimit = p.pendingLimit
  wl : p'.waitingLimit = p.waitingLimit
  nonces : p'.nonces = p.nonces
  ext : p'.ext = p.ext

theorem promoteOne_inv (cfg : Cfg) (p : Pool) (a : Nat) (h : Inv p) (ha : a ∈ accounts) :
    Inv (promoteOne cfg p a) ∧ Frame2 p (promoteOne cfg p a) := by
  unfold promoteOne
  dsimp only
  by_cases hb : p.pendingLimit - mCount p.pending = 0
  · rw [if_pos hb]; exact ⟨h, rfl, rfl, rfl, rfl⟩
  · rw [if_neg hb]
    refine ⟨?_, rfl, rfl, rfl, rfl⟩
    -- the waiting queue: old ones dropped, then a prefix handed out
    have hsplit := qReadyN_split (qForward (p.waiting a) (nonceOf p a)).1 (nonceOf p a) (p.pendingLimit - mCount p.pending)
    generalize hw2 : (qReadyN (qForward (p.waiting a) (nonceOf p a)).1 (nonceOf p a) (p.pendingLimit - mCount p.pending)).1 = w2 at hsplit
    generalize hrd : (qReadyN (qForward (p.waiting a) (nonceOf p a)).1 (nonceOf p a) (p.pendingLimit - mCount p.pending)).2 = ready at hsplit
    obtain ⟨hcat, hlen⟩ := hsplit
    have hw1s : Sorted (qForward (p.waiting a) (nonceOf p a)).1 := filter_sorted _ _ (h.wS a)
    have hw2sub : w2.Sublist (p.waiting a) := by
      have : w2.Sublist (qForward (p.waiting a) (nonceOf p a)).1 := by rw [hcat]; exact List.sublist_append_right _ _
      exact this.trans List.filter_sublist
    have hrdsub : ready.Sublist (p.waiting a) := by
      have : ready.Sublist (qForward (p.waiting a) (nonceOf p a)).1 := by rw [hcat]; exact List.sublist_append_left _ _
      exact this.trans List.filter_sublist
    have hrds : Sorted ready := List.Pairwise.sublist hrdsub (h.wS a)
    -- step 1: the waiting queue
    have hc1 : mCount (mSet p.waiting a w2) ≤ p.waitingLimit := by
      have := mCount_mSet p.waiting a w2 ha
      have := hw2sub.length_le
      have := h.wB
      omega
    have inv1 := inv_setWaiting p h a ha w2 p.all (List.Pairwise.sublist hw2sub (h.wS a))
      (fun x hx => h.wO a x (hw2sub.subset hx)) hc1
    -- step 2: the pending queue
    let added := ready.filter (fun t => !qHas (p.pending a) t.nonce)
    have hadded_sub : added.Sublist ready := List.filter_sublist
    have hnew : Sorted (added.foldl qInsert (p.pending a)) := by
      apply foldl_qInsert_sorted _ _ (h.pS a)
      · intro t ht
        have := (List.mem_filter.mp ht).2
        simpa using this
      · exact sorted_distinct _ (List.Pairwise.sublist hadded_sub hrds)
    have hown : ∀ x ∈ added.foldl qInsert (p.pending a), x.sender = a := by
      intro x hx
      rcases (mem_foldl_qInsert _ _ _).mp hx with h1 | h1
      · exact h.pO a x h1
      · exact h.wO a x (hrdsub.subset (hadded_sub.subset h1))
    have hc2 : mCount (mSet p.pending a (added.foldl qInsert (p.pending a))) ≤ p.pendingLimit := by
      have := mCount_mSet p.pending a (added.foldl qInsert (p.pending a)) ha
      rw [foldl_qInsert_length] at this
      have := hadded_sub.length_le
      omega
    have inv2 := inv_setPending _ inv1 a ha (added.foldl qInsert (p.pending a))
      (forget (if cfg.promoteForgets then forget p.all (ready.filter (fun t => qHas (p.pending a) t.nonce)) else p.all)
        (qForward (p.waiting a) (nonceOf p a)).2) hnew hown hc2
    exact inv2

theorem promote_inv (cfg : Cfg) : ∀ (accts : List Nat) (p : Pool), Inv p → (∀ a ∈ accts, a ∈ accounts) →
    Inv (promote cfg p accts) ∧ Frame2 p (promote cfg p accts) := by
  intro accts
  induction accts with
  | nil => intro p h _; exact ⟨h, rfl, rfl, rfl, rfl⟩
  | cons a r ih =>
    intro p h hin
    unfold promote
    simp only [List.foldl]
    obtain ⟨h1, f1⟩ := promoteOne_inv cfg p a h (hin a (by simp))
    obtain ⟨h2, f2⟩ := ih (promoteOne cfg p a) h1 (fun b hb => hin b (by simp [hb]))
    refine ⟨h2, ?_⟩
    exact ⟨f2.pl.trans f1.pl, f2.wl.trans f1.wl, f2.nonces.trans f1.nonces, f2.ext.trans f1.ext⟩

/-! ### submit -/

theorem submit_inv (cfg : Cfg) (hcfg : cfg.replaceForgets = true) (p : Pool) (t : Tx) (h : Inv p)
    (ha : t.sender ∈ accounts) :
    Inv (submit cfg p t).1 ∧ Frame2 p (submit cfg p t).1 := by
  unfold submit
  split; · exact ⟨h, rfl, rfl, rfl, rfl⟩
  split; · exact ⟨h, rfl, rfl, rfl, rfl⟩
  split; · exact ⟨h, rfl, rfl, rfl, rfl⟩
  obtain ⟨h1, f1⟩ := addWaiting_inv cfg hcfg p t h ha
  have hext : (addWaiting cfg p t).1.ext = p.ext := f1.ext
  split
  · rename_i p1 heq
    have e1 : p1 = (addWaiting cfg p t).1 := by rw [heq]
    subst e1
    have h2 := inv_setAll _ h1 ((addWaiting cfg p t).1.all ++ [t.id])
    split
    · obtain ⟨h3, f3⟩ := promote_inv cfg [t.sender] _ h2 (by intro a ha'; simp at ha'; subst ha'; exact ha)
      exact ⟨h3, f3.pl.trans f1.pl, f3.wl.trans f1.wl, f3.nonces.trans f1.nonces, f3.ext.trans hext⟩
    · exact ⟨h2, f1.pl, f1.wl, f1.nonces, hext⟩
  · rename_i p1 r hne heq
    have e1 : p1 = (addWaiting cfg p t).1 := by rw [heq]
    subst e1
    exact ⟨h1, f1.pl, f1.wl, f1.nonces, hext⟩

/-! ### demoteUnexecutables -/

theorem foldl_addWaiting_inv (cfg : Cfg) (hcfg : cfg.replaceForgets = true) (a : Nat) (ha : a ∈ accounts) :
    ∀ (l : List Tx) (p : Pool), Inv p → (∀ t ∈ l, t.sender = a) →
    let p' := l.foldl (fun acc t =>
      match addWaiting cfg acc t with
      | (acc', .ok) => acc'
      | (acc', _) => { acc' with all := forget acc'.all [t] }) p
    Inv p' ∧ p'.pending = p.pending ∧ p'.pendingLimit = p.pendingLimit ∧ p'.waitingLimit = p.waitingLimit ∧
      p'.nonces = p.nonces ∧ p'.ext = p.ext := by
  intro l
  induction l with
  | nil => intro p h _; exact ⟨h, rfl, rfl, rfl, rfl, rfl⟩
  | cons t r ih =>
    intro p h hs
    simp only [List.foldl]
    have hta : t.sender ∈ accounts := by rw [hs t (by simp)]; exact ha
    obtain ⟨h1, f1⟩ := addWaiting_inv cfg hcfg p t h hta
    have hr : ∀ t' ∈ r, t'.sender = a := fun t' ht' => hs t' (by simp [ht'])
    cases hres : addWaiting cfg p t with
    | mk acc' res =>
      have e : acc' = (addWaiting cfg p t).1 := by rw [hres]
      cases res with
      | ok =>
        simp only
        obtain ⟨h2, g1, g2, g3, g4, g5⟩ := ih acc' (e ▸ h1) hr
        exact ⟨h2, g1.trans (e ▸ f1.pending), g2.trans (e ▸ f1.pl), g3.trans (e ▸ f1.wl), g4.trans (e ▸ f1.nonces), g5.trans (e ▸ f1.ext)⟩
      | exist | stale | full | nonceTaken =>
        simp only
        obtain ⟨h2, g1, g2, g3, g4, g5⟩ := ih { acc' with all := forget acc'.all [t] } (inv_setAll _ (e ▸ h1) _) hr
        exact ⟨h2, g1.trans (e ▸ f1.pending), g2.trans (e ▸ f1.pl), g3.trans (e ▸ f1.wl), g4.trans (e ▸ f1.nonces), g5.trans (e ▸ f1.ext)⟩

theorem consecPrefix_sub : ∀ (q : Queue) (n : Nat), (consecPrefix q n).1.Sublist q ∧ (consecPrefix q n).2.Sublist q := by
  intro q
  induction q with
  | nil => intro n; simp [consecPrefix]
  | cons t r ih =>
    intro n
    unfold consecPrefix
    split
    · exact ⟨List.Sublist.cons₂ t (ih (n + 1)).1, List.Sublist.cons t (ih (n + 1)).2⟩
    · exact ⟨List.nil_sublist _, List.Sublist.refl _⟩

theorem gapSplit_sub (cfg : Cfg) (q : Queue) (n : Nat) : (gapSplit cfg q n).1.Sublist q ∧ (gapSplit cfg q n).2.Sublist q := by
  unfold gapSplit
  split
  · exact consecPrefix_sub q n
  · split
    · exact ⟨List.Sublist.refl _, List.nil_sublist _⟩
    · exact ⟨List.nil_sublist _, List.Sublist.refl _⟩

theorem demoteOne_inv (cfg : Cfg) (hcfg : cfg.replaceForgets = true) (p : Pool) (a : Nat) (h : Inv p) (ha : a ∈ accounts) :
    Inv (demoteOne cfg p a) ∧ Frame2 p (demoteOne cfg p a) := by
  unfold demoteOne
  dsimp only
  have hq1sub : (qForward (p.pending a) (nonceOf p a)).1.Sublist (p.pending a) := List.filter_sublist
  have hc1 : mCount (mSet p.pending a (qForward (p.pending a) (nonceOf p a)).1) ≤ p.pendingLimit := by
    have := mCount_mSet p.pending a (qForward (p.pending a) (nonceOf p a)).1 ha
    have := hq1sub.length_le
    have := h.pB
    omega
  have inv1 := inv_setPending p h a ha (qForward (p.pending a) (nonceOf p a)).1
    (forget p.all (qForward (p.pending a) (nonceOf p a)).2)
    (List.Pairwise.sublist hq1sub (h.pS a)) (fun x hx => h.pO a x (hq1sub.subset hx)) hc1
  obtain ⟨hks, hrs⟩ := gapSplit_sub cfg (qForward (p.pending a) (nonceOf p a)).1 (nonceOf p a)
  generalize gapSplit cfg (qForward (p.pending a) (nonceOf p a)).1 (nonceOf p a) = kr at hks hrs ⊢
  obtain ⟨keep, rest⟩ := kr
  dsimp only at hks hrs ⊢
  split
  · exact ⟨inv1, rfl, rfl, rfl, rfl⟩
  · -- what lies behind the gap goes back to the waiting queue
    have hksub : keep.Sublist (p.pending a) := hks.trans hq1sub
    have hc2 : mCount (mSet (mSet p.pending a (qForward (p.pending a) (nonceOf p a)).1) a keep) ≤ p.pendingLimit := by
      have := mCount_mSet (mSet p.pending a (qForward (p.pending a) (nonceOf p a)).1) a keep ha
      have h0 : (mSet p.pending a (qForward (p.pending a) (nonceOf p a)).1 a).length = (qForward (p.pending a) (nonceOf p a)).1.length := by
        simp [mSet]
      have := hks.length_le
      omega
    have inv2 := inv_setPending _ inv1 a ha keep (forget p.all (qForward (p.pending a) (nonceOf p a)).2)
      (List.Pairwise.sublist hksub (h.pS a)) (fun x hx => h.pO a x (hksub.subset hx)) hc2
    obtain ⟨h3, _, g2, g3, g4, g5⟩ := foldl_addWaiting_inv cfg hcfg a ha rest _ inv2
      (fun t ht => h.pO a t (hq1sub.subset (hrs.subset ht)))
    exact ⟨h3, g2, g3, g4, g5⟩

/-! ### commit -/

theorem mCount_mono (m m' : AccMap) (hle : ∀ a, (m' a).length ≤ (m a).length) : mCount m' ≤ mCount m := by
  unfold mCount
  generalize accounts = l
  induction l with
  | nil => simp
  | cons x r ih => simp only [List.map_cons, List.sum_cons]; have := hle x; omega

theorem mKeys_sub (m : AccMap) : ∀ a ∈ mKeys m, a ∈ accounts := by
  intro a ha; unfold mKeys at ha; exact (List.mem_filter.mp ha).1

theorem foldl_demote_inv (cfg : Cfg) (hcfg : cfg.replaceForgets = true) : ∀ (accts : List Nat) (p : Pool), Inv p →
    (∀ a ∈ accts, a ∈ accounts) →
    Inv (accts.foldl (demoteOne cfg) p) ∧ Frame2 p (accts.foldl (demoteOne cfg) p) := by
  intro accts
  induction accts with
  | nil => intro p h _; exact ⟨h, rfl, rfl, rfl, rfl⟩
  | cons a r ih =>
    intro p h hin
    simp only [List.foldl]
    obtain ⟨h1, f1⟩ := demoteOne_inv cfg hcfg p a h (hin a (by simp))
    obtain ⟨h2, f2⟩ := ih (demoteOne cfg p a) h1 (fun b hb => hin b (by simp [hb]))
    exact ⟨h2, f2.pl.trans f1.pl, f2.wl.trans f1.wl, f2.nonces.trans f1.nonces, f2.ext.trans f1.ext⟩

theorem commit_inv (cfg : Cfg) (hcfg : cfg.replaceForgets = true) (p : Pool) (included : List Nat)
    (nonces : List (Nat × Nat)) (h : Inv p) :
    Inv (commit cfg p included nonces) ∧ (commit cfg p included nonces).pendingLimit = p.pendingLimit ∧
    (commit cfg p included nonces).waitingLimit = p.waitingLimit ∧ (commit cfg p included nonces).nonces = nonces := by
  unfold commit
  dsimp only
  have h0 : Inv { p with nonces := nonces, ext := p.ext.filter (fun i => !included.contains i) } :=
    ⟨h.pS, h.wS, h.pO, h.wO, h.pB, h.wB, h.supp⟩
  -- the block's transactions leave the queues
  have h1 : ∀ (b : Bool), Inv (if b = true then
      ({ pending := fun a => (p.pending a).filter (fun t => !included.contains t.id),
         waiting := fun a => (p.waiting a).filter (fun t => !included.contains t.id),
         all := p.all.filter (fun i => !included.contains i),
         ext := p.ext.filter (fun i => !included.contains i),
         pendingLimit := p.pendingLimit, waitingLimit := p.waitingLimit, nonces := nonces } : Pool)
      else { p with nonces := nonces, ext := p.ext.filter (fun i => !included.contains i) }) := by
    intro b
    cases b with
    | false => exact h0
    | true =>
      simp only [if_true]
      refine ⟨fun a => filter_sorted _ _ (h.pS a), fun a => filter_sorted _ _ (h.wS a), ?_, ?_, ?_, ?_, ?_⟩
      · intro a t ht; exact h.pO a t (List.mem_filter.mp ht).1
      · intro a t ht; exact h.wO a t (List.mem_filter.mp ht).1
      · exact Nat.le_trans (mCount_mono p.pending _ (fun a => List.length_filter_le _ _)) h.pB
      · exact Nat.le_trans (mCount_mono p.waiting _ (fun a => List.length_filter_le _ _)) h.wB
      · intro a hna
        have := h.supp a hna
        exact ⟨by show (p.pending a).filter _ = []; rw [this.1]; rfl, by show (p.waiting a).filter _ = []; rw [this.2]; rfl⟩
  generalize hp1 : (if cfg.commitRemoves = true then _ else _ : Pool) = p1
  have hi1 : Inv p1 := by rw [← hp1]; exact h1 cfg.commitRemoves
  have hl1 : p1.pendingLimit = p.pendingLimit ∧ p1.waitingLimit = p.waitingLimit ∧ p1.nonces = nonces := by
    rw [← hp1]; split <;> exact ⟨rfl, rfl, rfl⟩
  obtain ⟨hi2, f2⟩ := foldl_demote_inv cfg hcfg (mKeys p1.pending) p1 hi1 (mKeys_sub _)
  obtain ⟨hi3, f3⟩ := promote_inv cfg (mKeys ((mKeys p1.pending).foldl (demoteOne cfg) p1).waiting) _ hi2 (mKeys_sub _)
  exact ⟨hi3, (f3.pl.trans f2.pl).trans hl1.1, (f3.wl.trans f2.wl).trans hl1.2.1, (f3.nonces.trans f2.nonces).trans hl1.2.2⟩

theorem flush_inv (p : Pool) : Inv (flush p) := by
  refine ⟨fun _ => by simp [flush, Sorted], fun _ => by simp [flush, Sorted], ?_, ?_, ?_, ?_, ?_⟩
  · intro a t ht; simp [flush] at ht
  · intro a t ht; simp [flush] at ht
  · show mCount (fun _ => []) ≤ _; simp [mCount, accounts]
  · show mCount (fun _ => []) ≤ _; simp [mCount, accounts]
  · intro a _; exact ⟨rfl, rfl⟩

theorem submitAdmin_inv (p : Pool) (id : Nat) (h : Inv p) : Inv (submitAdmin p id).1 := by
  unfold submitAdmin
  split
  · exact h
  · exact ⟨h.pS, h.wS, h.pO, h.wO, h.pB, h.wB, h.supp⟩

end AnnVerif.Pool
