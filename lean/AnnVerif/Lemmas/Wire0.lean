/-
  Prefix-freeness / injectivity of the go-wire length prefix (`WriteVarint`, `WriteByteSlice`).
-/
import AnnVerif.Model.Basic
namespace AnnVerif

theorem beBytes_length (k n : Nat) : (beBytes k n).length = k := by
  induction k with
  | zero => rfl
  | succ k ih => simp [beBytes, ih]

theorem UInt8_ofNat_inj {a b : Nat} (ha : a < 256) (hb : b < 256)
    (h : UInt8.ofNat a = UInt8.ofNat b) : a = b := by
  have := congrArg UInt8.toNat h
  simp [UInt8.toNat_ofNat'] at this
  omega

/-- the `k` big-endian bytes determine the value modulo 256^k -/
theorem beBytes_inj_mod (k : Nat) : ∀ a c : Nat, beBytes k a = beBytes k c →
    a % 256 ^ k = c % 256 ^ k := by
  induction k with
  | zero => intro a c _; simp [Nat.mod_one]
  | succ k ih =>
    intro a c h
    simp only [beBytes, List.cons.injEq] at h
    obtain ⟨hh, ht⟩ := h
    have h1 := UInt8_ofNat_inj (Nat.mod_lt _ (by omega)) (Nat.mod_lt _ (by omega)) hh
    have h2 := ih a c ht
    rw [Nat.pow_succ, Nat.mod_mul, Nat.mod_mul, h1, h2]

theorem beBytes_inj (k a c : Nat) (ha : a < 256 ^ k) (hc : c < 256 ^ k)
    (h : beBytes k a = beBytes k c) : a = c := by
  have := beBytes_inj_mod k a c h
  rwa [Nat.mod_eq_of_lt ha, Nat.mod_eq_of_lt hc] at this

theorem uvarintSize_le (n : Nat) : uvarintSize n ≤ 8 := by
  unfold uvarintSize; repeat' split <;> try omega

theorem uvarintSize_bound (n : Nat) (hn : n < 2 ^ 64) : n < 256 ^ uvarintSize n := by
  unfold uvarintSize
  repeat' split
  all_goals (simp only [Nat.reducePow] at *; omega)

/-- `WriteVarint` of a length is a prefix code -/
theorem wireVarintNat_append_inj (a c : Nat) (X Y : Bytes) (ha : a < 2 ^ 64) (hc : c < 2 ^ 64)
    (h : wireVarintNat a ++ X = wireVarintNat c ++ Y) : a = c ∧ X = Y := by
  unfold wireVarintNat at h
  simp only [List.cons_append, List.cons.injEq] at h
  obtain ⟨hh, ht⟩ := h
  have hs : uvarintSize a = uvarintSize c :=
    UInt8_ofNat_inj (by have := uvarintSize_le a; omega) (by have := uvarintSize_le c; omega) hh
  rw [← hs] at ht
  have hl := List.append_inj ht (by simp [beBytes_length])
  refine ⟨?_, hl.2⟩
  apply beBytes_inj (uvarintSize a) a c (uvarintSize_bound a ha) (by rw [hs]; exact uvarintSize_bound c hc) hl.1

/-- `WriteByteSlice` is a prefix code (for slices shorter than 2^64 bytes) -/
theorem wireByteSlice_append_inj (a c X Y : Bytes) (ha : a.length < 2 ^ 64) (hc : c.length < 2 ^ 64)
    (h : wireByteSlice a ++ X = wireByteSlice c ++ Y) : a = c ∧ X = Y := by
  unfold wireByteSlice at h
  rw [List.append_assoc, List.append_assoc] at h
  obtain ⟨hl, hr⟩ := wireVarintNat_append_inj _ _ _ _ ha hc h
  exact List.append_inj hr hl

theorem wireByteSlice_inj (a c : Bytes) (ha : a.length < 2 ^ 64) (hc : c.length < 2 ^ 64)
    (h : wireByteSlice a = wireByteSlice c) : a = c :=
  (wireByteSlice_append_inj a c [] [] ha hc (by simpa using h)).1

end AnnVerif
