/-
  The Merkle Patricia trie model behaves like a finite map (insert side): for every well-formed trie
  and every terminated key, `get` after `insert` returns the inserted value for that key and what it
  returned before for every other terminated key, and `insert` keeps the trie well formed.
  No bound on the number of keys, their lengths or the shape of the trie.
-/
import AnnVerif.Model.Trie
set_option linter.unusedSimpArgs false
namespace AnnVerif.Trie

/-! ### children -/

def Children.length : Children → Nat
  | .nil => 0
  | .cons _ r => r.length + 1

theorem Children.get_set_same : ∀ (cs : Children) (i : Nat) (x : Node), i < cs.length → (cs.set i x).get i = x
  | .nil, _, _, h => by simp [Children.length] at h
  | .cons _ _, 0, _, _ => rfl
  | .cons _ r, i + 1, x, h => by
    simp only [Children.set, Children.get]
    exact Children.get_set_same r i x (by simp [Children.length] at h; omega)

theorem Children.get_set_other : ∀ (cs : Children) (i j : Nat) (x : Node), i ≠ j → (cs.set i x).get j = cs.get j
  | .nil, _, _, _, _ => rfl
  | .cons _ _, 0, 0, _, h => absurd rfl h
  | .cons _ _, 0, j + 1, _, _ => rfl
  | .cons _ _, i + 1, 0, _, _ => rfl
  | .cons _ r, i + 1, j + 1, x, h => by
    simp only [Children.set, Children.get]
    exact Children.get_set_other r i j x (by omega)

theorem Children.length_set : ∀ (cs : Children) (i : Nat) (x : Node), (cs.set i x).length = cs.length
  | .nil, _, _ => rfl
  | .cons _ _, 0, _ => rfl
  | .cons _ r, i + 1, x => by simp only [Children.set, Children.length, Children.length_set r i x]

theorem Children.length_replicate : ∀ n, (Children.replicate n).length = n
  | 0 => rfl
  | n + 1 => by simp only [Children.replicate, Children.length, Children.length_replicate n]

theorem Children.get_replicate : ∀ n i, (Children.replicate n).get i = .empty
  | 0, _ => rfl
  | _ + 1, 0 => rfl
  | n + 1, i + 1 => by simp only [Children.replicate, Children.get, Children.get_replicate n i]

theorem Children.get_of_ge : ∀ (cs : Children) (i : Nat), cs.length ≤ i → cs.get i = .empty
  | .nil, _, _ => rfl
  | .cons _ _, 0, h => by simp [Children.length] at h
  | .cons _ r, i + 1, h => by
    simp only [Children.get]
    exact Children.get_of_ge r i (by simp [Children.length] at h; omega)

/-! ### keys: nibbles below 16, closed by the terminator 16 (what `keybytesToHex` produces) -/

def NK (k : Key) : Prop := ∀ x ∈ k, x < 16
def TermKey (k : Key) : Prop := ∃ pre, k = pre ++ [16] ∧ NK pre
def ExtKey (k : Key) : Prop := k ≠ [] ∧ NK k

theorem nk_nil : NK [] := by intro x hx; simp at hx
theorem nk_cons {a : Nat} {r : Key} : NK (a :: r) ↔ a < 16 ∧ NK r := by
  unfold NK; simp
theorem nk_append {p q : Key} : NK (p ++ q) ↔ NK p ∧ NK q := by
  unfold NK; simp only [List.mem_append]
  constructor
  · intro h; exact ⟨fun x hx => h x (Or.inl hx), fun x hx => h x (Or.inr hx)⟩
  · rintro ⟨h1, h2⟩ x (hx | hx); exact h1 x hx; exact h2 x hx

theorem tk_ne_nil {k : Key} (h : TermKey k) : k ≠ [] := by
  obtain ⟨pre, rfl, _⟩ := h; simp

theorem tk_cons {a : Nat} {r : Key} : TermKey (a :: r) ↔ (a = 16 ∧ r = []) ∨ (a < 16 ∧ TermKey r) := by
  constructor
  · rintro ⟨pre, he, hn⟩
    cases pre with
    | nil => simp at he; exact Or.inl he
    | cons x p =>
      simp at he
      obtain ⟨rfl, rfl⟩ := he
      exact Or.inr ⟨(nk_cons.mp hn).1, p, rfl, (nk_cons.mp hn).2⟩
  · rintro (⟨rfl, rfl⟩ | ⟨ha, pre, rfl, hn⟩)
    · exact ⟨[], rfl, nk_nil⟩
    · exact ⟨a :: pre, rfl, nk_cons.mpr ⟨ha, hn⟩⟩

theorem tk_append {p q : Key} (hq : q ≠ []) : TermKey (p ++ q) ↔ NK p ∧ TermKey q := by
  induction p with
  | nil => simp [nk_nil]
  | cons a p ih =>
    rw [List.cons_append, tk_cons, nk_cons, ih]
    constructor
    · rintro (⟨_, h⟩ | ⟨ha, hp, hq'⟩)
      · simp [hq] at h
      · exact ⟨⟨ha, hp⟩, hq'⟩
    · rintro ⟨⟨ha, hp⟩, hq'⟩; exact Or.inr ⟨ha, hp, hq'⟩

/-- terminated keys are prefix free -/
theorem tk_prefix_eq : ∀ {a b : Key}, TermKey a → TermKey b → a <+: b → a = b := by
  intro a
  induction a with
  | nil => intro b ha; exact absurd rfl (tk_ne_nil ha)
  | cons x a ih =>
    intro b ha hb hp
    cases b with
    | nil => simp at hp
    | cons y b =>
      obtain ⟨rfl, hp'⟩ := List.cons_prefix_cons.mp hp
      rcases tk_cons.mp ha with ⟨hx, rfl⟩ | ⟨hx, ha'⟩
      · rcases tk_cons.mp hb with ⟨_, rfl⟩ | ⟨hx', _⟩
        · rfl
        · omega
      · rcases tk_cons.mp hb with ⟨hx', _⟩ | ⟨_, hb'⟩
        · omega
        · rw [ih ha' hb' hp']

/-- a key without terminator is never a terminated key, nor extends to one without more nibbles -/
theorem nk_not_tk {k : Key} (h : NK k) : ¬ TermKey k := by
  rintro ⟨pre, rfl, _⟩
  have := h 16 (by simp)
  omega

/-! ### well-formed tries -/

def SlotVal : Node → Prop
  | .empty => True
  | .value _ => True
  | _ => False

mutual
  /-- a node at a position where at least one nibble of every key is still to come -/
  def WF : Node → Prop
    | .empty => True
    | .value _ => False
    | .short key (.value _) => TermKey key
    | .short key (.full cs) => ExtKey key ∧ WFC cs 0
    | .short _ _ => False
    | .full cs => WFC cs 0
  def WFC : Children → Nat → Prop
    | .nil, i => i = 17
    | .cons n r, i => (if i = 16 then SlotVal n else WF n) ∧ WFC r (i + 1)
end

def slotOK (p : Nat) (x : Node) : Prop := if p = 16 then SlotVal x else WF x

/-- well formed, or a value (the position where the key is used up) -/
def WFv (t : Node) : Prop := WF t ∨ ∃ v, t = .value v

theorem wfc_length : ∀ (cs : Children) (j : Nat), WFC cs j → cs.length + j = 17
  | .nil, j, h => by simp [WFC] at h; simp [Children.length, h]
  | .cons _ r, j, h => by
    simp only [WFC] at h
    have := wfc_length r (j + 1) h.2
    simp [Children.length]; omega

theorem wfc_get : ∀ (cs : Children) (j i : Nat), WFC cs j → i < cs.length → slotOK (j + i) (cs.get i)
  | .nil, _, _, _, h => by simp [Children.length] at h
  | .cons _ _, j, 0, h, _ => by simp only [WFC] at h; exact h.1
  | .cons _ r, j, i + 1, h, hl => by
    simp only [WFC] at h
    have := wfc_get r (j + 1) i h.2 (by simp [Children.length] at hl; omega)
    simp only [Children.get]
    rwa [show j + (i + 1) = j + 1 + i by omega]

theorem wfc_set : ∀ (cs : Children) (j i : Nat) (x : Node), WFC cs j → slotOK (j + i) x → WFC (cs.set i x) j
  | .nil, _, _, _, h, _ => h
  | .cons _ _, j, 0, x, h, hx => by
    simp only [WFC] at h; simp only [Children.set, WFC]; exact ⟨hx, h.2⟩
  | .cons _ r, j, i + 1, x, h, hx => by
    simp only [WFC] at h; simp only [Children.set, WFC]
    exact ⟨h.1, wfc_set r (j + 1) i x h.2 (by rwa [show j + 1 + i = j + (i + 1) by omega])⟩

theorem wfc_replicate : ∀ (n j : Nat), n + j = 17 → WFC (Children.replicate n) j
  | 0, j, h => by simp only [Children.replicate, WFC]; omega
  | n + 1, j, h => by
    simp only [Children.replicate, WFC]
    refine ⟨?_, wfc_replicate n (j + 1) (by omega)⟩
    split <;> simp [SlotVal, WF]

theorem wf_short {key : Key} {c : Node} (h : WF (.short key c)) :
    (TermKey key ∧ ∃ v, c = .value v) ∨ (ExtKey key ∧ ∃ cs, c = .full cs ∧ WFC cs 0) := by
  cases c with
  | empty => simp [WF] at h
  | value v => simp only [WF] at h; exact Or.inl ⟨h, v, rfl⟩
  | short _ _ => simp [WF] at h
  | full cs => simp only [WF] at h; exact Or.inr ⟨h.1, cs, rfl, h.2⟩

theorem wf_short_key_ne {key : Key} {c : Node} (h : WF (.short key c)) : key ≠ [] := by
  rcases wf_short h with ⟨h, _⟩ | ⟨h, _⟩
  · exact tk_ne_nil h
  · exact h.1

theorem wf_short_child {key : Key} {c : Node} (h : WF (.short key c)) : WFv c := by
  rcases wf_short h with ⟨_, v, rfl⟩ | ⟨_, cs, rfl, hc⟩
  · exact Or.inr ⟨v, rfl⟩
  · exact Or.inl (by simpa only [WF] using hc)

theorem wf_full_child {cs : Children} (h : WF (.full cs)) (i : Nat) : WFv (cs.get i) := by
  simp only [WF] at h
  by_cases hi : i < cs.length
  · have := wfc_get cs 0 i h hi
    unfold slotOK at this
    split at this
    · cases hc : cs.get i with
      | empty => exact Or.inl (by simp [WF])
      | value v => exact Or.inr ⟨v, rfl⟩
      | short _ _ => rw [hc] at this; simp [SlotVal] at this
      | full _ => rw [hc] at this; simp [SlotVal] at this
    · exact Or.inl this
  · rw [Children.get_of_ge cs i (by omega)]; exact Or.inl (by simp [WF])

/-! ### `get`: unfolding, and independence of the fuel once there is enough of it -/

theorem get_zero (t : Node) (k : Key) : get t k 0 = none := by
  cases t <;> rfl

theorem get_empty (k : Key) (f : Nat) : get .empty k f = none := by
  cases f <;> rfl

theorem get_value (v : Bytes) (k : Key) (f : Nat) : get (.value v) k (f + 1) = some v := rfl

theorem get_short (key : Key) (c : Node) (k : Key) (f : Nat) :
    get (.short key c) k (f + 1) = if key <+: k then get c (k.drop key.length) f else none := by
  have : get (.short key c) k (f + 1) =
      if k.length < key.length ∨ k.take key.length ≠ key then none else get c (k.drop key.length) f := rfl
  rw [this]
  by_cases hp : key <+: k
  · have hl := hp.length_le
    have ht := (List.prefix_iff_eq_take.mp hp).symm
    rw [if_pos hp, if_neg]
    intro h; rcases h with h | h
    · omega
    · exact h ht
  · rw [if_neg hp, if_pos]
    by_cases hl : k.length < key.length
    · exact Or.inl hl
    · right; intro ht; exact hp (List.prefix_iff_eq_take.mpr ht.symm)

theorem get_full_nil (cs : Children) (f : Nat) : get (.full cs) [] (f + 1) = none := rfl
theorem get_full_cons (cs : Children) (i : Nat) (r : Key) (f : Nat) :
    get (.full cs) (i :: r) (f + 1) = get (cs.get i) r f := rfl

/-- fuel independence: every node on a path uses up at least one nibble -/
theorem get_fuel : ∀ (f g : Nat) (t : Node) (k : Key), WFv t → k.length < f → k.length < g →
    get t k f = get t k g := by
  intro f
  induction f with
  | zero => intro g t k _ h; omega
  | succ f ih =>
    intro g t k ht hf hg
    cases g with
    | zero => omega
    | succ g =>
      cases t with
      | empty => rw [get_empty, get_empty]
      | value v => rfl
      | short key c =>
        have hw : WF (.short key c) := by
          rcases ht with h | ⟨v, h⟩
          · exact h
          · cases h
        rw [get_short, get_short]
        split
        · rename_i hp
          have hl := hp.length_le
          have hk := wf_short_key_ne hw
          have : 0 < key.length := List.length_pos_iff.mpr hk
          exact ih g c _ (wf_short_child hw) (by simp; omega) (by simp; omega)
        · rfl
      | full cs =>
        have hw : WF (.full cs) := by
          rcases ht with h | ⟨v, h⟩
          · exact h
          · cases h
        cases k with
        | nil => rfl
        | cons i r =>
          rw [get_full_cons, get_full_cons]
          exact ih g _ r (wf_full_child hw i) (by simp only [List.length_append, List.length_cons, List.length_nil] at hf; omega) (by simp at hg; omega)

/-- `get` with as much fuel as any path can use -/
def getN (t : Node) (k : Key) : Option Bytes := get t k (k.length + 1)

theorem get_eq_getN {t : Node} {k : Key} {f : Nat} (ht : WFv t) (hf : k.length < f) : get t k f = getN t k :=
  get_fuel f (k.length + 1) t k ht hf (by omega)

theorem getN_empty (k : Key) : getN .empty k = none := get_empty _ _
theorem getN_value (v : Bytes) (k : Key) : getN (.value v) k = some v := rfl
theorem getN_full_nil (cs : Children) : getN (.full cs) [] = none := rfl
theorem getN_full_cons (cs : Children) (i : Nat) (r : Key) : getN (.full cs) (i :: r) = getN (cs.get i) r := rfl

theorem getN_short {key : Key} {c : Node} (hw : WF (.short key c)) (k : Key) :
    getN (.short key c) k = if key <+: k then getN c (k.drop key.length) else none := by
  unfold getN
  rw [get_short]
  split
  · rename_i hp
    have hl := hp.length_le
    have : 0 < key.length := List.length_pos_iff.mpr (wf_short_key_ne hw)
    exact get_fuel _ _ c _ (wf_short_child hw) (by simp; omega) (by simp)
  · rfl

theorem getN_short_append {key : Key} {c : Node} (hw : WF (.short key c)) (rest : Key) :
    getN (.short key c) (key ++ rest) = getN c rest := by
  rw [getN_short hw, if_pos (List.prefix_append _ _)]; simp

/-! ### `insert`: unfolding -/

theorem insert_nil_key (t : Node) (v : Bytes) (f : Nat) : insert t [] v (f + 1) = .value v := by
  cases t <;> rfl

theorem insert_empty (a : Nat) (k : Key) (v : Bytes) (f : Nat) :
    insert .empty (a :: k) v (f + 1) = .short (a :: k) (.value v) := rfl

theorem insert_full (cs : Children) (i : Nat) (r : Key) (v : Bytes) (f : Nat) :
    insert (.full cs) (i :: r) v (f + 1) = .full (cs.set i (insert (cs.get i) r v f)) := rfl

theorem prefixLen_append_left : ∀ (key rest : Key), prefixLen (key ++ rest) key = key.length
  | [], rest => by cases rest <;> rfl
  | a :: key, rest => by
    simp only [List.cons_append, prefixLen, if_true, List.length_cons, prefixLen_append_left key rest]; omega

theorem prefixLen_split : ∀ (p : Key) (a b : Nat) (k1 key1 : Key), a ≠ b →
    prefixLen (p ++ a :: k1) (p ++ b :: key1) = p.length
  | [], a, b, k1, key1, h => by simp [prefixLen, h]
  | x :: p, a, b, k1, key1, h => by
    simp only [List.cons_append, prefixLen, if_true, List.length_cons, prefixLen_split p a b k1 key1 h]; omega

theorem insert_short_prefix (key : Key) (c : Node) (rest : Key) (v : Bytes) (f : Nat) (h : key ++ rest ≠ []) :
    insert (.short key c) (key ++ rest) v (f + 1) = .short key (insert c rest v f) := by
  cases hk : key ++ rest with
  | nil => exact absurd hk h
  | cons a k =>
    have : insert (.short key c) (a :: k) v (f + 1) =
      (let m := prefixLen (a :: k) key
       if m = key.length then Node.short key (insert c ((a :: k).drop m) v f)
       else
        let branch := (Children.replicate 17).set (key.getD m 0)
          (if (key.drop (m + 1)).isEmpty then c else .short (key.drop (m + 1)) c)
        let branch := branch.set ((a :: k).getD m 0) (insert .empty ((a :: k).drop (m + 1)) v f)
        if m = 0 then .full branch else .short ((a :: k).take m) (.full branch)) := rfl
    rw [this, ← hk]
    simp only [prefixLen_append_left, if_true, List.drop_left]

theorem insert_short_split (p : Key) (a b : Nat) (k1 key1 : Key) (c : Node) (v : Bytes) (f : Nat) (hab : a ≠ b) :
    insert (.short (p ++ b :: key1) c) (p ++ a :: k1) v (f + 1) =
      if p = [] then
        .full (((Children.replicate 17).set b (if key1.isEmpty then c else .short key1 c)).set a (insert .empty k1 v f))
      else
        .short p (.full (((Children.replicate 17).set b (if key1.isEmpty then c else .short key1 c)).set a
          (insert .empty k1 v f))) := by
  cases hk : p ++ a :: k1 with
  | nil => simp at hk
  | cons x k =>
    have : insert (.short (p ++ b :: key1) c) (x :: k) v (f + 1) =
      (let key := p ++ b :: key1
       let m := prefixLen (x :: k) key
       if m = key.length then Node.short key (insert c ((x :: k).drop m) v f)
       else
        let branch := (Children.replicate 17).set (key.getD m 0)
          (if (key.drop (m + 1)).isEmpty then c else .short (key.drop (m + 1)) c)
        let branch := branch.set ((x :: k).getD m 0) (insert .empty ((x :: k).drop (m + 1)) v f)
        if m = 0 then .full branch else .short ((x :: k).take m) (.full branch)) := rfl
    rw [this, ← hk]
    have hne : ¬ p.length = (p ++ b :: key1).length := by simp
    have h1 : (p ++ b :: key1).getD p.length 0 = b := by simp [List.getD]
    have h2 : (p ++ a :: k1).getD p.length 0 = a := by simp [List.getD]
    have h3 : (p ++ b :: key1).drop (p.length + 1) = key1 := by
      rw [← List.drop_drop]; simp
    have h4 : (p ++ a :: k1).drop (p.length + 1) = k1 := by
      rw [← List.drop_drop]; simp
    have h5 : (p ++ a :: k1).take p.length = p := by simp
    simp only [prefixLen_split p a b k1 key1 hab, hne, if_false, h1, h2, h3, h4, h5]
    by_cases hp : p = []
    · subst hp; simp
    · have : p.length ≠ 0 := by intro h; exact hp (List.eq_nil_of_length_eq_zero h)
      simp [hp, this]

/-- two keys either continue one another or part at a first differing nibble -/
theorem key_split : ∀ (k key : Key),
    (∃ rest, k = key ++ rest) ∨ (∃ b key1, key = k ++ b :: key1) ∨
    (∃ p a k1 b key1, a ≠ b ∧ k = p ++ a :: k1 ∧ key = p ++ b :: key1)
  | k, [] => Or.inl ⟨k, rfl⟩
  | [], b :: key1 => Or.inr (Or.inl ⟨b, key1, rfl⟩)
  | a :: k, b :: key => by
    by_cases hab : a = b
    · subst hab
      rcases key_split k key with ⟨rest, rfl⟩ | ⟨b, key1, rfl⟩ | ⟨p, x, k1, y, key1, hxy, rfl, rfl⟩
      · exact Or.inl ⟨rest, rfl⟩
      · exact Or.inr (Or.inl ⟨b, key1, rfl⟩)
      · exact Or.inr (Or.inr ⟨a :: p, x, k1, y, key1, hxy, rfl, rfl⟩)
    · exact Or.inr (Or.inr ⟨[], a, k, b, key, hab, rfl, rfl⟩)

/-! ### what the two sides of a split contribute -/

theorem split_old {p : Key} {b : Nat} {key1 : Key} {c : Node} (h : WF (.short (p ++ b :: key1) c)) :
    slotOK b (if key1.isEmpty then c else .short key1 c) ∧ b < 17 ∧ NK p ∧ (key1 ≠ [] → b ≠ 16) := by
  rcases wf_short h with ⟨hk, w, rfl⟩ | ⟨hk, cs, rfl, hc⟩
  · obtain ⟨hp, hb⟩ := (tk_append (by simp)).mp hk
    rcases tk_cons.mp hb with ⟨rfl, rfl⟩ | ⟨hb16, hk1⟩
    · refine ⟨?_, by omega, hp, fun h => absurd rfl h⟩
      simp [slotOK, SlotVal]
    · refine ⟨?_, by omega, hp, fun _ => by omega⟩
      have hne := tk_ne_nil hk1
      have : key1.isEmpty = false := by cases key1 <;> simp_all
      simp only [this, Bool.false_eq_true, if_false, slotOK, if_neg (show ¬ b = 16 by omega), WF]
      exact hk1
  · obtain ⟨hp, hb⟩ := nk_append.mp hk.2
    obtain ⟨hb16, hk1⟩ := nk_cons.mp hb
    refine ⟨?_, by omega, hp, fun _ => by omega⟩
    simp only [slotOK, if_neg (show ¬ b = 16 by omega)]
    cases key1 with
    | nil => simpa [WF] using hc
    | cons x r => simp only [List.isEmpty_cons, Bool.false_eq_true, if_false, WF]; exact ⟨⟨by simp, hk1⟩, hc⟩

theorem split_new {a : Nat} {k1 : Key} (v : Bytes) {f : Nat} (h : TermKey (a :: k1)) (hf : k1.length < f) :
    slotOK a (insert .empty k1 v f) ∧ a < 17 ∧
    ((a = 16 ∧ k1 = [] ∧ insert .empty k1 v f = .value v) ∨
     (a < 16 ∧ TermKey k1 ∧ insert .empty k1 v f = .short k1 (.value v))) := by
  cases f with
  | zero => omega
  | succ f =>
    rcases tk_cons.mp h with ⟨rfl, rfl⟩ | ⟨ha, hk1⟩
    · rw [insert_nil_key]
      exact ⟨by simp [slotOK, SlotVal], by omega, Or.inl ⟨rfl, rfl, rfl⟩⟩
    · cases k1 with
      | nil => exact absurd rfl (tk_ne_nil hk1)
      | cons x r =>
        rw [insert_empty]
        refine ⟨?_, by omega, Or.inr ⟨ha, hk1, rfl⟩⟩
        simp only [slotOK, if_neg (show ¬ a = 16 by omega), WF]; exact hk1

theorem wfc_branch {a b : Nat} {X Y : Node} (hb : slotOK b X) (ha : slotOK a Y) :
    WFC (((Children.replicate 17).set b X).set a Y) 0 := by
  apply wfc_set _ 0 a Y _ (by simpa using ha)
  apply wfc_set _ 0 b X _ (by simpa using hb)
  exact wfc_replicate 17 0 rfl

/-- a terminated key never stops inside the key of a well-formed short node -/
theorem no_strict_prefix {k : Key} {b : Nat} {key1 : Key} {c : Node} (hk : TermKey k)
    (h : WF (.short (k ++ b :: key1) c)) : False := by
  rcases wf_short h with ⟨hkey, _⟩ | ⟨hkey, _⟩
  · exact nk_not_tk ((tk_append (by simp)).mp hkey).1 hk
  · exact nk_not_tk (nk_append.mp hkey.2).1 hk

/-- what is left of a terminated key behind an extension key is a terminated key -/
theorem tk_rest {key rest : Key} (hk : TermKey (key ++ rest)) (hkey : NK key) : TermKey rest := by
  by_cases hr : rest = []
  · subst hr; simp at hk; exact absurd hk (nk_not_tk hkey)
  · exact ((tk_append hr).mp hk).2

/-! ### `insert` keeps the trie well formed -/

theorem insert_wf : ∀ (f : Nat) (t : Node) (k : Key) (v : Bytes), WF t → TermKey k → k.length < f →
    WF (insert t k v f) := by
  intro f
  induction f with
  | zero => intro t k v _ _ h; omega
  | succ f ih =>
    intro t k v ht hk hf
    cases t with
    | empty =>
      cases k with
      | nil => exact absurd rfl (tk_ne_nil hk)
      | cons a r => rw [insert_empty]; simpa only [WF] using hk
    | value w => simp [WF] at ht
    | full cs =>
      cases k with
      | nil => exact absurd rfl (tk_ne_nil hk)
      | cons i r =>
        rw [insert_full]
        simp only [WF] at ht ⊢
        have hlen := wfc_length cs 0 ht
        apply wfc_set cs 0 i _ ht
        simp only [Nat.zero_add]
        rcases tk_cons.mp hk with ⟨rfl, rfl⟩ | ⟨hi, hr⟩
        · cases f with
          | zero => simp at hf
          | succ f => rw [insert_nil_key]; simp [slotOK, SlotVal]
        · have hs := wfc_get cs 0 i ht (by omega)
          simp only [Nat.zero_add, slotOK, if_neg (show ¬ i = 16 by omega)] at hs ⊢
          exact ih _ r v hs hr (by simp only [List.length_append, List.length_cons, List.length_nil] at hf; omega)
    | short key c =>
      rcases key_split k key with ⟨rest, rfl⟩ | ⟨b, key1, rfl⟩ | ⟨p, a, k1, b, key1, hab, rfl, rfl⟩
      · rw [insert_short_prefix _ _ _ _ _ (tk_ne_nil hk)]
        have hkl : 0 < key.length := List.length_pos_iff.mpr (wf_short_key_ne ht)
        rcases wf_short ht with ⟨hkey, w, rfl⟩ | ⟨hkey, cs, rfl, hc⟩
        · have := tk_prefix_eq hkey hk (List.prefix_append _ _)
          have hr : rest = [] := by simpa using this.symm
          subst hr
          cases f with
          | zero => simp only [List.length_append, List.length_cons, List.length_nil] at hf; omega
          | succ f => rw [insert_nil_key]; simpa only [WF] using hkey
        · have hr := tk_rest hk hkey.2
          have hw := ih (.full cs) rest v (by simpa only [WF] using hc) hr (by simp only [List.length_append, List.length_cons, List.length_nil] at hf; omega)
          cases rest with
          | nil => exact absurd rfl (tk_ne_nil hr)
          | cons i r =>
            cases f with
            | zero => simp only [List.length_append, List.length_cons, List.length_nil] at hf; omega
            | succ f =>
              rw [insert_full] at hw ⊢
              simp only [WF] at hw ⊢
              exact ⟨hkey, hw⟩
      · exact (no_strict_prefix hk ht).elim
      · rw [insert_short_split _ _ _ _ _ _ _ _ hab]
        obtain ⟨hX, hb17, hp, _⟩ := split_old ht
        have hak := ((tk_append (by simp)).mp hk).2
        obtain ⟨hY, ha17, _⟩ := split_new v hak (f := f) (by simp only [List.length_append, List.length_cons, List.length_nil] at hf; omega)
        have hbr := wfc_branch hX hY
        split
        · simpa only [WF] using hbr
        · rename_i hpne
          simp only [WF]; exact ⟨⟨hpne, hp⟩, hbr⟩

/-! ### `get` after `insert`: the key just written -/

theorem getN_branch_new {a b : Nat} {X Y : Node} (ha : a < 17) (s : Key) :
    getN (.full (((Children.replicate 17).set b X).set a Y)) (a :: s) = getN Y s := by
  rw [getN_full_cons, Children.get_set_same]
  rw [Children.length_set, Children.length_replicate]; exact ha

theorem getN_short_value_self {k : Key} (hk : TermKey k) (v : Bytes) : getN (.short k (.value v)) k = some v := by
  have hw : WF (.short k (.value v)) := by simpa only [WF] using hk
  have := getN_short_append hw []
  rw [List.append_nil] at this
  rw [this]; rfl

theorem getN_insert_same : ∀ (f : Nat) (t : Node) (k : Key) (v : Bytes), WF t → TermKey k → k.length < f →
    getN (insert t k v f) k = some v := by
  intro f
  induction f with
  | zero => intro t k v _ _ h; omega
  | succ f ih =>
    intro t k v ht hk hf
    have hwf := insert_wf (f + 1) t k v ht hk hf
    cases t with
    | empty =>
      cases k with
      | nil => exact absurd rfl (tk_ne_nil hk)
      | cons a r => rw [insert_empty]; exact getN_short_value_self hk v
    | value w => simp [WF] at ht
    | full cs =>
      cases k with
      | nil => exact absurd rfl (tk_ne_nil hk)
      | cons i r =>
        rw [insert_full, getN_full_cons]
        simp only [WF] at ht
        have hlen := wfc_length cs 0 ht
        rcases tk_cons.mp hk with ⟨rfl, rfl⟩ | ⟨hi, hr⟩
        · rw [Children.get_set_same _ _ _ (by omega)]
          cases f with
          | zero => simp only [List.length_append, List.length_cons, List.length_nil] at hf; omega
          | succ f => rw [insert_nil_key]; rfl
        · rw [Children.get_set_same _ _ _ (by omega)]
          have hs := wfc_get cs 0 i ht (by omega)
          simp only [Nat.zero_add, slotOK, if_neg (show ¬ i = 16 by omega)] at hs
          exact ih _ r v hs hr (by simp only [List.length_append, List.length_cons, List.length_nil] at hf; omega)
    | short key c =>
      rcases key_split k key with ⟨rest, rfl⟩ | ⟨b, key1, rfl⟩ | ⟨p, a, k1, b, key1, hab, rfl, rfl⟩
      · rw [insert_short_prefix _ _ _ _ _ (tk_ne_nil hk)] at hwf ⊢
        rw [getN_short_append hwf]
        have hkl : 0 < key.length := List.length_pos_iff.mpr (wf_short_key_ne ht)
        rcases wf_short ht with ⟨hkey, w, rfl⟩ | ⟨hkey, cs, rfl, hc⟩
        · have := tk_prefix_eq hkey hk (List.prefix_append _ _)
          have hr : rest = [] := by simpa using this.symm
          subst hr
          cases f with
          | zero => simp only [List.length_append, List.length_cons, List.length_nil] at hf; omega
          | succ f => rw [insert_nil_key]; rfl
        · exact ih (.full cs) rest v (by simpa only [WF] using hc) (tk_rest hk hkey.2)
            (by simp only [List.length_append, List.length_cons, List.length_nil] at hf; omega)
      · exact (no_strict_prefix hk ht).elim
      · rw [insert_short_split _ _ _ _ _ _ _ _ hab] at hwf ⊢
        have hak := ((tk_append (by simp)).mp hk).2
        obtain ⟨_, ha17, hY⟩ := split_new v hak (f := f)
          (by simp only [List.length_append, List.length_cons, List.length_nil] at hf; omega)
        have hfin : getN (insert .empty k1 v f) k1 = some v := by
          rcases hY with ⟨_, rfl, hY⟩ | ⟨_, hk1, hY⟩
          · rw [hY]; rfl
          · rw [hY]; exact getN_short_value_self hk1 v
        split
        · rename_i hp; subst hp
          rw [List.nil_append, getN_branch_new ha17]; exact hfin
        · rename_i hp
          rw [if_neg hp] at hwf
          rw [getN_short_append hwf, getN_branch_new ha17]; exact hfin

/-! ### `get` after `insert`: every other key -/

theorem getN_short_value_other {k k' : Key} (hk : TermKey k) (hk' : TermKey k') (hne : k' ≠ k) (v : Bytes) :
    getN (.short k (.value v)) k' = none := by
  have hw : WF (.short k (.value v)) := by simpa only [WF] using hk
  rw [getN_short hw, if_neg]
  intro hp; exact hne (tk_prefix_eq hk hk' hp).symm

theorem getN_insert_other : ∀ (f : Nat) (t : Node) (k : Key) (v : Bytes) (k' : Key), WF t → TermKey k →
    TermKey k' → k' ≠ k → k.length < f → getN (insert t k v f) k' = getN t k' := by
  intro f
  induction f with
  | zero => intro t k v k' _ _ _ _ h; omega
  | succ f ih =>
    intro t k v k' ht hk hk' hne hf
    have hwf := insert_wf (f + 1) t k v ht hk hf
    cases t with
    | empty =>
      cases k with
      | nil => exact absurd rfl (tk_ne_nil hk)
      | cons a r => rw [insert_empty, getN_empty]; exact getN_short_value_other hk hk' hne v
    | value w => simp [WF] at ht
    | full cs =>
      cases k with
      | nil => exact absurd rfl (tk_ne_nil hk)
      | cons i r =>
        cases k' with
        | nil => exact absurd rfl (tk_ne_nil hk')
        | cons i' r' =>
          rw [insert_full, getN_full_cons, getN_full_cons]
          simp only [WF] at ht
          have hlen := wfc_length cs 0 ht
          by_cases hii : i = i'
          · subst hii
            rcases tk_cons.mp hk with ⟨rfl, rfl⟩ | ⟨hi, hr⟩
            · rcases tk_cons.mp hk' with ⟨_, rfl⟩ | ⟨h16, _⟩
              · exact absurd rfl hne
              · omega
            · rcases tk_cons.mp hk' with ⟨h16, _⟩ | ⟨_, hr'⟩
              · omega
              · rw [Children.get_set_same _ _ _ (by omega)]
                have hs := wfc_get cs 0 i ht (by omega)
                simp only [Nat.zero_add, slotOK, if_neg (show ¬ i = 16 by omega)] at hs
                exact ih _ r v r' hs hr hr' (by intro h; exact hne (by rw [h]))
                  (by simp only [List.length_append, List.length_cons, List.length_nil] at hf; omega)
          · rw [Children.get_set_other _ _ _ _ hii]
    | short key c =>
      rcases key_split k key with ⟨rest, rfl⟩ | ⟨b, key1, rfl⟩ | ⟨p, a, k1, b, key1, hab, rfl, rfl⟩
      · rw [insert_short_prefix _ _ _ _ _ (tk_ne_nil hk)] at hwf ⊢
        rw [getN_short hwf, getN_short ht]
        have hkl : 0 < key.length := List.length_pos_iff.mpr (wf_short_key_ne ht)
        by_cases hp : key <+: k'
        · rw [if_pos hp, if_pos hp]
          obtain ⟨rest', rfl⟩ := hp
          rw [List.drop_left]
          rcases wf_short ht with ⟨hkey, w, rfl⟩ | ⟨hkey, cs, rfl, hc⟩
          · have e1 := tk_prefix_eq hkey hk (List.prefix_append _ _)
            have e2 := tk_prefix_eq hkey hk' (List.prefix_append _ _)
            exact absurd (e2.symm.trans e1) hne
          · exact ih (.full cs) rest v rest' (by simpa only [WF] using hc) (tk_rest hk hkey.2) (tk_rest hk' hkey.2)
              (by intro h; exact hne (by rw [h]))
              (by simp only [List.length_append, List.length_cons, List.length_nil] at hf; omega)
        · rw [if_neg hp, if_neg hp]
      · exact (no_strict_prefix hk ht).elim
      · rw [insert_short_split _ _ _ _ _ _ _ _ hab] at hwf ⊢
        obtain ⟨hX, hb17, hpn, hb16⟩ := split_old ht
        have hak := ((tk_append (by simp)).mp hk).2
        obtain ⟨_, ha17, hY⟩ := split_new v hak (f := f)
          (by simp only [List.length_append, List.length_cons, List.length_nil] at hf; omega)
        rw [getN_short ht]
        by_cases hp : p <+: k'
        · obtain ⟨rest', rfl⟩ := hp
          -- both sides now look at what follows `p`
          have hnew : getN (if p = [] then
                Node.full (((Children.replicate 17).set b (if key1.isEmpty then c else .short key1 c)).set a (insert .empty k1 v f))
              else .short p (.full (((Children.replicate 17).set b (if key1.isEmpty then c else .short key1 c)).set a
                (insert .empty k1 v f)))) (p ++ rest') =
              getN (.full (((Children.replicate 17).set b (if key1.isEmpty then c else .short key1 c)).set a
                (insert .empty k1 v f))) rest' := by
            split
            · rename_i hp; subst hp; rfl
            · rename_i hp; rw [if_neg hp] at hwf; exact getN_short_append hwf rest'
          rw [hnew]
          have hpre : (p ++ b :: key1 <+: p ++ rest') ↔ (b :: key1 <+: rest') := List.prefix_append_right_inj p
          cases rest' with
          | nil =>
            rw [getN_full_nil, if_neg]
            rw [hpre]; simp
          | cons i s =>
            have his := ((tk_append (by simp)).mp hk').2
            by_cases hia : i = a
            · subst hia
              rw [getN_branch_new ha17, if_neg (by rw [hpre, List.cons_prefix_cons]; exact fun h => hab h.1.symm)]
              rcases hY with ⟨h16, rfl, _⟩ | ⟨hlt, hk1, hY⟩
              · rcases tk_cons.mp his with ⟨_, rfl⟩ | ⟨h, _⟩
                · exact absurd rfl hne
                · omega
              · rcases tk_cons.mp his with ⟨h, _⟩ | ⟨_, hs⟩
                · omega
                · rw [hY]
                  exact getN_short_value_other hk1 hs (by intro h; exact hne (by rw [h])) v
            · rw [getN_full_cons, Children.get_set_other _ _ _ _ (fun h => hia h.symm)]
              by_cases hib : i = b
              · subst hib
                rw [Children.get_set_same _ _ _ (by rw [Children.length_replicate]; exact hb17)]
                have hd : (p ++ i :: s).drop (p ++ i :: key1).length = s.drop key1.length := by
                  rw [List.length_append, List.length_cons, ← List.drop_drop, List.drop_left,
                    Nat.add_comm, ← List.drop_drop]; rfl
                rw [hd]
                cases key1 with
                | nil => simp
                | cons x r =>
                  have hXw : WF (.short (x :: r) c) := by
                    have := hX
                    simp only [List.isEmpty_cons, Bool.false_eq_true, if_false, slotOK,
                      if_neg (hb16 (by simp))] at this
                    exact this
                  simp only [List.isEmpty_cons, Bool.false_eq_true, if_false]
                  rw [getN_short hXw]
                  by_cases hq : x :: r <+: s
                  · rw [if_pos hq, if_pos (by rw [hpre, List.cons_prefix_cons]; exact ⟨rfl, hq⟩)]
                  · rw [if_neg hq, if_neg (by rw [hpre, List.cons_prefix_cons]; exact fun h => hq h.2)]
              · rw [Children.get_set_other _ _ _ _ (fun h => hib h.symm), Children.get_replicate, getN_empty,
                  if_neg (by rw [hpre, List.cons_prefix_cons]; exact fun h => hib h.1.symm)]
        · have hpne : p ≠ [] := by intro h; subst h; exact hp (List.nil_prefix)
          rw [if_neg hpne] at hwf ⊢
          rw [getN_short hwf, if_neg hp, if_neg]
          intro h; exact hp ((List.prefix_append p _).trans h)

end AnnVerif.Trie
