/-
  A decidable check for `SmallT` (every node's encoding fits 64-bit sizes), so that concrete tries
  can be shown to meet the hypothesis of the Merkle-proof theorem by evaluation.
-/
import AnnVerif.Lemmas.TrieProof
namespace AnnVerif.Trie

mutual
  def smallOneB : Rlp.Item → Bool
    | .str b => decide (b.length < 2 ^ 64)
    | .list l => decide ((Rlp.encodeList l).length < 2 ^ 64) && smallItemsB l
  def smallItemsB : List Rlp.Item → Bool
    | [] => true
    | x :: t => smallOneB x && smallItemsB t
end

mutual
  theorem smallOneB_sound : ∀ x, smallOneB x = true → Rlp.smallOne x
    | .str b, h => by rw [smallOneB] at h; rw [Rlp.smallOne]; simpa using h
    | .list l, h => by
      rw [smallOneB] at h; rw [Rlp.smallOne]
      simp only [Bool.and_eq_true, decide_eq_true_eq] at h
      exact ⟨h.1, smallItemsB_sound l h.2⟩
  theorem smallItemsB_sound : ∀ l, smallItemsB l = true → Rlp.smallItems l
    | [], _ => by rw [Rlp.smallItems]; trivial
    | x :: t, h => by
      rw [smallItemsB] at h; rw [Rlp.smallItems]
      simp only [Bool.and_eq_true] at h
      exact ⟨smallOneB_sound x h.1, smallItemsB_sound t h.2⟩
end

section
variable (H : Bytes → Bytes)
mutual
  def smallTB : Node → Bool
    | .short key c => smallOneB (enc H (.short key c)) && smallTB c
    | .full cs => smallOneB (enc H (.full cs)) && smallCB cs
    | _ => true
  def smallCB : Children → Bool
    | .nil => true
    | .cons n r => smallTB n && smallCB r
end

mutual
  theorem smallTB_sound : ∀ n, smallTB H n = true → SmallT H n
    | .empty, _ => by simp [SmallT]
    | .value _, _ => by simp [SmallT]
    | .short key c, h => by
      rw [smallTB] at h; rw [SmallT]
      simp only [Bool.and_eq_true] at h
      exact ⟨smallOneB_sound _ h.1, smallTB_sound c h.2⟩
    | .full cs, h => by
      rw [smallTB] at h; rw [SmallT]
      simp only [Bool.and_eq_true] at h
      exact ⟨smallOneB_sound _ h.1, smallCB_sound cs h.2⟩
  theorem smallCB_sound : ∀ cs, smallCB H cs = true → SmallC H cs
    | .nil, _ => by rw [SmallC]; trivial
    | .cons n r, h => by
      rw [smallCB] at h; rw [SmallC]
      simp only [Bool.and_eq_true] at h
      exact ⟨smallTB_sound n h.1, smallCB_sound r h.2⟩
end
end
end AnnVerif.Trie
