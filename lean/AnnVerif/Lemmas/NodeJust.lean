/-
  "No precommit without a polka", over every run (C04 L1 lifted from the transition to the history).

  `signed` is the list of all votes the node has ever signed (a ghost field of the model, appended
  by `signAddVote`, read by nothing). `QJ` says: every precommit for a block in it - signed for the
  height the node is in - names a block for which the node's prevote set of THAT round reports +2/3. The invariant is kept by every
  handler: the justification is there when the vote is signed (`enterPrecommit` signs a block only
  on `maj23 (prevotes r)`, in the round the node is in), a reported majority is never withdrawn
  (`VoteSet.addVote_maj23`, `setPeerMaj23_maj23`; rounds are only added), and when the height moves
  on the old height's votes are no longer the subject.

  Timeouts: the statement needs that no timeout fires for a round the node has not entered
  (`WellTimed`); the ticker only relays what the node scheduled, and `enter*` schedule for the round
  they enter.
-/
import AnnVerif.Lemmas.NodeMono
import AnnVerif.Lemmas.VoteSetInv

namespace AnnVerif.Node

def OwnJust (n : Node) (v : VoteSet.Vote) : Prop :=
  v.height ≤ n.height ∧
    (v.type = 2 → v.height = n.height → v.bid.hash.isEmpty = false → maj23 (prevotes n v.round) = some v.bid)

def QJ (n : Node) : Prop := ∀ v ∈ n.signed, OwnJust n v

/-- `n'` is `n` some steps later: the height did not go back, reported prevote majorities of the
    height persist, and what was signed meanwhile is justified -/
structure Ext (n n' : Node) : Prop where
  hle : n.height ≤ n'.height
  stable : n'.height = n.height → ∀ r b, maj23 (prevotes n r) = some b → maj23 (prevotes n' r) = some b
  queue : ∃ extra, n'.signed = n.signed ++ extra ∧ ∀ m ∈ extra, OwnJust n' m

theorem prevotes_congr {n n' : Node} (h : n'.rounds = n.rounds) (r : Int) : prevotes n' r = prevotes n r := by
  unfold prevotes getRound; rw [h]

theorem Ext.rfl' (n : Node) : Ext n n := ⟨Int.le_refl _, fun _ _ _ h => h, [], by simp, by simp⟩

theorem OwnJust.persist {n n' : Node} (e : Ext n n') {v : VoteSet.Vote} (h : OwnJust n v) : OwnJust n' v := by
  obtain ⟨h1, h2⟩ := h
  refine ⟨Int.le_trans h1 e.hle, ?_⟩
  intro ht hh hb
  have hEq : n'.height = n.height := by have := e.hle; omega
  exact e.stable hEq _ _ (h2 ht (by omega) hb)

theorem Ext.trans {a b c : Node} (x : Ext a b) (y : Ext b c) : Ext a c := by
  obtain ⟨e1, q1, j1⟩ := x.queue
  obtain ⟨e2, q2, j2⟩ := y.queue
  refine ⟨Int.le_trans x.hle y.hle, ?_, e1 ++ e2, by rw [q2, q1, List.append_assoc], ?_⟩
  · intro hh r bb hm
    have h1 : b.height = a.height := by have := x.hle; have := y.hle; omega
    have h2 : c.height = b.height := by omega
    exact y.stable h2 _ _ (x.stable h1 _ _ hm)
  · intro m hm
    rcases List.mem_append.mp hm with hm | hm
    · exact (j1 m hm).persist y
    · exact j2 m hm

theorem QJ.ext {n n' : Node} (q : QJ n) (e : Ext n n') : QJ n' := by
  obtain ⟨ex, hq, hj⟩ := e.queue
  intro m hm
  rw [hq] at hm
  rcases List.mem_append.mp hm with hm | hm
  · exact (q m hm).persist e
  · exact hj m hm

/-- a change that touches neither the height, nor the vote sets, nor signs anything -/
theorem Ext.frame {n n' : Node} (hh : n'.height = n.height) (hr : n'.rounds = n.rounds) (hq : n'.signed = n.signed) :
    Ext n n' :=
  ⟨by omega, fun _ r b h => by rw [prevotes_congr hr]; exact h, [], by simp [hq], by simp⟩

/-- `extra` is signed, nothing else that matters changes -/
theorem Ext.append {n n' : Node} (extra : List VoteSet.Vote) (hh : n'.height = n.height) (hr : n'.rounds = n.rounds)
    (hq : n'.signed = n.signed ++ extra) (hj : ∀ m ∈ extra, OwnJust n' m) : Ext n n' :=
  ⟨by omega, fun _ r b h => by rw [prevotes_congr hr]; exact h, extra, hq, hj⟩

theorem ext_emit (n : Node) (e : Emit) : Ext n (emit n e) := Ext.frame rfl rfl rfl

theorem bidOf_nil_empty : (bidOf []).hash.isEmpty = true := by simp [bidOf]

theorem ext_signAddVote (n : Node) (t : Nat) (bid : VoteSet.BlockID)
    (hj : t = 2 → bid.hash.isEmpty = false → maj23 (prevotes n n.round) = some bid) :
    Ext n (signAddVote n t bid) := by
  unfold signAddVote
  split
  · rename_i i a _ _
    dsimp only
    split
    · refine Ext.append [⟨i, a, n.height, n.round, t, bid, 0⟩] ?_ ?_ ?_ ?_
      · rfl
      · rfl
      · rfl
      · intro m hm
        simp only [List.mem_singleton] at hm
        subst hm
        exact ⟨Int.le_refl _, fun ht _ hb => hj ht hb⟩
    · exact Ext.frame rfl rfl rfl
  · exact Ext.rfl' n

theorem ext_doPrevote (n : Node) : Ext n (doPrevote n) := by
  unfold doPrevote
  split
  · exact ext_signAddVote _ _ _ (by intro h; omega)
  · split
    · exact ext_signAddVote _ _ _ (by intro h; omega)
    · split <;> exact ext_signAddVote _ _ _ (by intro h; omega)

theorem ext_enterPrevote (n : Node) (h r : Int) : Ext n (enterPrevote n h r) := by
  unfold enterPrevote
  split
  · exact Ext.rfl' n
  · exact (ext_doPrevote n).trans (Ext.frame rfl rfl rfl)

theorem ext_enterPrevoteWait (n : Node) (h r : Int) : Ext n (enterPrevoteWait n h r) := by
  unfold enterPrevoteWait
  split
  · exact Ext.rfl' n
  · split
    · exact ext_emit _ _
    · exact Ext.frame rfl rfl rfl

theorem ext_enterPrecommitWait (n : Node) (h r : Int) : Ext n (enterPrecommitWait n h r) := by
  unfold enterPrecommitWait
  split
  · exact Ext.rfl' n
  · split
    · exact ext_emit _ _
    · exact Ext.frame rfl rfl rfl

theorem ext_decideProposal (n : Node) (h r : Int) : Ext n (decideProposal n h r) := by
  unfold decideProposal
  extract_lets own block pol p res m
  have hm : m.height = n.height ∧ m.rounds = n.rounds ∧ m.signed = n.signed := by
    unfold m
    split <;> exact ⟨rfl, rfl, rfl⟩
  split
  · split
    · exact Ext.frame hm.1 hm.2.1 hm.2.2
    · exact Ext.frame rfl rfl rfl
  · exact Ext.frame rfl rfl rfl

/-- rounds are only added at the end: a reported majority stays -/
theorem maj_append {n n' : Node} (extra : List RoundVotes) (h : n'.rounds = n.rounds ++ extra) (r : Int)
    (b : VoteSet.BlockID) (hm : maj23 (prevotes n r) = some b) : maj23 (prevotes n' r) = some b := by
  unfold prevotes getRound at hm ⊢
  rw [h, List.find?_append]
  cases hf : List.find? (fun x => decide (x.round = r)) n.rounds with
  | none => simp [hf, maj23] at hm
  | some rv => simpa [hf] using hm

theorem ext_setRound (n : Node) (r : Int) : Ext n (setRound n r) := by
  unfold setRound
  split
  · exact Ext.frame rfl rfl rfl
  · exact ⟨Int.le_refl _, fun _ rr b hb => maj_append _ rfl rr b hb, [], by simp, by simp⟩

theorem ext_enterPropose (n : Node) (h r : Int) : Ext n (enterPropose n h r) := by
  unfold enterPropose
  split
  · exact Ext.rfl' n
  · extract_lets n1 n2 n3
    have s1 : Ext n n1 := ext_emit _ _
    have s2 : Ext n n2 := by
      unfold n2
      split
      · split
        · exact s1.trans (ext_decideProposal _ _ _)
        · exact s1
      · exact s1
    have s3 : Ext n n3 := s2.trans (Ext.frame rfl rfl rfl)
    split
    · exact s3.trans (ext_enterPrevote _ _ _)
    · exact s3

theorem ext_enterNewRound (n : Node) (h r : Int) : Ext n (enterNewRound n h r) := by
  unfold enterNewRound
  split
  · exact Ext.rfl' n
  · extract_lets vals n1 n2 n3
    have s1 : Ext n n1 := Ext.frame rfl rfl rfl
    have s2 : Ext n1 n2 := by
      unfold n2
      split
      · exact Ext.rfl' _
      · exact Ext.frame rfl rfl rfl
    exact ((s1.trans s2).trans (ext_setRound _ _)).trans (ext_enterPropose _ _ _)

theorem ext_unlock (n : Node) : Ext n (unlock n) := Ext.frame rfl rfl rfl

/-- `enterPrecommit` for a round the node is in or has left (not one ahead of it) -/
theorem ext_enterPrecommit (n : Node) (h r : Int) (hr : n.height = h → r ≤ n.round) :
    Ext n (enterPrecommit n h r) := by
  unfold enterPrecommit
  split
  · exact Ext.rfl' n
  · rename_i hg
    have hh : n.height = h := Classical.not_not.mp (fun x => hg (Or.inl x))
    have hrr : r = n.round := by
      have : ¬ r < n.round := fun x => hg (Or.inr (Or.inl x))
      have := hr hh
      omega
    extract_lets fin
    have hfin : ∀ m : Node, Ext m (fin m) := fun m => Ext.frame rfl rfl rfl
    have nilJ : ∀ m : Node, (2 : Nat) = 2 → (bidOf []).hash.isEmpty = false → maj23 (prevotes m m.round) = some (bidOf []) := by
      intro m _ hb; simp [bidOf_nil_empty] at hb
    split
    · exact (ext_signAddVote _ _ _ (nilJ _)).trans (hfin _)
    · rename_i blockID hm
      split
      · exact (ext_emit _ _).trans (hfin _)
      · split
        · refine Ext.trans ?_ (hfin _)
          refine Ext.trans ?_ (ext_signAddVote _ _ _ (nilJ _))
          split
          · exact ext_unlock n
          · exact Ext.rfl' n
        · split
          · refine Ext.trans ?_ (hfin _)
            refine Ext.trans (Ext.frame (n' := { n with lockedRound := r }) rfl rfl rfl) (ext_signAddVote _ _ _ ?_)
            intro _ _
            show maj23 (prevotes n n.round) = some blockID
            rw [← hrr]; exact hm
          · split
            · split
              · exact (ext_emit _ _).trans (hfin _)
              · refine Ext.trans ?_ (hfin _)
                refine Ext.trans (Ext.frame (n' := { n with lockedRound := r, lockedBlock := n.proposalBlock }) rfl rfl rfl)
                  (ext_signAddVote _ _ _ ?_)
                intro _ _
                show maj23 (prevotes n n.round) = some blockID
                rw [← hrr]; exact hm
            · refine Ext.trans ?_ (hfin _)
              refine Ext.trans ?_ (ext_signAddVote _ _ _ (nilJ _))
              refine Ext.trans (ext_unlock n) ?_
              split
              · exact Ext.rfl' _
              · exact Ext.frame rfl rfl rfl

theorem ext_finalizeCommit (n : Node) (h : Int) : Ext n (finalizeCommit n h) := by
  unfold finalizeCommit
  split
  · exact Ext.rfl' n
  · rename_i hg
    split
    · split
      · exact ext_emit _ _
      · split
        · exact ext_emit _ _
        · split
          · exact ext_emit _ _
          · split
            · exact ext_emit _ _
            · have hh : n.height = h := Classical.not_not.mp (fun x => hg (Or.inl x))
              refine ⟨?_, ?_, [], ?_, by simp⟩
              · show n.height ≤ h + 1; omega
              · intro he
                have : h + 1 = n.height := he
                omega
              · simp [emit]
    · exact ext_emit _ _

theorem ext_tryFinalizeCommit (n : Node) (h : Int) : Ext n (tryFinalizeCommit n h) := by
  unfold tryFinalizeCommit
  split
  · exact ext_emit _ _
  · split
    · exact Ext.rfl' n
    · split
      · exact Ext.rfl' n
      · split
        · exact Ext.rfl' n
        · exact ext_finalizeCommit _ _

theorem ext_enterCommit (n : Node) (h cr : Int) : Ext n (enterCommit n h cr) := by
  unfold enterCommit
  split
  · exact Ext.rfl' n
  · split
    · exact ext_emit _ _
    · extract_lets n1 n2 n3
      have s1 : Ext n n1 := by
        unfold n1
        split
        · exact Ext.frame rfl rfl rfl
        · exact Ext.rfl' n
      have s2 : Ext n1 n2 := by
        unfold n2
        split
        · exact Ext.frame rfl rfl rfl
        · exact Ext.rfl' _
      have s3 : Ext n2 n3 := Ext.frame rfl rfl rfl
      exact ((s1.trans s2).trans s3).trans (ext_tryFinalizeCommit _ _)

theorem ext_setProposal (n : Node) (p : Proposal) (signer : Nat) (bad : Bool) : Ext n (setProposal n p signer bad) := by
  unfold setProposal
  split
  · exact Ext.rfl' n
  · split
    · exact Ext.rfl' n
    · split
      · exact Ext.rfl' n
      · split
        · exact Ext.rfl' n
        · split
          · exact Ext.rfl' n
          · split <;> exact Ext.frame rfl rfl rfl

theorem ext_addParts (n : Node) (height : Int) (block : Name) (own : Bool) : Ext n (addParts n height block own) := by
  unfold addParts
  split
  · exact Ext.rfl' n
  · split
    · exact Ext.rfl' n
    · split
      · exact Ext.rfl' n
      · split
        · exact Ext.rfl' n
        · extract_lets m
          have sm : Ext n m := Ext.frame rfl rfl rfl
          split
          · exact sm.trans (ext_enterPrevote _ _ _)
          · split
            · exact sm.trans (ext_tryFinalizeCommit _ _)
            · exact sm

theorem find?_congr' {α : Type} (p q : α → Bool) : ∀ (l : List α), (∀ x ∈ l, p x = q x) → l.find? p = l.find? q := by
  intro l
  induction l with
  | nil => intro _; rfl
  | cons a r ih =>
    intro h
    simp only [List.find?_cons, h a (by simp)]
    rw [ih (fun x hx => h x (by simp [hx]))]

theorem getRound_round {n : Node} {r : Int} {rv : RoundVotes} (h : getRound n r = some rv) : rv.round = r := by
  unfold getRound at h
  simpa using List.find?_some h

/-- one round's vote sets are replaced by ones that keep a reported prevote majority -/
theorem maj_map {n n' : Node} (R : Int) (rv' : RoundVotes) (hR : rv'.round = R)
    (h : n'.rounds = n.rounds.map (fun x => if x.round = R then rv' else x))
    (hst : ∀ rv, getRound n R = some rv → ∀ b, rv.prevotes.maj23 = some b → rv'.prevotes.maj23 = some b)
    (r : Int) (b : VoteSet.BlockID) (hm : maj23 (prevotes n r) = some b) : maj23 (prevotes n' r) = some b := by
  unfold prevotes getRound at hm ⊢
  rw [h, List.find?_map]
  have hc : List.find? ((fun x => decide (x.round = r)) ∘ fun x => if x.round = R then rv' else x) n.rounds =
      List.find? (fun x => decide (x.round = r)) n.rounds := by
    apply find?_congr'
    intro x _
    simp only [Function.comp]
    by_cases e : x.round = R
    · simp only [e, if_true, hR]
    · simp only [e, if_false]
  rw [hc]
  cases hf : List.find? (fun x => decide (x.round = r)) n.rounds with
  | none => simp [hf, maj23] at hm
  | some x =>
    rw [hf] at hm
    simp only [Option.map_some, maj23, Option.bind_some] at hm ⊢
    by_cases e : x.round = R
    · simp only [e, if_true]
      have hxr : x.round = r := by simpa using List.find?_some hf
      have : getRound n R = some x := by
        unfold getRound
        rw [← e, hxr]; exact hf
      exact hst x this b hm
    · simp only [e, if_false]; exact hm

theorem ext_hvsAddVote (n : Node) (v : VoteSet.Vote) (sigok : Bool) (peer : String) :
    Ext n (hvsAddVote n v sigok peer).1 := by
  unfold hvsAddVote
  split
  · exact Ext.rfl' n
  · split
    rename_i n' known heq
    have s : Ext n n' := by
      split at heq
      · cases heq; exact Ext.rfl' n
      · dsimp only at heq
        split at heq
        · cases heq
          exact ⟨Int.le_refl _, fun _ rr b hb => maj_append _ rfl rr b hb, [], by simp, by simp⟩
        · cases heq; exact Ext.rfl' n
    split
    · exact s
    · split
      · exact s
      · rename_i rv hrv
        refine s.trans ⟨Int.le_refl _, ?_, [], by simp, by simp⟩
        intro _ rr b hb
        refine maj_map (n := n') v.round _ ?_ rfl ?_ rr b hb
        · have := getRound_round hrv
          split <;> exact this
        · intro rv0 h0 b0 hb0
          rw [hrv] at h0
          cases h0
          by_cases ht : v.type = 1
          · simp only [ht, if_true]
            rcases VoteSet.addVote_maj23 VoteSet.repaired rv.prevotes v sigok with h1 | ⟨h1, _, _⟩
            · rw [h1]; exact hb0
            · rw [h1] at hb0; cases hb0
          · simp only [ht, if_false]; exact hb0

theorem ext_setPeerMaj23 (n : Node) (height round : Int) (type : Nat) (peer : String) (bid : VoteSet.BlockID) :
    Ext n (setPeerMaj23 n height round type peer bid) := by
  unfold setPeerMaj23
  split
  · exact Ext.rfl' n
  · split
    · exact Ext.rfl' n
    · split
      · exact Ext.rfl' n
      · rename_i rv hrv
        refine ⟨Int.le_refl _, ?_, [], by simp, by simp⟩
        intro _ rr b hb
        refine maj_map (n := n) round _ ?_ rfl ?_ rr b hb
        · have := getRound_round hrv
          split <;> exact this
        · intro rv0 h0 b0 hb0
          rw [hrv] at h0
          cases h0
          by_cases ht : type = 1
          · simp only [ht, if_true]
            rw [VoteSet.setPeerMaj23_maj23]; exact hb0
          · simp only [ht, if_false]; exact hb0

/-! ### the round a node stands in after entering one -/

theorem enterPrevote_round (n : Node) (h r : Int) (e : n.round = r) : (enterPrevote n h r).round = r := by
  unfold enterPrevote
  split
  · exact e
  · rfl

theorem enterPropose_round (n : Node) (h r : Int) (e : n.round = r) : (enterPropose n h r).round = r := by
  unfold enterPropose
  split
  · exact e
  · extract_lets n1 n2 n3
    split
    · exact enterPrevote_round n3 h n3.round rfl
    · rfl

theorem setRound_round (n : Node) (r : Int) : (setRound n r).round = n.round := by
  unfold setRound
  split <;> rfl

/-- after `enterNewRound n h r` a node at height `h` stands in round `r` or a later one -/
theorem enterNewRound_hr (n : Node) (h r : Int) :
    (enterNewRound n h r).height = h → r ≤ (enterNewRound n h r).round := by
  unfold enterNewRound
  split
  · rename_i hg
    intro hh
    rcases hg with hg | hg | hg
    · exact absurd hh hg
    · exact Int.le_of_lt hg
    · rw [hg.1]; exact Int.le_refl _
  · extract_lets vals n1 n2 n3
    intro _
    have h2 : n2.round = r := by
      unfold n2
      split <;> rfl
    have h3 : n3.round = r := by rw [show n3.round = n2.round from setRound_round _ _]; exact h2
    rw [enterPropose_round n3 h r h3]
    exact Int.le_refl _

theorem ext_addVote (n : Node) (v : VoteSet.Vote) (sigok : Bool) (peer : String) : Ext n (addVote n v sigok peer) := by
  unfold addVote
  split
  · split
    · exact Ext.rfl' n
    · split
      · split
        · exact Ext.rfl' n
        · exact ext_emit _ _
      · split
        dsimp only
        split
        · refine Ext.trans ?_ (ext_enterNewRound _ _ _)
          exact Ext.frame rfl rfl rfl
        · exact Ext.frame rfl rfl rfl
  · split
    · have s0 : Ext n (hvsAddVote n v sigok peer).1 := ext_hvsAddVote _ _ _ _
      generalize hvsAddVote n v sigok peer = res at s0 ⊢
      obtain ⟨m, o⟩ := res
      dsimp only at s0 ⊢
      split
      · exact s0
      · split
        · have s1 : Ext m (if m.lockedBlock.isSome = true ∧ m.lockedRound < v.round ∧ v.round ≤ m.round then
              match maj23 (prevotes m v.round) with
              | some b => if (!hashesTo m.lockedBlock b.hash) = true then unlock m else m
              | none => m
            else m) := by
            split
            · split
              · split
                · exact ext_unlock m
                · exact Ext.rfl' m
              · exact Ext.rfl' m
            · exact Ext.rfl' m
          generalize (if m.lockedBlock.isSome = true ∧ m.lockedRound < v.round ∧ v.round ≤ m.round then
              match maj23 (prevotes m v.round) with
              | some b => if (!hashesTo m.lockedBlock b.hash) = true then unlock m else m
              | none => m
            else m) = m1 at s1 ⊢
          have l1 : Ext n m1 := s0.trans s1
          split
          · split
            · exact l1.trans ((ext_enterNewRound _ _ _).trans
                (ext_enterPrecommit _ _ _ (enterNewRound_hr m1 n.height v.round)))
            · exact l1.trans ((ext_enterNewRound _ _ _).trans ((ext_enterPrevote _ _ _).trans (ext_enterPrevoteWait _ _ _)))
          · split
            · split
              · exact l1.trans (ext_enterPrevote _ _ _)
              · exact l1
            · exact l1
        · split
          · split
            · exact s0.trans (ext_enterNewRound _ _ _)
            · have lc := s0.trans ((ext_enterNewRound m n.height v.round).trans
                ((ext_enterPrecommit _ n.height v.round (enterNewRound_hr m n.height v.round)).trans
                  (ext_enterCommit _ n.height v.round)))
              split
              · exact lc.trans (ext_enterNewRound _ _ _)
              · exact lc
          · split
            · exact s0.trans ((ext_enterNewRound _ _ _).trans
                ((ext_enterPrecommit _ _ _ (enterNewRound_hr m n.height v.round)).trans (ext_enterPrecommitWait _ _ _)))
            · exact s0
    · exact Ext.rfl' n

/-- a timeout for the height the node is in is not for a round ahead of it -/
theorem ext_handleTimeout (n : Node) (h r : Int) (s : Step) (hw : h = n.height → r ≤ n.round) :
    Ext n (handleTimeout n h r s) := by
  unfold handleTimeout
  split
  · exact Ext.rfl' n
  · split
    · exact ext_enterNewRound _ _ _
    · exact ext_enterPrevote _ _ _
    · exact ext_enterPrecommit _ _ _ (fun e => hw e.symm)
    · exact ext_enterNewRound _ _ _
    · exact ext_emit _ _

theorem ext_handleMsg (n : Node) (m : Msg) (peer : String) : Ext n (handleMsg n m peer) := by
  unfold handleMsg
  split
  · exact ext_setProposal _ _ _ _
  · exact ext_addParts _ _ _ _
  · exact ext_addVote _ _ _ _

def WellTimed (n : Node) : In → Prop
  | .timeout h r _ => h = n.height → r ≤ n.round
  | _ => True

/-- every timeout of the run fires for a round the node has entered -/
def RunOK : Node → List In → Prop
  | _, [] => True
  | n, i :: rest => WellTimed n i ∧ RunOK (stepIn n i) rest

theorem qj_stepIn (n : Node) (i : In) (q : QJ n) (hw : WellTimed n i) : QJ (stepIn n i) := by
  cases i with
  | msg m peer => exact q.ext (ext_handleMsg _ _ _)
  | own =>
    show QJ (match n.queue with | [] => n | m :: rest => handleMsg { n with queue := rest } m "")
    split
    · exact q
    · rename_i m rest _
      have q' : QJ { n with queue := rest } := q
      exact q'.ext (ext_handleMsg _ _ _)
  | timeout h r s => exact q.ext (ext_handleTimeout _ _ _ _ hw)
  | maj23 h r t peer bid => exact q.ext (ext_setPeerMaj23 _ _ _ _ _ _)

theorem run_qj (ins : List In) : ∀ n : Node, QJ n → RunOK n ins → QJ (ins.foldl stepIn n) := by
  induction ins with
  | nil => intro n q _; exact q
  | cons i rest ih => intro n q hr; exact ih _ (qj_stepIn n i q hr.1) hr.2

theorem init_qj (cfg : Cfg) (height : Int) (vals : ValSet.ValSet) (me : Option Nat) (skip : Bool) :
    QJ (init cfg height vals me skip) := by
  intro m hm; simp [init] at hm

end AnnVerif.Node
